(* C04 driver: line oriented, usable as a batch tool and as a kernel co-process.

   encodings (no blanks inside a field; tokens are hex, "-" = empty token):
     rule    = tok.tok...            ("" = rule without tokens)
     table   = name:rule,rule;name:...      (chains in order)
     nft     = tname=table|tname=table      ("-" = none)
     pf      = loaded,on,refs(.),next,skip,main(.),calls(r.name/p.name joined by +),anchors(name.text joined by +)
     state   = v6nat v6mangle v4nat v4mangle nft pf           (6 fields, "-" = empty table list)
     fam     = on port body          body = chain:rule,chain:rule... or "-"
     cfg     = method repaired udp owner nlines tail v6on v6port v6body v4on v4port v4body
               method = nat|nft|tproxy|pf-freebsd|pf-openbsd|pf-darwin ; owner = rule or "none"
               tail = string over H (HOST line) / X (other line) or "-"
   commands:
     KSET state(6)                       -> OK
     KGET                                -> state(6)
     KCMD fault stdinhex argvtok...      -> rc stdouthex stderrhex        (co-process: acts on the held state)
     SESSION cfg(12) cut faults state(6) -> outcome ncmds fin_at started py | events | final state
        faults = i,j,k or "-" ; events = rc:argv(.)[:stdinhex] or M:name, joined by blanks
     CHAINEX namehex table               -> line byte      (1|0 each: chain_in_listing name (listing T), i.e. the session
                                            model's line-by-line test, and chain_in_output name (join_lines (listing T)),
                                            i.e. decode('ASCII','replace') + split at line feeds on the raw bytes)
     LISTING table                       -> hex of the bytes `iptables -nL` prints for the table
     SUBCLASS a b                        -> 1|0          (Model/FwLog.v: issubclass(a, b))
     SWALLOWS a                          -> 1|0          (log_swallows: named by helpers.log's except clauses)
     LOGCALL mode i0 cls both nlines     -> RETURN | ESCAPE cls      (one call of helpers.log)
        mode = ok|once|from : stream operation i0 of the call raises cls (once / from then on;
        both=1: sys.stdout.flush fails too).  operation 0 = stdout.flush, 1.. = stderr.write, last = stderr.flush
     SESSIONL v mode j0 i0 cls both nl pre cfg(12) cut faults state(6)
                                         -> outcome ncmds fin_at py nlog | events | final state
        v = verbosity; (mode j0 i0 cls both) as above for log call j0 of the session; nl = lines per message;
        pre = levels of the debug calls before `try:` (l,l,l or "-")
     SESSIONE end flush_setup started hosts_fail hosts_restore flush_teardown cfg(12) cut faults state(6)
                                         -> as SESSION        (Model/FwEnv.v session_e)
        end = eof | <class> (readline raises); flush_setup, started = - | <class>; hosts_fail = - | k (k-th HOST
        line's rewrite raises); hosts_restore, flush_teardown = 0|1 (raise inside their guards)
     SESSIONA k cfg(12) cut faults state(6) -> as SESSION   (Model/FwEnv.v session_sig_asfound: finding F120, the signal
        handler raises while the helper waits for command k of the tear-down; nat / tproxy / nft) *)
let split_on c s = if s = "" then [] else String.split_on_char c s
let tok_of s = bytes_of_hex s
let str_of_tok t = hex_of_bytes t
let rule_of s = if s = "" then [] else List.map tok_of (String.split_on_char '.' s)
let str_of_rule r = String.concat "." (List.map str_of_tok r)
let chain_of s =
  match String.index_opt s ':' with
  | None -> failwith ("bad chain " ^ s)
  | Some i ->
      let name = String.sub s 0 i and rest = String.sub s (i + 1) (String.length s - i - 1) in
      (tok_of name, if rest = "" then [] else List.map rule_of (String.split_on_char ',' rest))
let table_of s = if s = "-" then [] else List.map chain_of (String.split_on_char ';' s)
let str_of_chain (n, rs) = str_of_tok n ^ ":" ^ String.concat "," (List.map str_of_rule rs)
let str_of_table t = match t with [] -> "-" | _ -> String.concat ";" (List.map str_of_chain t)
let nft_of s =
  if s = "-" then [] else
  List.map (fun x ->
    match String.index_opt x '=' with
    | None -> failwith "bad nft"
    | Some i -> (tok_of (String.sub x 0 i), table_of (String.sub x (i + 1) (String.length x - i - 1))))
    (String.split_on_char '|' s)
let str_of_nft l = match l with [] -> "-" | _ ->
  String.concat "|" (List.map (fun (n, t) -> str_of_tok n ^ "=" ^ str_of_table t) l)
let b01 s = (s = "1")
let s01 b = if b then "1" else "0"
let dots s = if s = "" then [] else List.map tok_of (String.split_on_char '.' s)
let pluses s = if s = "" then [] else String.split_on_char '+' s
let pf_of s =
  match String.split_on_char ',' s with
  | [ld; on; refs; next; skip; main; calls; anchors] ->
      { pf_loaded = b01 ld; pf_on = b01 on; pf_refs = dots refs; pf_next = n_of_int (int_of_string next);
        pf_skip_lo = b01 skip; pf_main = dots main;
        pf_calls = List.map (fun c -> (c.[0] = 'r', tok_of (String.sub c 2 (String.length c - 2)))) (pluses calls);
        pf_anchors = List.map (fun c -> match String.split_on_char '.' c with
                                        | [a; b] -> (tok_of a, tok_of b) | _ -> failwith "bad anchor") (pluses anchors) }
  | _ -> failwith "bad pf"
let str_of_pf p =
  String.concat "," [s01 p.pf_loaded; s01 p.pf_on; String.concat "." (List.map str_of_tok p.pf_refs);
                     string_of_int (int_of_n p.pf_next); s01 p.pf_skip_lo;
                     String.concat "." (List.map str_of_tok p.pf_main);
                     String.concat "+" (List.map (fun (r, a) -> (if r then "r." else "p.") ^ str_of_tok a) p.pf_calls);
                     String.concat "+" (List.map (fun (a, t) -> str_of_tok a ^ "." ^ str_of_tok t) p.pf_anchors)]
let state_of = function
  | [a; b; c; d; e; f] ->
      { k_v6nat = table_of a; k_v6mangle = table_of b; k_v4nat = table_of c; k_v4mangle = table_of d;
        k_nft = nft_of e; k_pf = pf_of f }
  | _ -> failwith "bad state"
let str_of_state s =
  String.concat " " [str_of_table s.k_v6nat; str_of_table s.k_v6mangle; str_of_table s.k_v4nat;
                     str_of_table s.k_v4mangle; str_of_nft s.k_nft; str_of_pf s.k_pf]
let body_of s = if s = "-" then [] else List.map (fun x -> let (c, rs) = chain_of x in
                   (c, match rs with [r] -> r | [] -> [] | _ -> failwith "bad body")) (String.split_on_char ',' s)
let method_of = function
  | "nat" -> MNat | "nft" -> MNft | "tproxy" -> MTproxy
  | "pf-freebsd" -> MPf FreeBSD | "pf-openbsd" -> MPf OpenBSD | "pf-darwin" -> MPf Darwin
  | m -> failwith ("bad method " ^ m)
let cfg_of = function
  | [m; rep; udp; owner; nl; tail; on6; p6; b6; on4; p4; b4] ->
      { c_method = method_of m; c_repaired = b01 rep; c_udp = b01 udp;
        c_owner = (if owner = "none" then None else Some (rule_of owner));
        c_nlines = nat_of_int (int_of_string nl);
        c_tail = (if tail = "-" then [] else List.init (String.length tail) (fun i -> tail.[i] = 'H'));
        c_v6 = { fc_on = b01 on6; fc_port = tok_of p6; fc_body = body_of b6 };
        c_v4 = { fc_on = b01 on4; fc_port = tok_of p4; fc_body = body_of b4 } }
  | _ -> failwith "bad cfg"
let faults_of s =
  if s = "-" then (fun _ -> false) else
  let l = List.map int_of_string (String.split_on_char ',' s) in
  (fun n -> List.mem (int_of_nat n) l)
let mark_str = function
  | MSetup V6 -> "M:setup6" | MSetup V4 -> "M:setup4" | MStarted -> "M:started"
  | MRestore V6 -> "M:restore6" | MRestore V4 -> "M:restore4" | MHosts -> "M:hosts"
let event_str = function
  | ECmd (c, ok, _) ->
      let stdin = (match c with Pf o -> pfop_stdin o | _ -> []) in
      (if ok then "0:" else "1:") ^ str_of_rule (argv c) ^ (match stdin with [] -> "" | _ -> ":" ^ hex_of_bytes stdin)
  | EMark m -> mark_str m
let outcome_str = function ExitReturn -> "RETURN" | ExitFatal -> "FATAL" | ExitCrash -> "CRASH"
let rec take n l = if n = 0 then [] else match l with [] -> [] | x :: r -> x :: take (n - 1) r
let rec drop n l = if n = 0 then l else match l with [] -> [] | _ :: r -> drop (n - 1) r
let classes = [
  "Exception", CException; "OSError", COSError; "BlockingIOError", CBlockingIOError;
  "ChildProcessError", CChildProcessError; "ConnectionError", CConnectionError;
  "BrokenPipeError", CBrokenPipeError; "ConnectionAbortedError", CConnectionAbortedError;
  "ConnectionRefusedError", CConnectionRefusedError; "ConnectionResetError", CConnectionResetError;
  "FileExistsError", CFileExistsError; "FileNotFoundError", CFileNotFoundError;
  "InterruptedError", CInterruptedError; "IsADirectoryError", CIsADirectoryError;
  "NotADirectoryError", CNotADirectoryError; "PermissionError", CPermissionError;
  "ProcessLookupError", CProcessLookupError; "TimeoutError", CTimeoutError;
  "ValueError", CValueError; "UnicodeError", CUnicodeError; "UnicodeEncodeError", CUnicodeEncodeError;
  "UnicodeDecodeError", CUnicodeDecodeError; "UnicodeTranslateError", CUnicodeTranslateError;
  "RuntimeError", CRuntimeError; "RecursionError", CRecursionError; "NotImplementedError", CNotImplementedError;
  "TypeError", CTypeError; "AttributeError", CAttributeError; "LookupError", CLookupError;
  "KeyError", CKeyError; "IndexError", CIndexError; "ArithmeticError", CArithmeticError;
  "ZeroDivisionError", CZeroDivisionError; "MemoryError", CMemoryError; "AssertionError", CAssertionError;
  "EOFError", CEOFError; "BufferError", CBufferError ]
let cls_of s = try List.assoc s classes with Not_found -> failwith ("bad class " ^ s)
let str_of_cls c = fst (List.find (fun (_, x) -> x = c) classes)
let env_of mode j0 i0 cls both =
  let j0 = nat_of_int (int_of_string j0) and i0 = nat_of_int (int_of_string i0) in
  match mode with
  | "ok" -> env_ok
  | "once" -> env_once j0 i0 (cls_of cls)
  | "from" -> env_from j0 i0 (cls_of cls) (b01 both)
  | m -> failwith ("bad mode " ^ m)
let held = ref k_empty
let handle = function
  | "KSET" :: st -> held := state_of st; "OK"
  | ["KGET"] -> str_of_state !held
  | "KCMD" :: fault :: stdin :: av ->
      (match parse_cmd (List.map tok_of av) (bytes_of_hex stdin) with
       | None -> "ERROR unparsed"
       | Some c ->
           if fault = "1" then "1 - -" else
           let ((r, out), err) = exec c !held in
           let o = hex_of_bytes (join_lines out) and e = hex_of_bytes (join_lines err) in
           (match r with
            | Some s -> held := s; Printf.sprintf "0 %s %s" o e
            | None -> Printf.sprintf "1 %s %s" o e))
  | "SESSION" :: rest ->
      let c = cfg_of (take 12 rest) in
      (match drop 12 rest with
       | cut :: fl :: st ->
           let r = session c (nat_of_int (int_of_string cut)) (faults_of fl) (state_of st) in
           Printf.sprintf "%s %d %d %d,%s,%s | %s | %s" (outcome_str r.r_outcome) (int_of_nat r.r_ncmds)
             (int_of_nat r.r_fin_at) (int_of_z r.r_py.py_started) (s01 r.r_py.py_loaded)
             (String.concat "." (List.map str_of_tok r.r_py.py_tokens))
             (String.concat " " (List.map event_str r.r_events)) (str_of_state r.r_final)
       | _ -> "ERROR bad session")
  | ["CHAINEX"; name; tb] ->
      let t = table_of tb and n = tok_of name in
      s01 (chain_in_listing n (listing t)) ^ " " ^ s01 (chain_in_output n (join_lines (listing t)))
  | ["LISTING"; tb] -> hex_of_bytes (join_lines (listing (table_of tb)))
  | ["SUBCLASS"; a; b] -> s01 (subclass (cls_of a) (cls_of b))
  | ["SWALLOWS"; a] -> s01 (log_swallows (cls_of a))
  | ["LOGCALL"; mode; i0; cls; both; nl] ->
      (match log_call log_swallows (env_of mode "0" i0 cls both O) (nat_of_int (int_of_string nl)) with
       | None -> "RETURN"
       | Some e -> "ESCAPE " ^ str_of_cls e)
  | "SESSIONL" :: v :: mode :: j0 :: i0 :: cls :: both :: nl :: pre :: rest ->
      let c = cfg_of (take 12 rest) in
      (match c.c_method, drop 12 rest with
       | MPf _, _ -> "ERROR sessionL does not model pf"
       | _, cut :: fl :: st ->
           let nl = nat_of_int (int_of_string nl) in
           let lg = { lg_verbose = nat_of_int (int_of_string v); lg_sw = log_swallows;
                      lg_env = env_of mode j0 i0 cls both; lg_nl = (fun _ -> nl) } in
           let pre = if pre = "-" then [] else List.map (fun x -> nat_of_int (int_of_string x)) (String.split_on_char ',' pre) in
           let rl = sessionL lg pre c (nat_of_int (int_of_string cut)) (faults_of fl) (state_of st) in
           let r = rl.rl_res in
           Printf.sprintf "%s %d %d %d,%s,%s %d | %s | %s" (outcome_str r.r_outcome) (int_of_nat r.r_ncmds)
             (int_of_nat r.r_fin_at) (int_of_z r.r_py.py_started) (s01 r.r_py.py_loaded)
             (String.concat "." (List.map str_of_tok r.r_py.py_tokens)) (int_of_nat rl.rl_nlog)
             (String.concat " " (List.map event_str r.r_events)) (str_of_state r.r_final)
       | _ -> "ERROR bad sessionL")
  | "SESSIONE" :: en :: fs :: stt :: hf :: hr :: ft :: rest ->
      let c = cfg_of (take 12 rest) in
      let opt_cls x = if x = "-" then None else Some (cls_of x) in
      (match drop 12 rest with
       | cut :: fl :: st ->
           let w = { w_end = (if en = "eof" then CEof else CErr (cls_of en)); w_flush_setup = opt_cls fs;
                     w_started = opt_cls stt;
                     w_hosts_fail = (if hf = "-" then None else Some (nat_of_int (int_of_string hf)));
                     w_hosts_restore_fail = b01 hr; w_flush_teardown = b01 ft } in
           let r = session_e c (nat_of_int (int_of_string cut)) (faults_of fl) w (state_of st) in
           Printf.sprintf "%s %d %d %d,%s,%s | %s | %s" (outcome_str r.r_outcome) (int_of_nat r.r_ncmds)
             (int_of_nat r.r_fin_at) (int_of_z r.r_py.py_started) (s01 r.r_py.py_loaded)
             (String.concat "." (List.map str_of_tok r.r_py.py_tokens))
             (String.concat " " (List.map event_str r.r_events)) (str_of_state r.r_final)
       | _ -> "ERROR bad sessionE")
  | "SESSIONA" :: k :: rest ->
      let c = cfg_of (take 12 rest) in
      let k = int_of_string k in
      (match c.c_method, drop 12 rest with
       | MPf _, _ -> "ERROR sessionA does not model pf"
       | _, cut :: fl :: st ->
           let r = session_sig_asfound c (nat_of_int (int_of_string cut)) (faults_of fl)
                     (fun n -> int_of_nat n = k) (state_of st) in
           Printf.sprintf "%s %d %d %d,%s,%s | %s | %s" (outcome_str r.r_outcome) (int_of_nat r.r_ncmds)
             (int_of_nat r.r_fin_at) (int_of_z r.r_py.py_started) (s01 r.r_py.py_loaded)
             (String.concat "." (List.map str_of_tok r.r_py.py_tokens))
             (String.concat " " (List.map event_str r.r_events)) (str_of_state r.r_final)
       | _ -> "ERROR bad sessionA")
  | _ -> "ERROR bad command"
let () = main_loop handle
