(* C15 driver: one case per line (tokens separated by blanks, "-" = empty).
   RUN fixes feat remote l6 l4 dns resolv nshosts tons incl excl autonets user group env
       fixes   6 chars 0/1: F1 F2 F14 F15 F21 F131 applied
       feat    7 chars 0/1: loopback ipv4 ipv6 udp dns user group
       remote/dns/autonets  0/1
       l6,l4   N | A | X:<hexip>:<port>
       resolv,nshosts   ;-separated  <4|6>,<hexip>
       tons    - | <hexip>,<port>
       incl,excl        ;-separated  <4|6>,<hexip>,<width>,<fport>,<lport>
       user,group       - | E<id> | M
       env     ;-separated  <t|u><4|6>:<lo>:<hi>      (busy port ranges, every address)
                            r<t|u><4|6>:<errno>:<hexip|*>:<lo>:<hi>   (bind refused with that errno; first match decides)
     -> FATAL <class> | OSERR <errno> | CRASH <class> | PLAN <fields>  [ v6active=<0/1> hasv6=<0/1> ]
   LISTEN <disable_ipv6 0/1> <- | ;-separated <4|6>,<hexip>,<port>>   -> <l6> <l4>
   METHODS               -> documented names, each with :1/:0 (accepted by method_choices)
   FEATURES <name-hex>   -> 7 chars 0/1 | UNKNOWN *)
let b c = c = '1'
let fam_of = function "4" -> V4 | "6" -> V6 | s -> failwith ("bad family " ^ s)
let fam_str = function V4 -> "4" | V6 -> "6"
let num s = n_of_int (int_of_string s)
let items s = if s = "-" then [] else String.split_on_char ';' s
let parse_l s =
  match String.split_on_char ':' s with
  | ["N"] -> LNone | ["A"] -> LAuto
  | ["X"; ip; port] -> LAddr (bytes_of_hex ip, num port)
  | _ -> failwith ("bad listen " ^ s)
let parse_ns s =
  match String.split_on_char ',' s with
  | [f; ip] -> (fam_of f, bytes_of_hex ip) | _ -> failwith ("bad ns " ^ s)
let parse_sn s =
  match String.split_on_char ',' s with
  | [f; ip; w; fp; lp] ->
      { sn_fam = fam_of f; sn_ip = bytes_of_hex ip; sn_width = num w; sn_fport = num fp; sn_lport = num lp }
  | _ -> failwith ("bad subnet " ^ s)
let parse_id s =
  if s = "-" then IdNone else if s = "M" then IdMissing
  else if s.[0] = 'E' then IdExists (num (String.sub s 1 (String.length s - 1)))
  else failwith ("bad id " ^ s)
let parse_tons s =
  if s = "-" then None else
  match String.split_on_char ',' s with
  | [ip; port] -> Some (bytes_of_hex ip, num port) | _ -> failwith ("bad to-ns " ^ s)
let parse_range s =
  match String.split_on_char ':' s with
  | [pf; lo; hi] when String.length pf = 2 ->
      (((((match pf.[0] with 't' -> TCP | 'u' -> UDP | _ -> failwith "bad proto"),
          fam_of (String.make 1 pf.[1])), num lo), num hi))
  | _ -> failwith ("bad range " ^ s)
let parse_feat s =
  { f_loopback = b s.[0]; f_ipv4 = b s.[1]; f_ipv6 = b s.[2]; f_udp = b s.[3]; f_dns = b s.[4];
    f_user = b s.[5]; f_group = b s.[6] }
let feat_str f =
  let c x = if x then "1" else "0" in
  c f.f_loopback ^ c f.f_ipv4 ^ c f.f_ipv6 ^ c f.f_udp ^ c f.f_dns ^ c f.f_user ^ c f.f_group
let parse_fixes s =
  { fx_F1 = b s.[0]; fx_F2 = b s.[1]; fx_F14 = b s.[2]; fx_F15 = b s.[3]; fx_F21 = b s.[4]; fx_F131 = b s.[5] }
let is_refusal s = String.length s > 0 && s.[0] = 'r'
let parse_refusal s =
  match String.split_on_char ':' s with
  | [pf; errno; ip; lo; hi] when String.length pf = 3 ->
      ((((((match pf.[1] with 't' -> TCP | 'u' -> UDP | _ -> failwith "bad proto"),
           fam_of (String.make 1 pf.[2])),
          (if ip = "*" then None else Some (bytes_of_hex ip))), num lo), num hi), num errno)
  | _ -> failwith ("bad refusal " ^ s)

let ni n = string_of_int (int_of_n n)
let sn_str s = Printf.sprintf "%s,%s,%s,%s,%s" (fam_str s.sn_fam) (hex_of_bytes s.sn_ip) (ni s.sn_width) (ni s.sn_fport) (ni s.sn_lport)
let ns_str (f, ip) = fam_str f ^ "," ^ hex_of_bytes ip
let lst f l = match l with [] -> "-" | _ -> String.concat ";" (List.map f l)
let addr_str = function None -> "-" | Some (ip, p) -> hex_of_bytes ip ^ "," ^ ni p
let opt_str = function None -> "-" | Some n -> ni n
let key_str = function KUdp -> "udp" | KDns -> "dns" | KIpv6 -> "ipv6" | KIpv4 -> "ipv4" | KUser -> "user" | KGroup -> "group"
let fatal_str = function
  | FNoRemote -> "no_remote" | FIpv6Unsupported -> "ipv6_unsupported" | FUserMissing -> "user_missing"
  | FGroupMissing -> "group_missing" | FDnsAllV6 -> "dns_all_v6" | FFeature k -> "feature_" ^ key_str k
  | FPortsBusy -> "ports_busy" | FDnsPortsBusy -> "dns_ports_busy"
  | FV6SubnetsNoListen -> "v6_subnets_no_listen" | FV6NsNoListen -> "v6_ns_no_listen"
  | FV4SubnetsNoListen -> "v4_subnets_no_listen" | FV4NsNoListen -> "v4_ns_no_listen"
  | FV6Unavailable -> "v6_unavailable" | FBindRefused -> "bind_refused" | FDnsBindRefused -> "dns_bind_refused"
let exn_str = function AssertionError -> "AssertionError" | UnboundLocalError -> "UnboundLocalError" | TypeError -> "TypeError"
let bs x = if x then "1" else "0"
let plan_str p =
  Printf.sprintf "inc=%s exc=%s ns=%s ports=%s,%s,%s,%s udp=%s user=%s group=%s tons=%s autonets=%s tcp=%s/%s udpl=%s/%s dnsl=%s/%s"
    (lst sn_str p.p_includes) (lst sn_str p.p_excludes) (lst ns_str p.p_nslist)
    (ni p.p_rport6) (ni p.p_rport4) (ni p.p_dport6) (ni p.p_dport4)
    (bs p.p_udp) (opt_str p.p_user) (opt_str p.p_group) (addr_str p.p_to_ns) (bs p.p_auto_nets)
    (addr_str p.p_tcp6) (addr_str p.p_tcp4) (addr_str p.p_udp6) (addr_str p.p_udp4)
    (addr_str p.p_dns6) (addr_str p.p_dns4)
let l_str = function LNone -> "N" | LAuto -> "A" | LAddr (ip, p) -> "X:" ^ hex_of_bytes ip ^ ":" ^ ni p

let handle = function
  | ["RUN"; fx; feat; remote; l6; l4; dns; resolv; nshosts; tons; incl; excl; autonets; user; group; envs] ->
      let c = { c_feat = parse_feat feat; c_remote = b remote.[0]; c_listen6 = parse_l l6; c_listen4 = parse_l l4;
                c_dns = b dns.[0]; c_resolv = List.map parse_ns (items resolv);
                c_ns_hosts = List.map parse_ns (items nshosts); c_to_ns = parse_tons tons;
                c_includes = List.map parse_sn (items incl); c_excludes = List.map parse_sn (items excl);
                c_auto_nets = b autonets.[0]; c_user = parse_id user; c_group = parse_id group } in
      let e = env_of_ranges (List.map parse_range (List.filter (fun x -> not (is_refusal x)) (items envs))) in
      let rf = renv_of_list (List.map parse_refusal (List.filter is_refusal (items envs))) in
      (match startup_gen (parse_fixes fx) c e rf with
       | Fatal m -> "FATAL " ^ fatal_str m
       | OsError n -> "OSERR " ^ ni n
       | Crash x -> "CRASH " ^ exn_str x
       | Plan p -> Printf.sprintf "PLAN %s v6active=%s hasv6=%s" (plan_str p) (bs (ipv6_active c)) (bs (plan_has_v6 p)))
  | ["LISTEN"; dis; its] ->
      let parse_it s = match String.split_on_char ',' s with
        | [f; ip; port] -> ((fam_of f, bytes_of_hex ip), num port) | _ -> failwith ("bad listen item " ^ s) in
      let l = if its = "-" then None else Some (List.map parse_it (items its)) in
      let (l6, l4) = listen_of_options l (b dis.[0]) in
      l_str l6 ^ " " ^ l_str l4
  | ["METHODS"] ->
      String.concat " " (List.map (fun m -> string_of_bytes m ^ ":" ^ bs (accepted_by method_choices_b m)) documented_methods)
  | ["FEATURES"; name] ->
      let nm = bytes_of_hex name in
      (match List.filter (fun (k, _) -> k = nm) method_features with
       | (_, f) :: _ -> feat_str f | [] -> "UNKNOWN")
  | _ -> "ERROR bad command"
let () = main_loop handle
