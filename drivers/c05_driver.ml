(* C05 driver: one case per line; bytes travel as hex ("-" = empty).
   SA4 e a p                         -> hex            (struct sockaddr_in)
   SA6 e a p flow scope              -> hex            (struct sockaddr_in6)
   ODST fam G:hex|E:errno snip snport -> OK texthex port | FATAL | CRASH cls
   CMSG e lvl:typ:hex ...            -> OK NONE | OK texthex port | FATAL | CRASH cls
   KCMSG e hdr al room lvl:typ:hex ... -> <as CMSG> CTRUNC=0|1   (the messages as the kernel has them, stored by put_cmsgs)
   CSPACE hdr al n                   -> CMSG_SPACE(n)
   FMT4|FMT6|FMT6N raw               -> texthex
   P4|P6 text                        -> rawhex | NONE
   INT text                          -> decimal | NONE
   CONN fam ip port                  -> payloadhex
   NEWCH data                        -> OK 4|6 iphex port | CRASH cls
   UDPF ip port payload              -> hex
   UDPREQ data                       -> OK iphex port payloadhex | CRASH cls
   PFREQ fam peerip peerport proxyip proxyport -> linehex
   HELPER fam6 ans stdinhex          -> events joined by ';'   (ans = S:rdaddr4:rdaddr6:port | F:msghex)
   PFREPLY line snip snport          -> OK iphex port | CRASH cls
   PFGET fam6 fam ans P:ip:port|E:errno snip snport -> OK iphex port | FATAL | CRASH cls
   ACC fam ip port lport islocal chan -> DROP | NOCHAN | CONNECT chan payloadhex
   E2ENAT islocal fam G:hex|E:errno snip snport chan -> OK NONE | OK 4|6 iphex port | FATAL | CRASH cls
   E2ETEXT islocal fam ip port lport chan             -> same
   E2EUDP e payload lvl:typ:hex ...                   -> OK NONE | OK iphex port payloadhex | ... *)
let n s = n_of_int (int_of_string s)
let endian = function "LE" -> LE | "BE" -> BE | _ -> failwith "endian"
let exn_str = function
  | StructError -> "StructError" | ValueError -> "ValueError" | UnicodeDecodeError -> "UnicodeDecodeError"
  | TypeError -> "TypeError" | OverflowError -> "OverflowError" | UnboundLocalError -> "UnboundLocalError"
  | OSError e -> Printf.sprintf "OSError:%d" (int_of_n e)
let z_str = function
  | Z0 -> "0" | Zpos p -> string_of_bytes (dec (Npos p)) | Zneg p -> "-" ^ string_of_bytes (dec (Npos p))
let res f = function Ok v -> "OK " ^ f v | Fatal -> "FATAL" | Crash e -> "CRASH " ^ exn_str e
let ipport (ip, p) = Printf.sprintf "%s %d" (hex_of_bytes ip) (int_of_n p)
let ipportz (ip, p) = Printf.sprintf "%s %s" (hex_of_bytes ip) (z_str p)
let gso s =
  match String.split_on_char ':' s with
  | ["G"; h] -> Inl (bytes_of_hex h)
  | ["E"; e] -> Inr (n e)
  | _ -> failwith "gso"
let anc s =
  match String.split_on_char ':' s with
  | [l; t; h] -> ((n l, n t), bytes_of_hex h)
  | _ -> failwith "anc"
let answer s =
  match String.split_on_char ':' s with
  | ["S"; a4; a6; p] -> (fun q -> NatFound ((if q.q_af = z_of_int 2 then bytes_of_hex a4 else bytes_of_hex a6), n p))
  | ["F"; m] -> (fun _ -> NatError (bytes_of_hex m))
  | _ -> failwith "answer"
let fam_str = function FamV4 -> "4" | FamV6 -> "6"
let conn ((f, ip), p) = Printf.sprintf "%s %s %s" (fam_str f) (hex_of_bytes ip) (z_str p)
let optres f = function None -> "NONE" | Some v -> f v
let query_str q =
  Printf.sprintf "%s,%s,%s,%s,%s,%s" (z_str q.q_af) (z_str q.q_proto) (hex_of_bytes q.q_saddr)
    (z_str q.q_sport) (hex_of_bytes q.q_daddr) (z_str q.q_dport)
let hout = function
  | HReply (q, line) -> Printf.sprintf "R:%s:%s" (match q with None -> "-" | Some q -> query_str q) (hex_of_bytes line)
  | HNotCommand -> "NOTCMD"
  | HCrash e -> "CRASH:" ^ exn_str e
let rec helper_loop fam6 k stdin acc fuel =
  if fuel = 0 then List.rev ("FUEL" :: acc) else
  match helper_step fam6 readline_limit_code k stdin with
  | TEof -> List.rev ("EOF" :: acc)
  | TOut (o, rest) ->
    (match o with
     | HReply _ -> helper_loop fam6 k rest (hout o :: acc) (fuel - 1)
     | _ -> List.rev (hout o :: acc))
let handle = function
  | ["SA4"; e; a; p] -> hex_of_bytes (sockaddr_in (endian e) (bytes_of_hex a) (n p))
  | ["SA6"; e; a; p; fl; sc] ->
      hex_of_bytes (sockaddr_in6 (endian e) (bytes_of_hex a) (n p) (bytes_of_hex fl) (bytes_of_hex sc))
  | ["ODST"; fam; g; snip; snport] ->
      res ipport (original_dst (n fam) (gso g) (bytes_of_hex snip, n snport))
  | "CMSG" :: e :: ancs ->
      res (optres ipport) (recv_udp_dst (endian e) (List.map anc ancs))
  | "KCMSG" :: e :: hdr :: al :: room :: ancs ->
      (* what tproxy.recv_udp returns on a kernel-like socket: put_cmsgs into `room` bytes, then the decoder *)
      let (r, ct) = recv_udp_kernel (endian e) (n hdr) (n al) (n room) (List.map anc ancs) in
      Printf.sprintf "%s CTRUNC=%d" (res (optres ipport) r) (if ct then 1 else 0)
  | ["CSPACE"; hdr; al; k] -> string_of_int (int_of_n (cmsg_space (n hdr) (n al) (n k)))
  | ["FMT4"; a] -> hex_of_bytes (fmt4 (bytes_of_hex a))
  | ["FMT6"; a] -> hex_of_bytes (fmt6 (bytes_of_hex a))
  | ["FMT6N"; a] -> hex_of_bytes (fmt6_ntop (bytes_of_hex a))
  | ["P4"; t] -> (match parse4 (bytes_of_hex t) with Some r -> hex_of_bytes r | None -> "NONE")
  | ["P6"; t] -> (match parse6 (bytes_of_hex t) with Some r -> hex_of_bytes r | None -> "NONE")
  | ["INT"; t] -> (match py_int (bytes_of_hex t) with Some z -> z_str z | None -> "NONE")
  | ["CONN"; fam; ip; p] -> hex_of_bytes (connect_payload (n fam) (bytes_of_hex ip) (n p))
  | ["NEWCH"; d] -> res conn (new_channel (bytes_of_hex d))
  | ["UDPF"; ip; p; pl] -> hex_of_bytes (udp_frame (bytes_of_hex ip) (n p) (bytes_of_hex pl))
  | ["UDPREQ"; d] ->
      res (fun ((ip, p), pl) -> Printf.sprintf "%s %s %s" (hex_of_bytes ip) (z_str p) (hex_of_bytes pl))
        (udp_req (bytes_of_hex d))
  | ["PFREQ"; fam; pip; pp; xip; xp] ->
      hex_of_bytes (pf_request (n fam) (bytes_of_hex pip, n pp) (bytes_of_hex xip, n xp))
  | ["HELPER"; fam6; ans; stdin] ->
      String.concat ";" (helper_loop (n fam6) (answer ans) (bytes_of_hex stdin) [] 64)
  | ["PFREPLY"; line; snip; snport] ->
      res ipportz (pf_reply_decode (bytes_of_hex line) (bytes_of_hex snip, n snport))
  | ["PFGET"; fam6; fam; ans; peer; snip; snport] ->
      let pr = (match String.split_on_char ':' peer with
                | ["P"; ip; p] -> Inl (bytes_of_hex ip, n p)
                | ["E"; e] -> Inr (n e)
                | _ -> failwith "peer") in
      res ipportz (pf_get_tcp_dstip (n fam6) (n fam) readline_limit_code (answer ans) pr (bytes_of_hex snip, n snport))
  | ["ACC"; fam; ip; p; lport; isl; chan] ->
      let c = if chan = "-" then None else Some (n chan) in
      (match onaccept_tcp (fun _ -> isl = "1") (n fam) (bytes_of_hex ip, n p) (n lport) c with
       | AccDropSelf -> "DROP" | AccNoChannel -> "NOCHAN"
       | AccConnect (c, pl) -> Printf.sprintf "CONNECT %d %s" (int_of_n c) (hex_of_bytes pl))
  | ["E2ENAT"; isl; fam; g; snip; snport; chan] ->
      res (optres conn) (e2e_nat (fun _ -> isl = "1") (n fam) (gso g) (bytes_of_hex snip, n snport) (n chan))
  | ["E2ETEXT"; isl; fam; ip; p; lport; chan] ->
      res (optres conn) (e2e_text (fun _ -> isl = "1") (n fam) (bytes_of_hex ip, n p) (n lport) (n chan))
  | "E2EUDP" :: e :: pl :: ancs ->
      res (optres (fun ((ip, p), d) -> Printf.sprintf "%s %s %s" (hex_of_bytes ip) (z_str p) (hex_of_bytes d)))
        (e2e_udp (endian e) (List.map anc ancs) (bytes_of_hex pl))
  | _ -> "ERROR bad command"
let () = main_loop handle
