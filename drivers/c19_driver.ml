(* C19 driver: one case per line.  Byte strings travel as hex ("-" = empty);
   str values (code points) travel as UTF-32-BE hex.
   Tables: three code-point lists W S D = the non-ASCII code points of the case that
   CPython classifies as \w / isspace() / \d.
   FH W S D n1 i1 n2 i2 ...   -> OK <out-text u32hex> | FUEL
   RHC W S D content          -> OK|CRASH|FUEL <out-text>      (RHC0 = as found)
   CEH W S D content          -> OK|FUEL <out-text>
   ISIP W S D s               -> 0/1
   UTF8 s                     -> hex
   HW chunk ...               -> OK|DIED|ASSERT p1;p2;... | leftover
   REC hex                    -> r1;r2;... | tail
   OHL payload / OHL0 payload -> OK|AssertionError|ValueError l1;l2;...     (repaired / as found)
   VALID name ip              -> 0/1 0/1
   HLP rawline                -> SET name ip | RETURN | FATAL | CRASH cls
   RDL lim stdin              -> piece1;piece2;...      the successive results of stdin.readline(lim) (lim: "-" = no limit, or a number)
   PIPE v lim marker p1 p2 ... -> clientoutcome helperoutcome | hostsline1;hostsline2;...
                                 (v = 1 repaired client, 0 as found; lim = the helper's readline limit: "-" or a number) *)
let lim_of s = if s = "-" then None else Some (n_of_int (int_of_string s))
let rec group4 = function
  | a :: b :: c :: d :: tl ->
      n_of_int ((int_of_ascii a lsl 24) lor (int_of_ascii b lsl 16) lor (int_of_ascii c lsl 8) lor int_of_ascii d) :: group4 tl
  | [] -> []
  | _ -> failwith "bad u32"
let ustr_of_hex h = group4 (bytes_of_hex h)
let hex_of_ustr (s : n list) =
  match s with [] -> "-" | _ ->
  let b = Buffer.create 64 in
  List.iter (fun c -> Buffer.add_string b (Printf.sprintf "%08x" (int_of_n c))) s;
  Buffer.contents b
let tables w s d =
  let mk h = let l = List.map int_of_n (ustr_of_hex h) in fun c -> List.mem (int_of_n c) l in
  { u_word = mk w; u_space = mk s; u_digit = mk d }
let rec pairs = function
  | a :: b :: tl -> (ustr_of_hex a, ustr_of_hex b) :: pairs tl
  | [] -> []
  | _ -> failwith "odd number of name/ip arguments"
let semi l = match l with [] -> "" | _ -> String.concat ";" (List.map hex_of_bytes l)
let cls_str = function AssertionError -> "AssertionError" | ValueError -> "ValueError"
  | UnicodeDecodeError -> "UnicodeDecodeError"
let out_str = function COk -> "OK" | CCrash c -> cls_str c
let hres_str = function
  | HSet (n, i) -> Printf.sprintf "SET %s %s" (hex_of_bytes n) (hex_of_bytes i)
  | HReturn -> "RETURN" | HFatal -> "FATAL" | HCrash c -> "CRASH " ^ cls_str c
let b01 b = if b then "1" else "0"
let handle = function
  | "FH" :: w :: s :: d :: calls ->
      (match found_hosts (tables w s d) [] (pairs calls) with
       | FhOk (_, out) -> "OK " ^ hex_of_ustr (out_text out)
       | FhFuel -> "FUEL")
  | [("RHC" | "RHC0") as v; w; s; d; content] ->
      (match (if v = "RHC" then read_host_cache else read_host_cache_asfound) (tables w s d) [] (ustr_of_hex content) with
       | ScanOk (_, out) -> "OK " ^ hex_of_ustr (out_text out)
       | ScanCrash out -> "CRASH " ^ hex_of_ustr (out_text out)
       | ScanFuel -> "FUEL")
  | ["CEH"; w; s; d; content] ->
      (match check_etc_hosts (tables w s d) [] (ustr_of_hex content) with
       | ScanOk (_, out) -> "OK " ^ hex_of_ustr (out_text out)
       | ScanCrash out -> "CRASH " ^ hex_of_ustr (out_text out)
       | ScanFuel -> "FUEL")
  | ["ISIP"; w; s; d; x] -> b01 (is_ip (tables w s d) (ustr_of_hex x))
  | ["UTF8"; x] -> hex_of_bytes (utf8 (ustr_of_hex x))
  | "HW" :: chunks ->
      let ((ps, lo), st) = hw_run [] (List.map bytes_of_hex chunks) in
      Printf.sprintf "%s %s | %s" (match st with RunOk -> "OK" | RunDied -> "DIED" | RunAssert -> "ASSERT")
        (semi ps) (hex_of_bytes lo)
  | ["REC"; x] -> let b = bytes_of_hex x in Printf.sprintf "%s | %s" (semi (records b)) (hex_of_bytes (tail_of b))
  | ["OHL"; p] -> let (ls, o) = onhostlist (bytes_of_hex p) in Printf.sprintf "%s %s" (out_str o) (semi ls)
  | ["OHL0"; p] -> let (ls, o) = onhostlist_asfound (bytes_of_hex p) in Printf.sprintf "%s %s" (out_str o) (semi ls)
  | ["VALID"; n; i] -> b01 (valid_name (bytes_of_hex n)) ^ " " ^ b01 (valid_ip (bytes_of_hex i))
  | ["HLP"; raw] -> hres_str (helper_line (bytes_of_hex raw))
  | ["RDL"; lim; x] -> semi (helper_stdin (lim_of lim) [bytes_of_hex x])
  | "PIPE" :: v :: lim :: marker :: payloads ->
      let onhl = if v = "1" then onhostlist else onhostlist_asfound in
      let (ls, o) = client_run onhl (List.map bytes_of_hex payloads) in
      let (hm, stop) = helper_run (lim_of lim) [] ls in
      Printf.sprintf "%s %s | %s" (out_str o)
        (match stop with None -> "RUNNING" | Some r -> hres_str r)
        (semi (hosts_lines (bytes_of_hex marker) hm))
  | _ -> "ERROR bad command"
let () = main_loop handle
