(* C12 driver: one environment script per line, the model's event trace back.
   RUN daemon auto_nets connect chunks hs_end poll0 daemonize start ready close wait stop cleanup iters
     daemon, auto_nets : 0 | 1
     connect, hs_end, daemonize, ready, close, stop, cleanup : <exn> | -
     chunks  : hex,hex,... | -
     poll0   : <int> | -
     start   : W:<exn> | R:<exn> | P:<0|1>:<int|->
     wait    : V:<int> | X:<exn>
     iters   : iter;iter;... | -        iter = <int|->/act,act,...
     act     : R0 | R1 | H<n>:<n|c|a> | X:<exn>
     exn     : Fatal.<Reason> | OSError.<errno> | KeyboardInterrupt | SystemExit | AssertionError
               | Exception | MemoryError | ValueError | Stop
   -> space separated events, e.g. MainEnter Upload SyncOk ... MainEnd(Stop) FwClose NotifyStop Exit(Stop)
   SYNC <same fields>  -> sync_ok done_ok as 0/1 0/1 *)
let reason_of = function
  | "Connect" -> FConnect | "Reset" -> FReset | "ServerDied" -> FServerDied | "BadSync" -> FBadSync
  | "Pidfile" -> FPidfile | "SshExited" -> FSshExited | "HelperDied" -> FHelperDied
  | "NotStarted" -> FNotStarted | "Cleanup" -> FCleanup | "Injected" -> FInjected
  | s -> failwith ("bad reason " ^ s)
let reason_str = function
  | FConnect -> "Connect" | FReset -> "Reset" | FServerDied -> "ServerDied" | FBadSync -> "BadSync"
  | FPidfile -> "Pidfile" | FSshExited -> "SshExited" | FHelperDied -> "HelperDied"
  | FNotStarted -> "NotStarted" | FCleanup -> "Cleanup" | FInjected -> "Injected"
let exn_of s =
  match String.split_on_char '.' s with
  | ["Fatal"; r] -> EFatal (reason_of r)
  | ["OSError"; n] -> EOSError (n_of_int (int_of_string n))
  | ["KeyboardInterrupt"] -> EOther CKeyboardInterrupt
  | ["SystemExit"] -> EOther CSystemExit
  | ["AssertionError"] -> EOther CAssertionError
  | ["Exception"] -> EOther CException
  | ["MemoryError"] -> EOther CMemoryError
  | ["ValueError"] -> EOther CValueError
  | ["Stop"] -> EStop
  | _ -> failwith ("bad exn " ^ s)
let exn_str = function
  | EFatal r -> "Fatal." ^ reason_str r
  | EOSError n -> Printf.sprintf "OSError.%d" (int_of_n n)
  | EOther CKeyboardInterrupt -> "KeyboardInterrupt"
  | EOther CSystemExit -> "SystemExit"
  | EOther CAssertionError -> "AssertionError"
  | EOther CException -> "Exception"
  | EOther CMemoryError -> "MemoryError"
  | EOther CValueError -> "ValueError"
  | EStop -> "Stop"
let opt f s = if s = "-" then None else Some (f s)
let zint s = z_of_int (int_of_string s)
let event_str = function
  | MainEnter -> "MainEnter" | Upload -> "Upload" | SyncOk -> "SyncOk" | Daemonize -> "Daemonize"
  | Routes -> "Routes" | HostList -> "HostList" | FwStart -> "FwStart" | FwStarted -> "FwStarted"
  | FwHost -> "FwHost" | NotifyReady -> "NotifyReady" | MainEnd e -> "MainEnd(" ^ exn_str e ^ ")"
  | FwClose -> "FwClose" | NotifyStop -> "NotifyStop" | DaemonCleanup -> "DaemonCleanup"
  | Exit e -> "Exit(" ^ exn_str e ^ ")"
let parse_act s =
  match String.split_on_char ':' s with
  | ["R0"] -> ARoutes false
  | ["R1"] -> ARoutes true
  | ["X"; e] -> ARaise (exn_of e)
  | [h; b] when String.length h > 1 && h.[0] = 'H' ->
      let n = int_of_string (String.sub h 1 (String.length h - 1)) in
      AHostList (nat_of_int n, (match b with "n" -> HlNone | "c" -> HlNoComma | "a" -> HlBadName
                                           | _ -> failwith "bad hl"))
  | _ -> failwith ("bad act " ^ s)
let parse_iter s =
  match String.split_on_char '/' s with
  | [d; acts] ->
      { it_dead = opt zint d;
        it_acts = List.map parse_act (List.filter (fun x -> x <> "") (String.split_on_char ',' acts)) }
  | _ -> failwith ("bad iter " ^ s)
let parse_start s =
  match String.split_on_char ':' s with
  | ["W"; e] -> StWriteExn (exn_of e)
  | ["R"; e] -> StReadExn (exn_of e)
  | ["P"; st; rv] -> StReply (st = "1", opt zint rv)
  | _ -> failwith ("bad start " ^ s)
let parse_wait s =
  match String.split_on_char ':' s with
  | ["V"; n] -> WaitRv (zint n)
  | ["X"; e] -> WaitExn (exn_of e)
  | _ -> failwith ("bad wait " ^ s)
let parse_script = function
  | [d; an; conn; chunks; hsend; poll0; dz; st; ready; close; wait; stop; cleanup; iters] ->
      { s_daemon = (d = "1"); s_auto_nets = (an = "1");
        s_connect = opt exn_of conn;
        s_chunks = (if chunks = "-" then [] else List.map bytes_of_hex (String.split_on_char ',' chunks));
        s_hs_end = opt exn_of hsend;
        s_poll0 = opt zint poll0;
        s_daemonize = opt exn_of dz;
        s_iters = (if iters = "-" then [] else List.map parse_iter (String.split_on_char ';' iters));
        s_start = parse_start st;
        s_ready = opt exn_of ready;
        s_close = opt exn_of close;
        s_wait = parse_wait wait;
        s_stop = opt exn_of stop;
        s_cleanup = opt exn_of cleanup }
  | _ -> failwith "bad script: 14 fields expected"
let handle = function
  | "RUN" :: fields -> String.concat " " (List.map event_str (run (parse_script fields)))
  | "SYNC" :: fields ->
      let s = parse_script fields in
      Printf.sprintf "%d %d" (if sync_ok s then 1 else 0) (if done_ok s then 1 else 0)
  | ["INIT"; admin; doas; sudo; obsd; cands] ->
      (* cands: spawn:rv:linehex,linehex,... ; ... in the order tried ("-" = none); rv "-" = still running *)
      let parse_cand c =
        match String.split_on_char ':' c with
        | [sp; rv; lines] ->
            { c_spawn = (sp = "1"); c_rv = opt zint rv;
              c_lines = (if lines = "_" then [] else List.map bytes_of_hex (String.split_on_char ',' lines)) }
        | _ -> failwith ("bad candidate " ^ c) in
      let cs = if cands = "-" then [] else List.map parse_cand (String.split_on_char ';' cands) in
      let order = try_order (admin = "1") (doas = "1") (sudo = "1") (obsd = "1") in
      let ostr = String.concat "," (List.map (function PSudo -> "sudo" | PDoas -> "doas" | PDirect -> "direct") order) in
      (match fw_init cs with
       | Some (k, m) -> Printf.sprintf "ORDER %s CHOSEN %d %s" ostr (int_of_nat k) (hex_of_bytes m)
       | None -> Printf.sprintf "ORDER %s NONE" ostr)
  | _ -> "ERROR bad command"
let () = main_loop handle
