(* C14 driver: one case per line.  Tokens are space separated; bytes are hex, "-" = empty.
   FS description (shared by all commands):
     <hosts> <uid> <gid> <mode> <bak> <lnk>
       hosts = hex | MISSING ; bak = hex | MISSING (pre-existing backup, ino 0) ; lnk = 0/1
   hm = e,e,... with e = namehex:iphex   ("." = empty map)
   RW  port hm FS              -> pc | trace | fs
   CR  k port hm FS            -> pc | trace | fs         (stop after k primitives)
   RS  port hm FS              -> trace | fs               (restore_etc_hosts)
   HI  FS hop ...              -> hostshex after every hop, ';' separated   (hop = H:port:name:ip | E:port)
   SC  bits pa hma pb hmb FS   -> pcA pcB | trace | fs
   ST  FS op ...               -> hostshex after every op, ';' separated | fs
       op = T/port/datahex/uid/gid/mode   a temporary of that port exists already (fresh inode): left behind by anybody
          | A/datahex                     the administrator replaces the hosts file (new inode, same owner/mode)
          | C/k/port/hm                   a call of rewrite_etc_hosts that stops after k primitives (crash)
          | R/port/hm                     a complete rewrite_etc_hosts
          | S/port/hm                     restore_etc_hosts(hm, port)
   NEW port hm oldhex          -> new content hex (new_content on univ_nl old)
   MK  port                    -> marker hex
   U8  hex                     -> 1 | 0   (utf8_ok: does the text-mode read decode these bytes?)
   RWD port hm FS              -> pc | trace | fs         (rewrite_dec: rewrite_etc_hosts on a hosts file of arbitrary bytes)
   RSD port hm FS              -> raised(0/1) | trace | fs (restore_dec)
   HM  upd                     -> the helper's map after the HOST updates upd (hm syntax, arrival order): entries in
                                  dict order "namehex:iphex,..." ("." = empty) | for every updated name, in order of first
                                  appearance, "namehex:iphex" with the address of its LAST update (last_addr) *)
let pc_str = function
  | AtRead -> "read" | AtStat -> "stat" | AtExists -> "exists" | AtLink -> "link" | AtCopy -> "copy"
  | AtOpen -> "open" | AtWrite l -> Printf.sprintf "write%d" (List.length l)
  | AtChown -> "chown" | AtChmod -> "chmod" | AtRename -> "rename" | AtDone -> "done" | AtCrash -> "crash"
let b01 b = if b then "1" else "0"
let prim_str = function
  | OpRead f -> "read:" ^ b01 f | OpStat f -> "stat:" ^ b01 f | OpExists r -> "exists:" ^ b01 r
  | OpLink ok -> "link:" ^ b01 ok | OpCopy ok -> "copy:" ^ b01 ok
  | OpOpenTmp p -> Printf.sprintf "open:%d" (int_of_n p)
  | OpWrite (p, d) -> Printf.sprintf "write:%d:%s" (int_of_n p) (hex_of_bytes d)
  | OpClose p -> Printf.sprintf "close:%d" (int_of_n p)
  | OpChown (p, u, g) -> Printf.sprintf "chown:%d:%d:%d" (int_of_n p) (int_of_n u) (int_of_n g)
  | OpChmod (p, m) -> Printf.sprintf "chmod:%d:%d" (int_of_n p) (int_of_n m)
  | OpRename p -> Printf.sprintf "rename:%d" (int_of_n p)
let path_str = function PHosts -> "hosts" | PBak -> "bak" | PTmp p -> Printf.sprintf "tmp%d" (int_of_n p)
let fs_str s =
  let one (p, f) = Printf.sprintf "%s=%s,%d,%d,%d,%d" (path_str p) (hex_of_bytes f.f_data)
      (int_of_n f.f_uid) (int_of_n f.f_gid) (int_of_n f.f_mode) (int_of_n f.f_ino) in
  String.concat " " (List.sort compare (List.map one s.files))
let parse_hm s =
  if s = "." then [] else
  List.map (fun e -> match String.split_on_char ':' e with
      | [n; i] -> (bytes_of_hex n, bytes_of_hex i) | _ -> failwith "bad entry")
    (String.split_on_char ',' s)
let parse_fs = function
  | [h; uid; gid; mode; bak; lnk] ->
      let ni x = n_of_int (int_of_string x) in
      let s = fs_init (if h = "MISSING" then None else Some (bytes_of_hex h)) (ni uid) (ni gid) (ni mode) (lnk = "1") in
      if bak = "MISSING" then s
      else fs_set PBak { f_data = bytes_of_hex bak; f_uid = N0; f_gid = N0; f_mode = n_of_int 420; f_ino = N0 } s
  | _ -> failwith "bad fs"
let rec take n l = if n = 0 then [] else match l with [] -> [] | x :: r -> x :: take (n - 1) r
let rec drop n l = if n = 0 then l else match l with [] -> [] | _ :: r -> drop (n - 1) r
let trace_str tr = String.concat "," (List.map prim_str tr)
let parse_hop h = match String.split_on_char ':' h with
  | ["H"; p; n; i] -> HHost (n_of_int (int_of_string p), bytes_of_hex n, bytes_of_hex i)
  | ["E"; p] -> HEnd (n_of_int (int_of_string p))
  | _ -> failwith "bad hop"
let hosts_hex s = match fs_get PHosts s with Some f -> hex_of_bytes f.f_data | None -> "MISSING"
let handle = function
  | "RW" :: port :: hm :: fs ->
      let ((i, s), tr) = rewrite_fs (n_of_int (int_of_string port)) (parse_hm hm) (parse_fs fs) in
      Printf.sprintf "%s | %s | %s" (pc_str i.i_pc) (trace_str tr) (fs_str s)
  | "CR" :: k :: port :: hm :: fs ->
      let ((i, s), tr) = run_k (nat_of_int (int_of_string k)) (start (n_of_int (int_of_string port)) (parse_hm hm)) (parse_fs fs) in
      Printf.sprintf "%s | %s | %s" (pc_str i.i_pc) (trace_str tr) (fs_str s)
  | "RS" :: port :: hm :: fs ->
      let (s, tr) = restore_fs (n_of_int (int_of_string port)) (parse_hm hm) (parse_fs fs) in
      Printf.sprintf "%s | %s" (trace_str tr) (fs_str s)
  | "HI" :: rest ->
      let fs = parse_fs (take 6 rest) in
      let hops = List.map parse_hop (drop 6 rest) in
      let (_, outs) = List.fold_left (fun (st, acc) h -> let st' = hop_step st h in (st', hosts_hex (fst st') :: acc))
          ((fs, []), []) hops in
      String.concat ";" (List.rev outs)
  | "SC" :: bits :: pa :: hma :: pb :: hmb :: fs ->
      let sched = List.init (String.length bits) (fun k -> bits.[k] = '1') in
      let (((a, b), s), tr) = run_sched sched (start (n_of_int (int_of_string pa)) (parse_hm hma))
          (start (n_of_int (int_of_string pb)) (parse_hm hmb)) (parse_fs fs) in
      Printf.sprintf "%s %s | %s | %s" (pc_str a.i_pc) (pc_str b.i_pc)
        (String.concat "," (List.map (fun (w, p) -> (if w then "B." else "A.") ^ prim_str p) tr)) (fs_str s)
  | "ST" :: rest ->
      let fs = parse_fs (take 6 rest) in
      let ni x = n_of_int (int_of_string x) in
      let op s o = match String.split_on_char '/' o with
        | ["T"; p; d; uid; gid; mode] ->
            let (n, s') = fs_fresh s in
            fs_set (PTmp (ni p)) { f_data = bytes_of_hex d; f_uid = ni uid; f_gid = ni gid; f_mode = ni mode; f_ino = n } s'
        | ["A"; d] ->
            let (n, s') = fs_fresh s in
            let (u, g, m) = (match fs_get PHosts s with Some f -> (f.f_uid, f.f_gid, f.f_mode) | None -> (N0, N0, n_of_int 420)) in
            fs_set PHosts { f_data = bytes_of_hex d; f_uid = u; f_gid = g; f_mode = m; f_ino = n } s'
        | ["C"; k; p; hm] -> let ((_, s'), _) = run_k (nat_of_int (int_of_string k)) (start (ni p) (parse_hm hm)) s in s'
        | ["R"; p; hm] -> let ((_, s'), _) = rewrite_fs (ni p) (parse_hm hm) s in s'
        | ["S"; p; hm] -> fst (restore_fs (ni p) (parse_hm hm) s)
        | _ -> failwith "bad op" in
      let (s, outs) = List.fold_left (fun (s, acc) o -> let s' = op s o in (s', hosts_hex s' :: acc)) (fs, []) (drop 6 rest) in
      Printf.sprintf "%s | %s" (String.concat ";" (List.rev outs)) (fs_str s)
  | ["NEW"; port; hm; old] ->
      hex_of_bytes (new_content (n_of_int (int_of_string port)) (univ_nl (bytes_of_hex old)) (parse_hm hm))
  | ["U8"; d] -> b01 (utf8_ok (bytes_of_hex d))
  | "RWD" :: port :: hm :: fs ->
      let ((i, s), tr) = rewrite_dec (n_of_int (int_of_string port)) (parse_hm hm) (parse_fs fs) in
      Printf.sprintf "%s | %s | %s" (pc_str i.i_pc) (trace_str tr) (fs_str s)
  | "RSD" :: port :: hm :: fs ->
      let ((s, tr), raised) = restore_dec (n_of_int (int_of_string port)) (parse_hm hm) (parse_fs fs) in
      Printf.sprintf "%s | %s | %s" (b01 raised) (trace_str tr) (fs_str s)
  | ["HM"; upd] ->
      let u = parse_hm upd in
      let ent (n, i) = hex_of_bytes n ^ ":" ^ hex_of_bytes i in
      let show l = if l = [] then "." else String.concat "," (List.map ent l) in
      let rec firsts seen = function
        | [] -> []
        | (n, _) :: r -> if List.mem n seen then firsts seen r else n :: firsts (n :: seen) r in
      let la = List.map (fun n -> match last_addr n u with Some i -> (n, i) | None -> (n, [])) (firsts [] u) in
      Printf.sprintf "%s | %s" (show (hm_after u)) (show la)
  | ["MK"; port] -> hex_of_bytes (marker (n_of_int (int_of_string port)))
  | _ -> "ERROR bad command"
let () = main_loop handle
