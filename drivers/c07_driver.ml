(* C07 driver: one case per line.
   ENC ch cmd hex            -> OK hex | ASSERTLEN | STRUCT
   DEC hex                   -> status frames... | resthex
   RX hexchunk ...           -> status frames... | inbufhex want
   TX op ...  (S:ch:cmd:hex | F:k | F:-)  -> outbuf(hex,...) | wirehex | nsent
   HS hexchunk ...           -> 0/1 resthex        (repaired client)
   HS1 hexchunk ...          -> 0/1 resthex        (single read(12))
   HSSPEC hex                -> 0/1 resthex
   SSTART k ...              -> writtenhex lefthex  (server_sync through BufferedWriter.flush under raw writes taking k bytes) *)
let st_str = function RxOk -> "OK" | RxAssert -> "ASSERT" | RxFuel -> "FUEL"
let frame_str f = Printf.sprintf "%d,%d,%s" (int_of_n f.f_ch) (int_of_n f.f_cmd) (hex_of_bytes f.f_data)
let frames_str fs = String.concat ";" (List.map frame_str fs)
let parse_op s =
  match String.split_on_char ':' s with
  | ["S"; ch; cmd; hx] ->
      TxSend { f_ch = n_of_int (int_of_string ch); f_cmd = n_of_int (int_of_string cmd); f_data = bytes_of_hex hx }
  | ["F"; "-"] -> TxFlush None
  | ["F"; k] -> TxFlush (Some (n_of_int (int_of_string k)))
  | _ -> failwith ("bad op " ^ s)
let handle = function
  | ["ENC"; ch; cmd; hx] ->
      (match encode { f_ch = n_of_int (int_of_string ch); f_cmd = n_of_int (int_of_string cmd); f_data = bytes_of_hex hx } with
       | EncOk b -> "OK " ^ hex_of_bytes b | EncAssertLen -> "ASSERTLEN" | EncStructError -> "STRUCT")
  | ["DEC"; hx] ->
      let ((fs, r), st) = decode (bytes_of_hex hx) in
      Printf.sprintf "%s %s | %s" (st_str st) (frames_str fs) (hex_of_bytes r)
  | "RX" :: chunks ->
      let ((fs, (inbuf, want)), st) = rx_feed_all ([], N0) (List.map bytes_of_hex chunks) in
      Printf.sprintf "%s %s | %s %d" (st_str st) (frames_str fs) (hex_of_bytes inbuf) (int_of_n want)
  | "TX" :: ops ->
      let ((out, wire), sent) = tx_run (List.map parse_op ops) in
      Printf.sprintf "%s | %s | %d" (String.concat "," (List.map hex_of_bytes out)) (hex_of_bytes wire) (List.length sent)
  | "HS" :: chunks ->
      let (ok, rest) = hs_run client_sync (List.map bytes_of_hex chunks) in
      Printf.sprintf "%d %s" (if ok then 1 else 0) (hex_of_bytes (List.concat rest))
  | "HS1" :: chunks ->
      let (ok, rest) = hs_run_single_read client_sync (List.map bytes_of_hex chunks) in
      Printf.sprintf "%d %s" (if ok then 1 else 0) (hex_of_bytes (List.concat rest))
  | ["HSSPEC"; hx] ->
      let (ok, rest) = hs_spec client_sync (bytes_of_hex hx) in
      Printf.sprintf "%d %s" (if ok then 1 else 0) (hex_of_bytes rest)
  | "SSTART" :: ks ->
      let (w, l) = flush_all (List.map (fun k -> n_of_int (int_of_string k)) ks) server_sync in
      Printf.sprintf "%s %s" (hex_of_bytes w) (hex_of_bytes l)
  | _ -> "ERROR bad command"
let () = main_loop handle
