(* C03 driver: one request per line, one answer per line.
   plan tokens : P:port6:port4:dns6:dns4:udp:user|-:group|-:tmarktxthex:tmarkvalhex
                 E:fam:width:excl:txthex:nethex:fport:lport    S:fam:txthex:addrhex
   packet token: K:fam:dsthex:tcp|udp:dport:local:L|F:uid:gid:sock:srclo
   GEN nat|tproxy|nft <4|6> <plan..>       -> cmd;cmd;..  (cmd = hextoken,hextoken,..) | EMPTY
   GEN pff|pfo <4|6> <plan..>              -> hex of the rule text | CRASH | EMPTY
   SORT desc|asc <plan..>                  -> indices-free: fam:width:excl:txthex:fport:lport ...
   EVAL <pkt> <plan..>                     -> nat=V nft=V tproxy=V pff=V pfo=V spec=b ns=b ns32=b f18=b own=b wf=b marked=b tdiv=b
   WALKR nat|tproxy <pkt> <tmarkvalhex> <C:table:op:chain:item,item..>...     -> V   (rules parsed from real argv)
   WALKR nft <pkt> - <cmd>... / <cmd>...   (v6 table / v4 table)              -> V
   WALKR pff|pfo <pkt> -|H<enabled><rdr-anchor called><anchor called> <line>...  -> V
   PRINTR nat|tproxy|nft <4|6> <port> <cmd>...   -> as GEN (round trip of the harness' argv parser)
   PRINTR pff|pfo <line>...                      -> hex text *)
let n_of_hex (h : string) : n =
  if h = "-" || h = "" then N0 else begin
    let acc = ref N0 in
    String.iter (fun c ->
      let v = hexval c in
      for k = 3 downto 0 do
        let b = (v lsr k) land 1 = 1 in
        acc := (match !acc, b with
                | N0, false -> N0 | N0, true -> Npos XH
                | Npos p, false -> Npos (XO p) | Npos p, true -> Npos (XI p))
      done) h;
    !acc end
let ni s = n_of_int (int_of_string s)
let fam = function "4" -> V4 | "6" -> V6 | x -> failwith ("fam " ^ x)
let fam_s = function V4 -> "4" | V6 -> "6"
let bool_of s = s = "1"
let b2s b = if b then "1" else "0"
let opt_n s = if s = "-" then None else Some (ni s)
let colon s = String.split_on_char ':' s
let dot s = String.split_on_char '.' s
let comma s = if s = "" then [] else String.split_on_char ',' s

let parse_entry = function
  | [f; w; x; txt; net; fp; lp] ->
      { e_fam = fam f; e_width = ni w; e_excl = bool_of x; e_txt = bytes_of_hex txt;
        e_net = n_of_hex net; e_fport = ni fp; e_lport = ni lp }
  | _ -> failwith "entry"

let parse_plan (toks : string list) : plan =
  let es = ref [] and nss = ref [] and hdr = ref None in
  List.iter (fun t -> match colon t with
    | "E" :: r -> es := parse_entry r :: !es
    | ["S"; f; txt; a] -> nss := { ns_fam = fam f; ns_txt = bytes_of_hex txt; ns_addr = n_of_hex a } :: !nss
    | ["P"; p6; p4; d6; d4; u; us; gr; tt; tv] ->
        hdr := Some (ni p6, ni p4, ni d6, ni d4, bool_of u, opt_n us, opt_n gr, bytes_of_hex tt, n_of_hex tv)
    | _ -> failwith ("plan token " ^ t)) toks;
  match !hdr with
  | None -> failwith "no P token"
  | Some (p6, p4, d6, d4, u, us, gr, tt, tv) ->
      { pl_entries = List.rev !es; pl_ns = List.rev !nss; pl_port6 = p6; pl_port4 = p4;
        pl_dns6 = d6; pl_dns4 = d4; pl_udp = u; pl_user = us; pl_group = gr;
        pl_tmark_txt = tt; pl_tmark = tv }

let parse_pkt t = match colon t with
  | ["K"; f; d; pr; dp; loc; orig; uid; gid; sock; sl] ->
      { p_fam = fam f; p_dst = n_of_hex d; p_proto = (if pr = "tcp" then Tcp else Udp);
        p_dport = ni dp; p_dst_local = bool_of loc;
        p_origin = (if orig = "L" then Local else Forwarded);
        p_uid = ni uid; p_gid = ni gid; p_sock = bool_of sock; p_src_lo = bool_of sl }
  | _ -> failwith "pkt"

let verdict_s = function
  | Untouched -> "untouched" | Divert p -> "divert:" ^ string_of_int (int_of_n p)
  | ToSocket -> "tosocket" | Stray -> "stray" | Stuck -> "stuck"
let vopt_s = function None -> "crash" | Some v -> verdict_s v

let cmds_s (l : ascii list list list) =
  if l = [] then "EMPTY" else
  String.concat ";" (List.map (fun toks -> String.concat "," (List.map hex_of_bytes toks)) l)

(* ---- parsed real rules *)
let table_of = function "nat" -> TNat | "mangle" -> TMangle | x -> failwith ("table " ^ x)
let chain_of = function
  | "OUTPUT" -> OUTPUT | "PREROUTING" -> PREROUTING | "MAIN" -> CMain | "MARK" -> CMark
  | "TPROXY" -> CTproxy | "DIVERT" -> CDivert | x -> failwith ("chain " ^ x)
let pr_of = function "tcp" -> Tcp | "udp" -> Udp | x -> failwith ("proto " ^ x)
let parse_item t = match dot t with
  | ["J"; "RETURN"] -> IJ JReturn | ["J"; "REDIRECT"] -> IJ JRedirect | ["J"; "MARK"] -> IJ JMark
  | ["J"; "TPROXY"] -> IJ JTproxy | ["J"; "ACCEPT"] -> IJ JAccept
  | ["J"; "CHAIN"; c] -> IJ (JChain (chain_of c))
  | ["DESTH"; txt; a] -> IDestHost (bytes_of_hex txt, n_of_hex a)
  | ["DEST"; txt; a; w] -> IDest (bytes_of_hex txt, n_of_hex a, ni w)
  | ["P"; p] -> IProto (pr_of p) | ["MP"; p] -> IMProto (pr_of p)
  | ["DPORT"; f; l] -> IDport (ni f, ni l) | ["DPORT1"; x] -> IDport1 (ni x)
  | ["TOPORTS"; x] -> IToPorts (ni x) | ["ONPORT"; x] -> IOnPort (ni x)
  | ["SETMARK"; txt; v] -> ISetMark (bytes_of_hex txt, n_of_hex v)
  | ["TPMARK"; txt; v] -> ITproxyMark (bytes_of_hex txt, n_of_hex v)
  | ["MADDRTYPE"] -> IMAddrtype | ["DSTLOCAL"] -> IDstLocal | ["MSOCKET"] -> IMSocket
  | ["MMARK"] -> IMMark | ["MARK"; txt; v] -> IMarkEq (bytes_of_hex txt, n_of_hex v)
  | ["MOWNER"] -> IMOwner | ["UID"; u] -> IUid (ni u) | ["GID"; g] -> IGid (ni g)
  | _ -> failwith ("item " ^ t)
let parse_ipt_cmd t = match colon t with
  | ["C"; tb; "N"; c] -> CNew (table_of tb, chain_of c)
  | ["C"; tb; "F"; c] -> CFlush (table_of tb, chain_of c)
  | ["C"; tb; "I"; c; items] -> CIns1 (table_of tb, chain_of c, List.map parse_item (comma items))
  | ["C"; tb; "A"; c; items] -> CApp (table_of tb, chain_of c, List.map parse_item (comma items))
  | _ -> failwith ("ipt cmd " ^ t)
let hook_of = function "pre" -> HPrerouting | "out" -> HOutput | x -> failwith ("hook " ^ x)
let parse_nft_item t = match dot t with
  | ["FAMNE"; f] -> NFamNe (fam f) | ["RET"] -> NRet | ["REDIR"; p] -> NRedirect (ni p)
  | ["DNSD"; f; txt; a] -> NDnsDaddr (fam f, bytes_of_hex txt, n_of_hex a)
  | ["UDP53"] -> NUdp53 | ["FIBLOCAL"] -> NFibLocalRet
  | ["TCPR"; f; a; b] -> NTcpRange (fam f, ni a, ni b)
  | ["TCPP"; f; a] -> NTcpPort (fam f, ni a) | ["TCPA"; f] -> NTcpAny (fam f)
  | ["DADDR"; f; txt; a; w] -> NDaddr (fam f, bytes_of_hex txt, n_of_hex a, ni w)
  | _ -> failwith ("nft item " ^ t)
let parse_nft_cmd t = match colon t with
  | ["NT"] -> NAddTable | ["NH"; h] -> NAddHook (hook_of h) | ["NC"] -> NAddChain | ["NF"] -> NFlushChain
  | ["NJ"; h] -> NAddJump (hook_of h)
  | ["NR"; items] -> NAddRule (List.map parse_nft_item (comma items))
  | _ -> failwith ("nft cmd " ^ t)
let parse_sub t = parse_entry (dot t)
let parse_pf_line t = match colon t with
  | ["TBL"; l] -> PTable (List.map (fun x -> match dot x with
        | [f; txt; a] -> { ns_fam = fam f; ns_txt = bytes_of_hex txt; ns_addr = n_of_hex a }
        | _ -> failwith "tbl") (comma l))
  | ["RDRTCP"; f; e; p] -> PRdrTcp (fam f, parse_sub e, ni p)
  | ["RDRDNS"; f; d] -> PRdrDns (fam f, ni d)
  | ["ROUTETCP"; f; e] -> PRouteTcp (fam f, parse_sub e)
  | ["PASSTCP"; f; e] -> PPassTcp (fam f, parse_sub e)
  | ["ROUTEDNS"; f] -> PRouteDns (fam f)
  | ["ODIVTCP"; f; e; p] -> ODivertTcp (fam f, parse_sub e, ni p)
  | ["ORDRDNS"; f; d] -> ORdrDns (fam f, ni d)
  | ["OROUTETCP"; f; e] -> ORouteTcp (fam f, parse_sub e)
  | ["OROUTEDNS"; f] -> ORouteDns (fam f)
  | _ -> failwith ("pf line " ^ t)

let rec split_at sep = function
  | [] -> ([], [])
  | x :: r when x = sep -> ([], r)
  | x :: r -> let (a, b) = split_at sep r in (x :: a, b)

let entry_s e = Printf.sprintf "%s:%d:%s:%s:%d:%d" (fam_s e.e_fam) (int_of_n e.e_width) (b2s e.e_excl)
    (hex_of_bytes e.e_txt) (int_of_n e.e_fport) (int_of_n e.e_lport)

let handle = function
  | "GEN" :: m :: f :: plan ->
      let pl = parse_plan plan and f = fam f in
      let port = port_of pl f in
      (match m with
       | "nat" -> cmds_s (List.map (print_ipt_cmd f port) (nat_cmds pl f))
       | "tproxy" -> cmds_s (List.map (print_ipt_cmd f port) (tproxy_cmds pl f))
       | "nft" -> cmds_s (List.map (print_nft_cmd f port) (nft_cmds pl f))
       | "pff" | "pfo" ->
           (match pf_rules (if m = "pff" then FreeBsd else OpenBsd) pl f with
            | None -> "CRASH" | Some [] -> "EMPTY" | Some ls -> hex_of_bytes (print_pf ls))
       | _ -> failwith "method")
  | "SORT" :: dir :: plan ->
      let pl = parse_plan plan in
      let l = if dir = "desc" then sort_desc pl.pl_entries else sort_asc pl.pl_entries in
      if l = [] then "EMPTY" else String.concat " " (List.map entry_s l)
  | "EVAL" :: pks :: plan ->
      let pl = parse_plan plan in
      String.concat " | " (List.map (fun pk -> let p = parse_pkt pk in
      Printf.sprintf "nat=%s nft=%s tproxy=%s pff=%s pfo=%s spec=%s ns=%s ns32=%s f18=%s own=%s wf=%s marked=%s tdiv=%s"
        (verdict_s (nat_verdict pl p)) (verdict_s (nft_verdict pl p)) (verdict_s (tproxy_verdict pl p))
        (vopt_s (pf_verdict FreeBsd pl p)) (vopt_s (pf_verdict OpenBsd pl p))
        (b2s (spec_interceptb pl.pl_entries p)) (b2s (ns_hit pl p)) (b2s (ns_hit32 pl p))
        (b2s (f18_class pl p)) (b2s (nat_owner_okb pl p)) (b2s (wf_planb pl))
        (b2s (tproxy_marked pl p)) (b2s (tproxy_diverted pl p))) (comma pks))
  | "WALKR" :: m :: pks :: tm :: rest ->
      let f = (match m with
       | "nat" -> let c = List.map parse_ipt_cmd rest in fun p -> nat_verdict_of c p
       | "tproxy" -> let c = List.map parse_ipt_cmd rest in fun p -> tproxy_verdict_of (n_of_hex tm) c p
       | "nft" -> let (t6, t4) = split_at "/" rest in
           let c6 = List.map parse_nft_cmd t6 and c4 = List.map parse_nft_cmd t4 in
           fun p -> nft_verdict_of c6 c4 p
       | "pff" | "pfo" ->
           (* 4th field "-": the anchor's rules alone; "H<e><r><p>" (0/1 each): the complete state — pf enabled,
              main ruleset calls rdr-anchor / anchor for this anchor (Model/FwPfHook.v pf_state_verdict_of) *)
           let os = if m = "pff" then FreeBsd else OpenBsd in
           let c = List.map parse_pf_line rest in
           if String.length tm = 4 && tm.[0] = 'H' then
             let h = { h_enabled = (tm.[1] = '1'); h_rdr = (tm.[2] = '1'); h_pass = (tm.[3] = '1') } in
             fun p -> pf_state_verdict_of os h c p
           else fun p -> pf_verdict_of os c p
       | _ -> failwith "method") in
      String.concat " " (List.map (fun pk -> verdict_s (f (parse_pkt pk))) (comma pks))
  | "PRINTR" :: "pff" :: rest | "PRINTR" :: "pfo" :: rest ->
      if rest = [] then "EMPTY" else hex_of_bytes (print_pf (List.map parse_pf_line rest))
  | "PRINTR" :: m :: f :: port :: rest ->
      let f = fam f and port = ni port in
      (match m with
       | "nat" | "tproxy" -> cmds_s (List.map (fun t -> print_ipt_cmd f port (parse_ipt_cmd t)) rest)
       | "nft" -> cmds_s (List.map (fun t -> print_nft_cmd f port (parse_nft_cmd t)) rest)
       | _ -> failwith "method")
  | _ -> "ERROR bad command"
let () = main_loop handle
