(* C10/C11 driver (datagram core): one case per line, tokens separated by blanks.
   "-" = empty bytes, "~" = None / empty list.  Addresses are <iphex>@<port>.
   C f3 f4 f10 f16 method(B|T) maxc family ev...
       ev = D,now,src,dst|~,payloadhex | U,now,src,dst|~,payloadhex | T,now,family,dst | F,ch,payloadhex,ok|<errno>
            | K,ch   (the TCP flow on identifier ch is over: noread + nowrite of its MuxWrapper)
       the channel table is printed in identifier order (mux.channels is never iterated by the code)
       -> per step  "OK outs | state"  |  "FATAL"  |  "CRASH X"   joined by " ;; "
   S f3 f4 f10 f16 f80 to_ns|~ sysns(hex,hex..|~) ev...
       ev = now/frames/ready/io ; frames = ch:cmd:hex:tag,... (cmd Q O D C X) ; ready = sock,... ; io = k|e<errno>|d<hex>|f<hex>@<iphex>@<port>|n<k>
   HDR iphex port payloadhex   -> hex of "ip,port,"+payload
   SPLIT hex                   -> iphex port payloadhex | NONE    (split(b',',2) + int(port))
   DEC n / UNDEC hex *)
let soi = string_of_int
let n_of_s s = n_of_int (int_of_string s)
let split_on c s = if s = "~" then [] else String.split_on_char c s
let addr_of_s s = match String.split_on_char '@' s with
  | [ip; port] -> (bytes_of_hex ip, n_of_s port) | _ -> failwith ("bad addr " ^ s)
let s_of_addr (ip, port) = hex_of_bytes ip ^ "@" ^ soi (int_of_n port)
let oaddr_of_s s = if s = "~" then None else Some (addr_of_s s)
let s_of_oaddr = function None -> "~" | Some a -> s_of_addr a
let exn_str = function XStruct -> "struct.error" | XValue -> "ValueError" | XOSError -> "OSError"
  | XAssert -> "AssertionError" | XKey -> "KeyError" | XUnbound -> "UnboundLocalError"
  | XOverflow -> "OverflowError" | XType -> "TypeError" | XException -> "Exception"
let fixes_of a b c d e = { fx3 = a = "1"; fx4 = b = "1"; fx10 = c = "1"; fx16 = d = "1"; fx80 = e = "1" }
let join = String.concat ","
let nonempty s = if s = "" then "~" else s

(* ---- client ---- *)
let cev_of_s s = match String.split_on_char ',' s with
  | ["D"; now; src; dst; p] -> EDns (n_of_s now, addr_of_s src, oaddr_of_s dst, bytes_of_hex p)
  | ["U"; now; src; dst; p] -> EUdp (n_of_s now, addr_of_s src, oaddr_of_s dst, bytes_of_hex p)
  | ["T"; now; fam; dst] -> ETcp (n_of_s now, n_of_s fam, addr_of_s dst)
  | ["F"; ch; p; sr] -> EFrame (n_of_s ch, bytes_of_hex p, (if sr = "ok" then SendOk else SendErr (n_of_s sr)))
  | ["K"; ch] -> ETcpEnd (n_of_s ch)
  | _ -> failwith ("bad client event " ^ s)
let cout_str = function
  | OFrame (ch, cmd, d) -> Printf.sprintf "F:%d:%d:%s" (int_of_n ch) (int_of_n cmd) (hex_of_bytes d)
  | ODgram (_, from, to_, d) -> Printf.sprintf "G:%s:%s:%s" (s_of_oaddr from) (s_of_addr to_) (hex_of_bytes d)
let ckind_str = function
  | KDns (_, from, to_) -> Printf.sprintf "D(%s>%s)" (s_of_oaddr from) (s_of_addr to_)
  | KUdp src -> Printf.sprintf "U(%s)" (s_of_addr src)
  | KTcp -> "T"
let cstate_str c =
  Printf.sprintf "chan=%s chani=%d dns=%s udp=%s"
    (nonempty (join (List.map (fun (ch, k) -> soi ch ^ ":" ^ ckind_str k)
                       (List.sort (fun (a, _) (b, _) -> compare a b) (List.map (fun (ch, k) -> (int_of_n ch, k)) c.c_chan)))))
    (int_of_n c.c_chani)
    (nonempty (join (List.map (fun (ch, dl) -> soi (int_of_n ch) ^ ":" ^ soi (int_of_n dl)) c.c_dns)))
    (nonempty (join (List.map (fun (a, (ch, dl)) -> s_of_addr a ^ ":" ^ soi (int_of_n ch) ^ ":" ^ soi (int_of_n dl)) c.c_udp)))
let run_client fx cfg evs =
  let rec go c evs acc = match evs with
    | [] -> List.rev acc
    | e :: tl ->
      (match cstep fx cfg c e with
       | Ok (c', outs) ->
         go c' tl ((Printf.sprintf "OK %s | %s" (nonempty (join (List.map cout_str outs))) (cstate_str c')) :: acc)
       | Fatal -> List.rev ("FATAL" :: acc)
       | Crash x -> List.rev (("CRASH " ^ exn_str x) :: acc)) in
  String.concat " ;; " (go c_init evs [])

(* ---- server ---- *)
let fcmd_of_s = function "Q" -> FDnsReq | "O" -> FUdpOpen | "D" -> FUdpData | "C" -> FUdpClose | "X" -> FOther
  | s -> failwith ("bad cmd " ^ s)
let frame_of_s s = match String.split_on_char ':' s with
  | [ch; cmd; hx; tag] -> (((n_of_s ch, fcmd_of_s cmd), bytes_of_hex hx), n_of_s tag)
  | _ -> failwith ("bad frame " ^ s)
let io_of_s s =
  let rest = String.sub s 1 (String.length s - 1) in
  match s.[0] with
  | 'k' -> IoOk
  | 'e' -> IoErr (n_of_s rest)
  | 'd' -> IoData (bytes_of_hex rest)
  | 'n' -> IoNs (n_of_s rest)
  | 'f' -> (match String.split_on_char '@' rest with
            | [d; ip; port] -> IoFrom (bytes_of_hex d, (bytes_of_hex ip, n_of_s port))
            | _ -> failwith ("bad io " ^ s))
  | _ -> failwith ("bad io " ^ s)
let sev_of_s s = match String.split_on_char '/' s with
  | [now; frames; ready; io] ->
    { se_now = n_of_s now; se_frames = List.map frame_of_s (split_on ',' frames);
      se_ready = List.map n_of_s (split_on ',' ready); se_io = List.map io_of_s (split_on ',' io) }
  | _ -> failwith ("bad server event " ^ s)
let b01 b = if b then "1" else "0"
let sout_str = function
  | SFrame (ch, cmd, d, _) -> Printf.sprintf "F:%d:%d:%s" (int_of_n ch) (int_of_n cmd) (hex_of_bytes d)
  | SUdpSock (s, fam) -> Printf.sprintf "K:%d:%d" (int_of_n s) (int_of_n fam)
  | SConnect (s, a, ok) -> Printf.sprintf "C:%d:%s:%s" (int_of_n s) (s_of_addr a) (b01 ok)
  | SSend (s, d, ok) -> Printf.sprintf "S:%d:%s:%s" (int_of_n s) (hex_of_bytes d) (b01 ok)
  | SSendto (s, a, d, ok) -> Printf.sprintf "T:%d:%s:%s:%s" (int_of_n s) (s_of_addr a) (hex_of_bytes d) (b01 ok)
let rec index_of hid l i = match l with
  | [] -> -1 | (h, _) :: tl -> if int_of_n h = int_of_n hid then i else index_of hid tl (i + 1)
let h_str = function
  | HDns d -> Printf.sprintf "D.%d.%d.%s.%d.%s" (int_of_n d.d_chan) (int_of_n d.d_tries)
                (nonempty (String.concat "+" (List.map (fun s -> soi (int_of_n s)) d.d_socks)))
                (int_of_n d.d_timeout) (b01 d.d_ok)
  | HUdp u -> Printf.sprintf "U.%d.%d.%s" (int_of_n u.u_chan) (int_of_n u.u_sock) (b01 u.u_ok)
let sstate_str s =
  let tbl t = nonempty (join (List.map (fun (ch, hid) -> soi (int_of_n ch) ^ ">" ^ soi (index_of hid s.s_h 0)) t)) in
  Printf.sprintf "h=%s dnsh=%s udph=%s chan=%s nsock=%d"
    (nonempty (join (List.map (fun (_, h) -> h_str h) s.s_h))) (tbl s.s_dnsh) (tbl s.s_udph)
    (nonempty (join (List.map soi (List.sort compare (List.map int_of_n s.s_chan))))) (int_of_n s.s_nsock)
let run_server fx cfg evs =
  let rec go s evs acc = match evs with
    | [] -> List.rev acc
    | e :: tl ->
      (match sstep fx cfg s e with
       | Ok (s', outs) ->
         go s' tl ((Printf.sprintf "OK %s | %s" (nonempty (join (List.map sout_str outs))) (sstate_str s')) :: acc)
       | Fatal -> List.rev ("FATAL" :: acc)
       | Crash x -> List.rev (("CRASH " ^ exn_str x) :: acc)) in
  String.concat " ;; " (go s_init evs [])


(* ---- the two-ended system (Model/DgramSys.v) ----
   Y f3 f4 f10 f16 f80 method maxc family to_ns|~ sysns ev...
       ev = A|<client accept event> | S|now/k/ready/io | V|ok|<errno>
       -> per step  "OK obs | state of the component that ran | U up-link | W down-link"
          or "FATAL client|server" / "CRASH X client|server" / "STUCK"          *)
let up_str f = let (((ch, cmd), d), _) = f in
  Printf.sprintf "%d:%s:%s" (int_of_n ch) (match cmd with FDnsReq -> "Q" | FUdpOpen -> "O" | FUdpData -> "D" | FUdpClose -> "C" | FOther -> "X") (hex_of_bytes d)
let down_str f = let ((ch, d), _) = f in Printf.sprintf "%d:%s" (int_of_n ch) (hex_of_bytes d)
let yev_of_s s = match String.split_on_char '|' s with
  | ["A"; ce] -> YAccept (cev_of_s ce)
  | ["S"; se] -> (match String.split_on_char '/' se with
      | [now; k; ready; io] -> YServer (n_of_s now, nat_of_int (int_of_string k), List.map n_of_s (split_on ',' ready), List.map io_of_s (split_on ',' io))
      | _ -> failwith ("bad system server event " ^ s))
  | ["V"; sr] -> YDeliver (if sr = "ok" then SendOk else SendErr (n_of_s sr))
  | _ -> failwith ("bad system event " ^ s)
let rec take k l = if k <= 0 then [] else match l with [] -> [] | x :: tl -> x :: take (k - 1) tl
let res_str who = function
  | Ok _ -> "STUCK" | Fatal -> "FATAL " ^ who | Crash x -> "CRASH " ^ exn_str x ^ " " ^ who
let why_stuck fx cc sc y e = match e with
  | YAccept ce -> res_str "client" (cstep fx cc y.y_c ce)
  | YServer (now, k, ready, io) ->
    res_str "server" (sstep fx sc y.y_s { se_now = now; se_frames = take (int_of_nat k) y.y_up; se_ready = ready; se_io = io })
  | YDeliver sr -> (match y.y_down with
      | [] -> "STUCK"
      | ((ch, d), _) :: _ -> res_str "client" (cstep fx cc y.y_c (EFrame (ch, d, sr))))
let run_system fx cc sc evs =
  let rec go y evs acc = match evs with
    | [] -> List.rev acc
    | e :: tl ->
      (match ystep_fx fx cc sc y e with
       | Some (y', ob) ->
         let (obs, st) = (match ob with
           | ObsClient (_, o) -> (join (List.map cout_str o), cstate_str y'.y_c)
           | ObsServer o -> (join (List.map sout_str o), sstate_str y'.y_s)) in
         go y' tl ((Printf.sprintf "OK %s | %s | U %s | W %s" (nonempty obs) st
                      (nonempty (join (List.map up_str y'.y_up))) (nonempty (join (List.map down_str y'.y_down)))) :: acc)
       | None -> List.rev (why_stuck fx cc sc y e :: acc)) in
  String.concat " ;; " (go y_init evs [])

let handle = function
  | "C" :: a :: b :: c :: d :: m :: maxc :: fam :: evs ->
    let cfg = { cc_method = (if m = "T" then MTproxy else MBase); cc_maxc = n_of_s maxc; cc_family = n_of_s fam } in
    run_client (fixes_of a b c d "1") cfg (List.map cev_of_s evs)
  | "S" :: a :: b :: c :: d :: e :: tons :: sysns :: evs ->
    let cfg = { sc_to_ns = oaddr_of_s tons; sc_sysns = List.map bytes_of_hex (split_on ',' sysns) } in
    run_server (fixes_of a b c d e) cfg (List.map sev_of_s evs)
  | "Y" :: a :: b :: c :: d :: e :: m :: maxc :: fam :: tons :: sysns :: evs ->
    let cc = { cc_method = (if m = "T" then MTproxy else MBase); cc_maxc = n_of_s maxc; cc_family = n_of_s fam } in
    let sc = { sc_to_ns = oaddr_of_s tons; sc_sysns = List.map bytes_of_hex (split_on ',' sysns) } in
    run_system (fixes_of a b c d e) cc sc (List.map yev_of_s evs)
  | ["HDR"; ip; port; p] -> hex_of_bytes (dgram_hdr (bytes_of_hex ip, n_of_s port) (bytes_of_hex p))
  | ["SPLIT"; hx] ->
    (match split3 (bytes_of_hex hx) with
     | None -> "NONE"
     | Some ((a, p), d) ->
       (match undec p with None -> "NONE"
        | Some port -> Printf.sprintf "%s %d %s" (hex_of_bytes a) (int_of_n port) (hex_of_bytes d)))
  | ["DEC"; n] -> hex_of_bytes (dec (n_of_s n))
  | ["UNDEC"; hx] -> (match undec (bytes_of_hex hx) with None -> "NONE" | Some n -> soi (int_of_n n))
  | _ -> "ERROR bad command"
let () = main_loop handle
