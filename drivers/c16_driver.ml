(* C16 driver: one case per line; every text travels as hex ("-" = empty).
   table  := "-" | hosthex=fam:addrhex,fam:addrhex;hosthex=...
   SUB shex table   -> G <host|NONE> <cidr> <fport> <lport> | OK fam,addrhex,width,fphex,lphex;... | RAISE <cls> | A OK|USAGE|CRASH:<cls> | <result of the code as found, before F23>
   IPP shex table   -> G <host|NONE> <port> | OK fam addrhex port | RAISE <cls>
   LISTEN shex|N dis table -> OK <v6> <v4> | RAISE <cls>   (cmdline.main's --listen dispatch; dis 0/1 = --disable-ipv6;
                       a slot is AUTO | NONE | addrhex:port)
   HP shex          -> OK user pass port host | RAISE <cls>          (N = None)
   ATON shex        -> valuehex dottedhex | NONE
   V6 shex          -> w0.w1...w7 glibchex pyhex | NONE
   PIP shex         -> texthex | NONE
   GAI shex table   -> OK fam:addrhex,... | RAISE <cls>
   EFF desthex env cli   (assignments "-" | d=v,d=v in hex) -> valuehex | N
   ARGV sshl shex delim cmdhex  (sshl = hex,hex,... the words of shlex.split(ssh_cmd); delim 0/1)
                    -> OK argvhex,argvhex,... SSHPASS=<hex|N> | LOCAL | RAISE <cls>   (ssh.connect up to Popen) *)
let rec hex_of_pos p acc = match p with
  | XH -> "1" ^ acc
  | _ ->
    (* peel 4 bits *)
    let bit p = (match p with XH -> (1, None) | XO q -> (0, Some q) | XI q -> (1, Some q)) in
    let (b0, r0) = bit p in
    (match r0 with None -> Printf.sprintf "%x" b0 ^ acc | Some p1 ->
     let (b1, r1) = bit p1 in
     (match r1 with None -> Printf.sprintf "%x" (b0 + 2*b1) ^ acc | Some p2 ->
      let (b2, r2) = bit p2 in
      (match r2 with None -> Printf.sprintf "%x" (b0 + 2*b1 + 4*b2) ^ acc | Some p3 ->
       let (b3, r3) = bit p3 in
       let d = Printf.sprintf "%x" (b0 + 2*b1 + 4*b2 + 8*b3) in
       (match r3 with None -> d ^ acc | Some p4 -> hex_of_pos p4 (d ^ acc)))))
let hex_of_n = function N0 -> "0" | Npos p -> hex_of_pos p ""
let ob = function None -> "N" | Some b -> hex_of_bytes b
let on = function None -> "N" | Some n -> hex_of_n n
let msg_str = function MsgFormat -> "Format" | MsgResolve -> "Resolve" | MsgMixed -> "Mixed" | MsgWidth -> "Width"
let exn_str = function EArgType m -> "ArgumentTypeError:" ^ msg_str m | EUnicode -> "UnicodeError" | EValue -> "ValueError"
let parse_table (s : string) =
  if s = "-" then [] else
  List.map (fun ent ->
    match String.split_on_char '=' ent with
    | [h; v] ->
      let addrs = if v = "" then [] else List.map (fun a ->
        match String.split_on_char ':' a with
        | [f; x] -> (n_of_int (int_of_string f), bytes_of_hex x)
        | _ -> failwith "bad table addr") (String.split_on_char ',' v) in
      (bytes_of_hex h, addrs)
    | _ -> failwith "bad table entry") (String.split_on_char ';' s)
let parse_assign (s : string) =
  if s = "-" then [] else
  List.map (fun a -> match String.split_on_char '=' a with
    | [d; v] -> (bytes_of_hex d, bytes_of_hex v) | _ -> failwith "bad assignment") (String.split_on_char ',' s)
let out_str r = match argparse_type r with OOk _ -> "A OK" | OUsage -> "A USAGE" | OCrash e -> "A CRASH:" ^ exn_str e
let ai_str l = String.concat "," (List.map (fun (f, a) -> Printf.sprintf "%d:%s" (int_of_n f) (hex_of_bytes a)) l)
let handle = function
  | ["SUB"; s; tbl] ->
    let rs = tbl_lookup (parse_table tbl) in
    let b = bytes_of_hex s in
    let g = (match subnet_groups b with
      | None -> "G NONE"
      | Some (((h, c), f), l) -> Printf.sprintf "G %s %s %s %s" (hex_of_bytes h) (ob c) (ob f) (ob l)) in
    let r = (match parse_subnetport rs b with
      | Ok l -> "OK " ^ String.concat ";" (List.map (fun ((((fam, a), w), f), lp) ->
          Printf.sprintf "%d,%s,%s,%s,%s" (int_of_n fam) (hex_of_bytes a) (hex_of_n w) (hex_of_n f) (hex_of_n lp)) l)
      | Raise e -> "RAISE " ^ exn_str e) in
    let rf = (match parse_subnetport_asfound rs b with
      | Ok l -> "OK " ^ String.concat ";" (List.map (fun ((((fam, a), w), f), lp) ->
          Printf.sprintf "%d,%s,%s,%s,%s" (int_of_n fam) (hex_of_bytes a) (hex_of_n w) (hex_of_n f) (hex_of_n lp)) l)
      | Raise e -> "RAISE " ^ exn_str e) in
    g ^ " | " ^ r ^ " | " ^ out_str (parse_subnetport rs b) ^ " | " ^ rf
  | ["IPP"; s; tbl] ->
    let rs = tbl_lookup (parse_table tbl) in
    let b = bytes_of_hex s in
    let g = (match ipport_groups b with
      | None -> "G NONE"
      | Some (h, p) -> Printf.sprintf "G %s %s" (hex_of_bytes h) (ob p)) in
    let r = (match parse_ipport rs b with
      | Ok ((fam, a), p) -> Printf.sprintf "OK %d %s %d" (int_of_n fam) (hex_of_bytes a) (int_of_n p)
      | Raise e -> "RAISE " ^ exn_str e) in
    g ^ " | " ^ r ^ " | " ^ out_str (parse_ipport rs b)
  | ["LISTEN"; s; dis; tbl] ->
    let rs = tbl_lookup (parse_table tbl) in
    let slot = function LAuto -> "AUTO" | LNone -> "NONE"
      | LAddr (ip, port) -> Printf.sprintf "%s:%d" (hex_of_bytes ip) (int_of_n port) in
    (match listen_dispatch rs (if s = "N" then None else Some (bytes_of_hex s)) (dis = "1") with
     | Ok (v6, v4) -> Printf.sprintf "OK %s %s" (slot v6) (slot v4)
     | Raise e -> "RAISE " ^ exn_str e)
  | ["HP"; s] ->
    (match parse_hostport (bytes_of_hex s) with
     | Ok (((u, pw), port), h) -> Printf.sprintf "OK %s %s %s %s" (ob u) (ob pw) (on port) (ob h)
     | Raise e -> "RAISE " ^ exn_str e)
  | ["ARGV"; sshl; s; delim; cmd] ->
    let ws = List.map bytes_of_hex (String.split_on_char ',' sshl) in
    (match connect_argv ws (bytes_of_hex s) (delim = "1") (bytes_of_hex cmd) with
     | Raise e -> "RAISE " ^ exn_str e
     | Ok None -> "LOCAL"
     | Ok (Some (argv, pw)) ->
       Printf.sprintf "OK %s SSHPASS=%s" (String.concat "," (List.map hex_of_bytes argv)) (ob pw))
  | ["ATON"; s] ->
    (match inet_aton (bytes_of_hex s) with
     | None -> "NONE" | Some v -> Printf.sprintf "%s %s" (hex_of_n v) (hex_of_bytes (print_v4 v)))
  | ["V6"; s] ->
    (match parse_v6 (bytes_of_hex s) with
     | None -> "NONE"
     | Some ws -> Printf.sprintf "%s %s %s" (String.concat "." (List.map hex_of_n ws))
                    (hex_of_bytes (print_v6 true ws)) (hex_of_bytes (print_v6 false ws)))
  | ["PIP"; s] -> (match py_ip_str (bytes_of_hex s) with None -> "NONE" | Some t -> hex_of_bytes t)
  | ["GAI"; s; tbl] ->
    (match getaddrinfo (tbl_lookup (parse_table tbl)) (bytes_of_hex s) with
     | Ok l -> "OK " ^ ai_str l | Raise e -> "RAISE " ^ exn_str e)
  | ["EFF"; d; env; cli] ->
    ob (effective (bytes_of_hex d) (merge_args (parse_assign env) (parse_assign cli)))
  | _ -> "ERROR bad command"
let () = main_loop handle
