(* C18 driver: one case per line; bytes travel as hex ("-" = empty), lists are
   comma separated ("_" = empty list), numbers travel as hex of their decimal text.
   DEC  numhex                      -> hex of dec n
   INT  linehex                     -> numhex | NONE          (int(readline()) as modelled)
   STRIP hex                        -> hex
   PKG  tbl mods                    -> hex                    (empackage chain, stand-in codec)
   UPLOAD tbl opts                  -> contenthex content2hex readlen-numhex inscope(0/1)
   RUN  pre numhex chunk...         -> srchex STATUS mods lefthex   (BufferedReader over the chunks)
   RUNSPEC pre numhex streamhex     -> srchex STATUS mods lefthex   (stream-level specification)
   RENDER opts                      -> inscope(0/1) hex
   EVAL hex                         -> opts | NONE
   ROPTS mods                       -> opts | NONE
   CLIENT content content2 poll seed accept chunk...  -> events | before | after
   HSSPEC streamhex                 -> 0/1 resthex            (hs_spec client_sync: the announcement check on the whole stream)
   SERVER numhex                    -> events | stdouthex
   SYNC                             -> server_sync client_sync ping_frame
   PYCMD sh|py|cmd|ps pyhex vnumhex lennumhex -> hex of the remote command line (ssh.py:137-189; pyhex "-" = no --python)
   SHWORDS hex                      -> hex,hex,... | _ | NONE  (words of a POSIX shell command line, fragment)
   PSWORDS hex                      -> hex,hex,... | _ | NONE  (words of a PowerShell line of bare words)
   QUOTE hex                        -> hex                    (shlex.quote)
   tbl/mods: namehex:datahex,...    opts: keyhex=B1|B0|N|I<numhex>|S<hex>,...
   pre: namehex,...                 poll/accept: - | numhex        seed: - | S<hex>  *)
let split_list s = if s = "_" then [] else String.split_on_char ',' s
let pair_of s =
  match String.split_on_char ':' s with
  | [a; b] -> (bytes_of_hex a, bytes_of_hex b)
  | _ -> failwith ("bad pair " ^ s)
let pairs_of s = List.map pair_of (split_list s)
let n_of_numhex s =
  match undec (bytes_of_hex s) with Some n -> n | None -> failwith ("bad number " ^ s)
let z_of_numhex s =
  match zundec (bytes_of_hex s) with Some z -> z | None -> failwith ("bad integer " ^ s)
let numhex_of_n n = hex_of_bytes (dec n)
let opt_n s = if s = "-" then None else Some (n_of_numhex s)
let val_of s =
  if s = "B1" then PvBool true else if s = "B0" then PvBool false else if s = "N" then PvNone
  else if String.length s >= 1 && s.[0] = 'I' then PvInt (z_of_numhex (String.sub s 1 (String.length s - 1)))
  else if String.length s >= 1 && s.[0] = 'S' then PvStr (bytes_of_hex (String.sub s 1 (String.length s - 1)))
  else failwith ("bad value " ^ s)
let opt_of s =
  match String.index_opt s '=' with
  | Some i -> (bytes_of_hex (String.sub s 0 i), val_of (String.sub s (i + 1) (String.length s - i - 1)))
  | None -> failwith ("bad option " ^ s)
let opts_of s = List.map opt_of (split_list s)
let val_str = function
  | PvBool true -> "B1" | PvBool false -> "B0" | PvNone -> "N"
  | PvInt z -> "I" ^ hex_of_bytes (zdec z)
  | PvStr s -> "S" ^ hex_of_bytes s
let opts_str = function
  | [] -> "_"
  | l -> String.concat "," (List.map (fun (k, v) -> hex_of_bytes k ^ "=" ^ val_str v) l)
let mods_str = function
  | [] -> "_"
  | l -> String.concat "," (List.map (fun (a, b) -> hex_of_bytes a ^ ":" ^ hex_of_bytes b) l)
let crash_str = function
  | CrUnicodeDecode -> "UnicodeDecodeError" | CrValueError -> "ValueError" | CrKeyError -> "KeyError"
let result_str left_hex (src, r) =
  match r with
  | AsmDone (ms, l) -> Printf.sprintf "%s DONE %s %s" (hex_of_bytes src) (mods_str ms) (left_hex l)
  | AsmCrash (c, ms) -> Printf.sprintf "%s CRASH:%s %s -" (hex_of_bytes src) (crash_str c) (mods_str ms)
  | AsmFuel -> Printf.sprintf "%s FUEL _ -" (hex_of_bytes src)
let cev_str = function
  | CWrite b -> "W:" ^ hex_of_bytes b
  | CQueue b -> "Q:" ^ hex_of_bytes b
  | CSyncOk -> "OK"
  | CFatal n -> "FATAL:" ^ string_of_int (int_of_n n)
  | CCrash -> "CRASH"
let sev_str = function
  | SSetLatency z -> "LAT:" ^ hex_of_bytes (zdec z)
  | SStdout b -> "OUT:" ^ hex_of_bytes b
  | SFlush -> "FLUSH"
let hexlist = function [] -> "_" | l -> String.concat "," (List.map hex_of_bytes l)
let handle = function
  | ["DEC"; n] -> hex_of_bytes (dec (n_of_numhex n))
  | ["INT"; l] -> (match parse_int_line (bytes_of_hex l) with Some n -> numhex_of_n n | None -> "NONE")
  | ["STRIP"; l] -> hex_of_bytes (strip (bytes_of_hex l))
  | ["PKG"; tbl; mods] -> hex_of_bytes (stub_package (pairs_of tbl) (pairs_of mods))
  | ["UPLOAD"; tbl; opts] ->
      let t = pairs_of tbl and o = opts_of opts in
      let (c1, c2) = stub_upload t o in
      Printf.sprintf "%s %s %s %d" (hex_of_bytes c1) (hex_of_bytes c2)
        (numhex_of_n (boot_read_len (table_src t))) (if List.for_all opt_ok o then 1 else 0)
  | "RUN" :: pre :: n :: chunks ->
      result_str (fun l -> hex_of_bytes (stream_of l))
        (stub_remote_run (List.map bytes_of_hex (split_list pre)) (n_of_numhex n) (List.map bytes_of_hex chunks))
  | ["RUNSPEC"; pre; n; s] ->
      result_str hex_of_bytes
        (stub_remote_spec (List.map bytes_of_hex (split_list pre)) (n_of_numhex n) (bytes_of_hex s))
  | ["RENDER"; opts] ->
      let o = opts_of opts in
      Printf.sprintf "%d %s" (if List.for_all opt_ok o then 1 else 0) (hex_of_bytes (render_options o))
  | ["EVAL"; h] -> (match eval_options (bytes_of_hex h) with Some o -> opts_str o | None -> "NONE")
  | ["ROPTS"; mods] -> (match remote_options (pairs_of mods) with Some o -> opts_str o | None -> "NONE")
  | "CLIENT" :: c1 :: c2 :: poll :: seed :: acc :: chunks ->
      let seed = if seed = "-" then None else Some (bytes_of_hex (String.sub seed 1 (String.length seed - 1))) in
      let e = { ce_server = List.map bytes_of_hex chunks; ce_poll = opt_n poll; ce_seed = seed; ce_accept = opt_n acc } in
      let t = client_startup (bytes_of_hex c1) (bytes_of_hex c2) e in
      Printf.sprintf "%s | %s | %s" (String.concat "," (List.map cev_str t))
        (hexlist (writes_before_sync t)) (hexlist (writes_after_sync t))
  | ["SERVER"; lbs] ->
      let t = server_main_start (z_of_numhex lbs) in
      Printf.sprintf "%s | %s" (String.concat "," (List.map sev_str t)) (hex_of_bytes (stdout_of t))
  | ["PYCMD"; k; py; v; n] ->
      let kind = (match k with "sh" -> KSh | "py" -> KPy | "cmd" -> KCmd | "ps" -> KPs | _ -> failwith ("bad kind " ^ k)) in
      hex_of_bytes (pycmd kind (bytes_of_hex py) (n_of_numhex v) (n_of_numhex n))
  | ["SHWORDS"; h] -> (match sh_words (bytes_of_hex h) with Some l -> hexlist l | None -> "NONE")
  | ["PSWORDS"; h] -> (match ps_words (bytes_of_hex h) with Some l -> hexlist l | None -> "NONE")
  | ["QUOTE"; h] -> hex_of_bytes (sh_quote (bytes_of_hex h))
  | ["HSSPEC"; hx] ->
      (* stream-level specification of the announcement check (theorem c18_connected_iff_announced) *)
      let (ok, rest) = hs_spec client_sync (bytes_of_hex hx) in
      Printf.sprintf "%d %s" (if ok then 1 else 0) (hex_of_bytes rest)
  | ["SYNC"] -> Printf.sprintf "%s %s %s" (hex_of_bytes server_sync) (hex_of_bytes client_sync) (hex_of_bytes ping_frame)
  | _ -> "ERROR bad command"
let () = main_loop handle
