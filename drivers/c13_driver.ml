(* C13 driver: one case per line (all byte strings in hex, "-" = empty).
   RENDER inc auto exc ns p6 p4 d6 d4 udp user group tmark pid
        inc/auto/exc = fam:iphex:width:fport:lport;...   ns = fam:iphex;...   user/group = n | None
                               -> valid(0/1) hex-of-dialogue-bytes
   EXPECT <same 13 fields> host;host... (namehex=iphex)
                               -> canonical outcome the specification side predicts
   HOST namehex iphex          -> OK hex | ASSERT
   MAIN lim|- hex              -> canonical outcome of the helper on this input
   INT hex                     -> decimal | VE
   STRIP hex                   -> hex
   SPLIT sephex k hex          -> hex,hex,...
   CHUNKS lim|- hex            -> hex,hex,... *)
let nn s = n_of_int (int_of_string s)
let semis s = if s = "-" then [] else String.split_on_char ';' s
let parse_sn s = match String.split_on_char ':' s with
  | [f; ip; w; fp; lp] -> { sn_family = nn f; sn_ip = bytes_of_hex ip; sn_width = nn w; sn_fport = nn fp; sn_lport = nn lp }
  | _ -> failwith ("bad subnet " ^ s)
let parse_ns s = match String.split_on_char ':' s with
  | [f; ip] -> (nn f, bytes_of_hex ip)
  | _ -> failwith ("bad ns " ^ s)
let parse_host s = match String.split_on_char '=' s with
  | [n; ip] -> (bytes_of_hex n, bytes_of_hex ip)
  | _ -> failwith ("bad host " ^ s)
let opt_n s = if s = "None" then None else Some (nn s)
let parse_plan = function
  | [inc; auto; exc; ns; p6; p4; d6; d4; udp; user; group; tmark; pid] ->
      { p_include = List.map parse_sn (semis inc); p_auto = List.map parse_sn (semis auto);
        p_exclude = List.map parse_sn (semis exc); p_nslist = List.map parse_ns (semis ns);
        p_port_v6 = nn p6; p_port_v4 = nn p4; p_dns_v6 = nn d6; p_dns_v4 = nn d4;
        p_udp = (udp = "1"); p_user = opt_n user; p_group = opt_n group;
        p_tmark = bytes_of_hex tmark; p_pid = nn pid }
  | _ -> failwith "bad plan"
let lim_of s = if s = "-" then None else Some (nn s)
let rec take n l = if n = 0 then [] else match l with [] -> [] | x :: t -> x :: take (n - 1) t
let handle = function
  | "RENDER" :: rest ->
      let p = parse_plan rest in
      Printf.sprintf "%d %s" (if valid_plan p then 1 else 0) (hex_of_bytes (render_plan p))
  | "EXPECT" :: rest when List.length rest = 14 ->
      let p = parse_plan (take 13 rest) in
      let hs = List.map parse_host (semis (List.nth rest 13)) in
      string_of_bytes (show_outcome (expected_events p hs, ExReturn))
  | ["HOST"; n; ip] ->
      (match sethostip (bytes_of_hex n, bytes_of_hex ip) with
       | Some b -> "OK " ^ hex_of_bytes b | None -> "ASSERT")
  | ["MAIN"; lim; hx] ->
      string_of_bytes (show_outcome (helper_main (lim_of lim) (bytes_of_hex hx)))
  | ["INT"; hx] ->
      (match py_int (bytes_of_hex hx) with Some z -> string_of_bytes (decZ z) | None -> "VE")
  | ["STRIP"; hx] -> hex_of_bytes (strip (bytes_of_hex hx))
  | ["SPLIT"; sep; k; hx] ->
      (match bytes_of_hex sep with
       | [c] -> String.concat "," (List.map hex_of_bytes (split_on c (nat_of_int (int_of_string k)) (bytes_of_hex hx)))
       | _ -> failwith "sep")
  | ["CHUNKS"; lim; hx] ->
      String.concat "," (List.map hex_of_bytes (chunks (lim_of lim) (bytes_of_hex hx)))
  | _ -> "ERROR bad command"
let () = main_loop handle
