(* stream-core driver (C01, C02, C06, C08, C09).
   RUN maxc lbs ev ev ...   events:
     A:<hexpayload>                       client accept
     C:<c|s>:<fid>:<conn>:<recv>:<send>:<shut>   Proxy.callback
         conn: d done | p in-progress | k already-connected | n net error | x other
         recv: a again | e eof | x error | <hex> data
         send: a again | n<k> accept k | p EPIPE | x other error
         shut: 1 ok | 0 error
     P:<c|s>:<fid>                        Proxy.pre_select   (prints wait set at next S)
     F:<c|s>                              flush one frame
     D:<c|s>:<conn>:<shut>                deliver next frame
     K:<c|s>                              check_fullness
     R:<c|s>:<fid>                        remove dead handler
     S                                    snapshot (state printed)
     Y:<c|s>:<r><w><l>:<fids|->          not a micro-step: what the main select() of the iteration reported
                                          (tunnel readable / writable, a listener, the sockets of these flows);
                                          at the next S the logged micro-steps since the previous S are compared
                                          with Model/StreamLoop.iter_events_v for these answers, and
                                          Model/StreamLoop.sleepsb_v of that end at the previous S is printed:
                                          " || sleep=<af><fx> || iter=<af><fx>" (runonce as found / repaired;
                                          "--" when there was no Y)
   output: snapshots joined by " ## "; "CRASH <cls> <index>" ends the run *)
let side_of = function "c" -> Client | "s" -> Server | _ -> failwith "side"
let conn_of = function
  | "d" -> ConnDone | "p" -> ConnErr EInProgress | "k" -> ConnErr EConnected
  | "n" -> ConnErr ENet | "x" -> ConnErr EOtherErr | _ -> failwith "conn"
let recv_of = function
  | "a" -> RecvAgain | "e" -> RecvEof | "x" -> RecvErr | h -> RecvData (bytes_of_hex h)
let send_of s =
  if s = "a" then SendAgain else if s = "p" then SendErr EPipe else if s = "x" then SendErr EOtherErr
  else if s.[0] = 'n' then SendAccept (n_of_int (int_of_string (String.sub s 1 (String.length s - 1))))
  else failwith "send"
let io_default = { io_conn = ConnDone; io_recv = RecvAgain; io_send = SendAgain; io_shut_ok = true }
let digest (l : ascii list) : string =
  let a = ref 1 and b = ref 0 and n = ref 0 in
  List.iter (fun c -> a := (!a + int_of_ascii c) mod 65521; b := (!b + !a) mod 65521; incr n) l;
  Printf.sprintf "%d.%d.%d" !n !a !b
let bl b = if b then "1" else "0"
let cmd_str = function
  | CPing -> "PING" | CPong -> "PONG" | CConnect -> "CONNECT" | CStop -> "STOP" | CEof -> "EOF"
  | CData -> "DATA" | COther c -> "OTHER" ^ string_of_int (int_of_n c)
let frame_str f = Printf.sprintf "%d,%s,%s" (int_of_n f.sf_ch) (cmd_str f.sf_cmd) (digest f.sf_data)
let frames_str l = String.concat ";" (List.map frame_str l)
let bufs_str l = String.concat "," (List.map digest l)
let rec range a b = if a >= b then [] else a :: range (a + 1) b
let end_str (e : endpt) =
  let n = int_of_n e.e_next in
  let x = e.e_mux in
  let chans = List.sort_uniq compare (List.concat (List.map (fun i ->
      match e.e_prox (n_of_int i) with Some p -> [int_of_n p.p_m.m_chan] | None -> []) (range 0 n))) in
  let chan_s = String.concat "," (List.map (fun c ->
      Printf.sprintf "%d=%s" c (match x.x_chan (n_of_int c) with Some f -> string_of_int (int_of_n f) | None -> "-")) chans) in
  let prox_s = String.concat " " (List.map (fun i ->
      match e.e_prox (n_of_int i) with
      | None -> Printf.sprintf "%d:none" i
      | Some p ->
        if p.p_removed then Printf.sprintf "%d:removed" i else
        Printf.sprintf "%d:ok%s|s:%s%s%s[%s]x%s|m:%d,%s%s[%s]" i (bl p.p_ok)
          (bl p.p_s.s_conn) (bl p.p_s.s_sr) (bl p.p_s.s_sw) (bufs_str p.p_s.s_buf) (bl p.p_s.s_exc)
          (int_of_n p.p_m.m_chan) (bl p.p_m.m_sr) (bl p.p_m.m_sw) (bufs_str p.p_m.m_buf)) (range 0 n)) in
  Printf.sprintf "out=[%s] chan={%s} chani=%d full=%d tf=%s prox{%s}"
    (frames_str x.x_out) chan_s (int_of_n x.x_chani) (int_of_n x.x_full) (bl x.x_too_full) prox_s
let hist_str (e : endpt) =
  let n = int_of_n e.e_next in
  String.concat " " (List.map (fun i ->
      match e.e_prox (n_of_int i) with
      | None -> "" | Some p -> Printf.sprintf "%d:rd=%s,wr=%s" i (digest p.p_s.s_rd) (digest p.p_s.s_wr)) (range 0 n))
let wait_str l = String.concat "" (List.map (function WSockR -> "r" | WSockW -> "w" | WMuxR -> "R" | WMuxW -> "W") l)
let world_str w waits =
  Printf.sprintf "CL %s || SV %s || cs=[%s] sc=[%s] || hist CL %s SV %s || waits %s || stale=%s || quiet=%s%s"
    (end_str w.w_cl) (end_str w.w_sv) (frames_str w.w_cs) (frames_str w.w_sc)
    (hist_str w.w_cl) (hist_str w.w_sv) waits (bl w.w_stale) (bl (quiescentb w)) (bl (quiescent_eagerb w))
let crash_str = function
  | CrAssertConnect -> "AssertionError" | CrReraise -> "OSError" | CrUnknownCmd -> "Exception" | CrBadEvent -> "BADEVENT"
let parse_ev s =
  match String.split_on_char ':' s with
  | ["A"; h] -> EvAccept (bytes_of_hex h)
  | ["C"; sd; fid; c; r; sn; sh] ->
      EvCallback (side_of sd, n_of_int (int_of_string fid),
                  { io_conn = conn_of c; io_recv = recv_of r; io_send = send_of sn; io_shut_ok = (sh = "1") })
  | ["P"; sd; fid] -> EvPreSelect (side_of sd, n_of_int (int_of_string fid))
  | ["F"; sd] -> EvFlush (side_of sd)
  | ["D"; sd; c; sh] -> EvDeliver (side_of sd, { io_default with io_conn = conn_of c; io_shut_ok = (sh = "1") })
  | ["K"; sd] -> EvCheckFull (side_of sd)
  | ["R"; sd; fid] -> EvRemove (side_of sd, n_of_int (int_of_string fid))
  | _ -> failwith ("bad event " ^ s)
(* one real iteration against Model/StreamLoop.iter_events.  y: the Y marker; evs: the micro-steps logged between the
   two S marks, in order; w0: the model state at the first of them *)
let iter_check (y : string) (evs : event list) (w0 : world) : string =
  match String.split_on_char ':' y with
  | ["Y"; sd; flags; socks] when String.length flags = 3 ->
      let sd = side_of sd in
      let ready = if socks = "-" then [] else List.map int_of_string (String.split_on_char ',' socks) in
      let lat = List.exists (function EvCheckFull _ -> true | _ -> false) evs in
      (* Mux.callback calls: D* then at most one F, each *)
      let calls = ref [] and cur = ref [] and open_ = ref false in
      List.iter (function
        | EvDeliver (_, o) -> cur := o :: !cur; open_ := true
        | EvFlush _ -> calls := (List.rev !cur, true) :: !calls; cur := []; open_ := false
        | _ -> ()) evs;
      if !open_ then calls := (List.rev !cur, false) :: !calls;
      let calls = Array.of_list (List.rev !calls) in
      let cbs = Hashtbl.create 16 in
      List.iter (function
        | EvCallback (_, f, o) -> let k = int_of_n f in
            Hashtbl.replace cbs k ((try Hashtbl.find cbs k with Not_found -> []) @ [o])
        | _ -> ()) evs;
      let a = { a_lis = (flags.[2] = '1');
                a_acc = List.concat (List.map (function EvAccept p -> [p] | _ -> []) evs);
                a_r = (flags.[0] = '1'); a_w = (flags.[1] = '1');
                a_mux = (fun k -> let k = int_of_nat k in if k < Array.length calls then calls.(k) else ([], false));
                a_sock = (fun f -> List.mem (int_of_n f) ready);
                a_io = (fun f k -> let l = (try Hashtbl.find cbs (int_of_n f) with Not_found -> []) in
                                   let k = int_of_nat k in if k < List.length l then List.nth l k else io_default) } in
      (* one pass per variant; the two variants differ only when a late STOP_SENDING is due *)
      let pe = pass_events sd w0 in
      let one fx = (match presel_pass_v fx sd w0 with
                    | Ok po -> (bl (sleeps_of (fun _ -> fd_cand) sd po),
                                bl (pe @ iter_rest lat sd a po = evs && ans_real_po sd a po))
                    | Crash _ -> ("0", "0")) in
      let (s0, i0) = one false in
      let (s1, i1) = if no_late_stopb sd w0 then (s0, i0) else one true in
      s0 ^ s1 ^ " || iter=" ^ i0 ^ i1
  | _ -> "?? || iter=??"
let handle = function
  | "RUN" :: maxc :: lbs :: evs ->
      let w = ref (world0 (n_of_int (int_of_string maxc)) (n_of_int (int_of_string lbs))) in
      let out = ref [] in
      let waits = ref [] in
      let idx = ref 0 in
      let seg = ref [] and ymark = ref "" and w_start = ref !w in
      (try
        List.iter (fun s ->
          if s = "S" then begin
            let it = if !ymark = "" then "-- || iter=--" else iter_check !ymark (List.rev !seg) !w_start in
            out := (world_str !w (String.concat "," (List.rev !waits)) ^ " || sleep=" ^ it) :: !out; waits := [];
            seg := []; ymark := ""; w_start := !w
          end else if String.length s > 1 && s.[0] = 'Y' then ymark := s
          else begin
            let ev = parse_ev s in
            (match ev with
             | EvPreSelect (sd, fid) ->
                 let e = (match sd with Client -> !w.w_cl | Server -> !w.w_sv) in
                 (match e.e_prox fid with
                  | Some p -> let ((_, _), ws) = proxy_pre_select sd fid p e.e_mux in
                              waits := wait_str ws :: !waits
                  | None -> ())
             | _ -> ());
            seg := ev :: !seg;
            (match step !w ev with
             | Ok w' -> w := w'
             | Crash c -> out := Printf.sprintf "CRASH %s %d" (crash_str c) !idx :: !out; raise Exit)
          end;
          incr idx) evs
      with Exit -> ());
      String.concat " ## " (List.rev !out)
  | _ -> "ERROR bad command"
let () = main_loop handle
