(* C17 driver: one case per line; every text argument travels as hex ("-" = empty).
   RE hex            -> NONE | p1.p2..[/w]        (groups of the _ipmatch regular expression)
   IPM hex           -> NONE | OK ip width | CRASH cls
   INT s|b hex       -> OK z | CRASH cls         (int(str) / int(bytes))
   MB NONE | MB ip   -> n                         (_maskbits)
   IPR hex / NST hex / WIN hex -> NONE | OK ip w mask | CRASH cls   (_route_iproute / _route_netstat / _route_windows)
   tool: ip | netstat | none | win
   WORDS hex         -> w1hex w2hex ...           (str.split(None))
   LR tool hex       -> <repaired> | <as found>   each: OK ip/w,ip/w,... | CRASH cls   (_list_routes)
   ADV tool hex      -> <repaired> | <as found>   each: OK payloadhex | CRASH cls    (list_routes + ROUTES + Mux.send)
   ONR a v4 v6 hex   -> started exn fam,ip,w;...  (client onroutes)
   RT a v4 v6 tool hex -> server_advertise then client_receive: same format as ONR, or SERVER-CRASH cls *)
let exn_str = function
  | ValueError -> "ValueError" | OSError -> "OSError" | IndexError -> "IndexError"
  | OverflowError -> "OverflowError" | UnicodeDecodeError -> "UnicodeDecodeError"
  | AssertionError -> "AssertionError" | StructError -> "error"
let str_of (l : ascii list) : string =
  let b = Buffer.create 64 in
  List.iter (fun a -> Buffer.add_char b (Char.chr (int_of_ascii a))) l; Buffer.contents b
let zs z = str_of (decZ z)
let ns n = str_of (dec n)
let tool_of = function "ip" -> IpRoute | "netstat" -> Netstat | "none" -> NoTool | "win" -> RouteWin | s -> failwith ("bad tool " ^ s)
let route_str r = Printf.sprintf "%s/%s" (str_of r.r_ip) (zs r.r_width)
let routes_res = function
  | Ok rs -> "OK " ^ String.concat "," (List.map route_str rs)
  | Crash e -> "CRASH " ^ exn_str e
let extract_str = function
  | Ok None -> "NONE"
  | Ok (Some ((ip, w), m)) -> Printf.sprintf "OK %s %s %s" (ns ip) (zs w) (zs m)
  | Crash e -> "CRASH " ^ exn_str e
let bytes_res = function
  | Ok b -> "OK " ^ hex_of_bytes b
  | Crash e -> "CRASH " ^ exn_str e
let outcome_str o =
  Printf.sprintf "%d %s %s" (if o.fw_started then 1 else 0)
    (match o.failed with None -> "-" | Some e -> exn_str e)
    (match o.added with [] -> "-" | l ->
      String.concat ";" (List.map (fun n -> Printf.sprintf "%s,%s,%s" (zs n.n_family) (hex_of_bytes n.n_ip) (zs n.n_width)) l))
let flag s = s = "1"
let handle = function
  | ["RE"; hx] ->
      (match ipmatch_re (bytes_of_hex hx) with
       | None -> "NONE"
       | Some (ps, w) -> String.concat "." (List.map str_of ps) ^ (match w with None -> "" | Some d -> "/" ^ str_of d))
  | ["IPM"; hx] ->
      (match ipmatch (bytes_of_hex hx) with
       | Ok None -> "NONE"
       | Ok (Some (ip, w)) -> Printf.sprintf "OK %s %s" (ns ip) (zs w)
       | Crash e -> "CRASH " ^ exn_str e)
  | ["INT"; k; hx] ->
      (match py_int (if k = "s" then is_space_s else is_space_b) (bytes_of_hex hx) with
       | Ok z -> "OK " ^ zs z | Crash e -> "CRASH " ^ exn_str e)
  | ["MB"; "NONE"] -> zs (maskbits None)
  | ["MB"; ip] -> zs (maskbits (Some (n_of_int (int_of_string ip), z_of_int 32)))
  | ["IPR"; hx] -> extract_str (route_iproute (bytes_of_hex hx))
  | ["NST"; hx] -> extract_str (route_netstat (bytes_of_hex hx))
  | ["WIN"; hx] -> extract_str (route_windows (bytes_of_hex hx))
  | ["WORDS"; hx] -> String.concat " " (List.map hex_of_bytes (words (bytes_of_hex hx)))
  | ["LR"; t; hx] ->
      let b = bytes_of_hex hx in
      routes_res (raw_routes (tool_of t) b) ^ " | " ^ routes_res (raw_routes_asfound (tool_of t) b)
  | ["ADV"; t; hx] ->
      let b = bytes_of_hex hx in
      bytes_res (match list_routes (tool_of t) b with Ok rs -> (match send_routes rs with Ok _ -> Ok (render_routes rs) | Crash e -> Crash e) | Crash e -> Crash e)
      ^ " | " ^
      bytes_res (match list_routes_asfound (tool_of t) b with Ok rs -> (match send_routes rs with Ok _ -> Ok (render_routes rs) | Crash e -> Crash e) | Crash e -> Crash e)
  | ["ONR"; a; v4; v6; hx] -> outcome_str (onroutes (flag a) (flag v4) (flag v6) (bytes_of_hex hx))
  | ["RT"; a; v4; v6; t; hx] ->
      (match server_advertise (tool_of t) (bytes_of_hex hx) with
       | Crash e -> "SERVER-CRASH " ^ exn_str e
       | Ok wire -> (match client_receive (flag a) (flag v4) (flag v6) wire with
                     | None -> "CLIENT-NO-ROUTES-FRAME"
                     | Some o -> outcome_str o))
  | _ -> "ERROR bad command"
let () = main_loop handle
