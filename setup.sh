#!/bin/bash
# setup_cmd: build the whole Coq development (full .vo) and every extracted driver, offline.
set -e
cd "$(dirname "$0")"
export PYTHONPATH=/repo PYTHONHASHSEED=0 PYTHONDONTWRITEBYTECODE=1
mkdir -p evidence replays bin build
exec /venv/bin/python harness/build.py
