#!/bin/bash
# usage: seed_eval.sh <seed-id> <dir with patch.diff demo.py> <check ids...>
# applies the seeded change to /repo, confirms suite passes + demo fails, runs the checks, reverts.
sid="$1"; dir="$2"; shift 2
cd /repo || exit 2
if [ -n "$(git status --porcelain)" ]; then echo "REPO DIRTY"; exit 2; fi
git apply "$dir/patch.diff" || { echo "PATCH DOES NOT APPLY"; exit 2; }
trap 'git -C /repo checkout -- . ; git -C /repo clean -fdq' EXIT
t=$(/venv/bin/python -m pytest -q -p no:cacheprovider --timeout=900 2>&1 | tail -1)
echo "suite(with change): $t"
PYTHONPATH=/repo timeout 300 /venv/bin/python "$dir/demo.py" >/tmp/seed_demo_out.txt 2>&1; echo "demo(with change) rc=$? : $(tail -1 /tmp/seed_demo_out.txt | cut -c1-150)"
for c in "$@"; do
  out=$(cd /verif && timeout 1500 ./check $c 2>&1); rc=$?
  echo "check $c rc=$rc :: $(echo "$out" | grep -c '^VIOLATION') violation line(s)"
  echo "$out" | grep '^VIOLATION' | head -3
  for r in $(echo "$out" | grep '^VIOLATION' | sed 's/.*replay=\([^ ]*\).*/\1/' | head -2); do
     python3 -c "import json,sys; d=json.load(open('$r')); print('   what:', str(d.get('what') or d.get('broken'))[:300])"
  done
done
git -C /repo checkout -- . ; git -C /repo clean -fdq
PYTHONPATH=/repo timeout 300 /venv/bin/python "$dir/demo.py" >/tmp/seed_demo_out.txt 2>&1; echo "demo(original) rc=$?"
