#!/usr/bin/env python3
"""Build steps shared by setup.sh and ./check: regenerate Gen/Consts.v from
/repo, (re)generate the coq Makefile, build .vo targets (full .vo, never -vos),
build extracted OCaml drivers.  Everything is serialised with a lock file so
concurrent checks do not trample each other's build output."""
import fcntl
import glob
import os
import subprocess
import sys
import time

ROOT = os.path.dirname(os.path.dirname(os.path.abspath(__file__)))
COQ = os.path.join(ROOT, "coq")
BIN = os.path.join(ROOT, "bin")
BUILD = os.path.join(ROOT, "build")
DRIVERS = os.path.join(ROOT, "drivers")
SUBDIRS = ["Lib", "Gen", "Model", "Proofs", "Props", "Extract"]

FORBIDDEN = ["Admitted", "admit.", "Axiom ", "Parameter ", "Conjecture ", "Unset Guard",
             "bypass_check", "Admit Obligations", "Unset Positivity", "Unset Universe Checking",
             "type-in-type", "impredicative-set", "native_compute"]


class BuildError(Exception):
    def __init__(self, stage, log):
        Exception.__init__(self, "%s failed" % stage)
        self.stage = stage
        self.log = log


class Lock:
    def __enter__(self):
        os.makedirs(BUILD, exist_ok=True)
        self.f = open(os.path.join(BUILD, ".lock"), "w")
        fcntl.flock(self.f, fcntl.LOCK_EX)
        return self

    def __exit__(self, *a):
        fcntl.flock(self.f, fcntl.LOCK_UN)
        self.f.close()


def run(cmd, cwd=None, timeout=3600, env=None):
    p = subprocess.run(cmd, cwd=cwd, stdout=subprocess.PIPE, stderr=subprocess.STDOUT,
                       timeout=timeout, env=env)
    return p.returncode, p.stdout.decode("utf-8", "replace")


def gen_consts():
    rc, out = run([sys.executable, os.path.join(ROOT, "harness", "gen_consts.py")])
    if rc != 0:
        raise BuildError("gen_consts", out)


def v_files():
    fs = []
    for d in SUBDIRS:
        fs += sorted(f for f in glob.glob(os.path.join(COQ, d, "*.v")) if not f.endswith("_wip.v"))
    return [os.path.relpath(f, COQ) for f in fs]


def scan_forbidden():
    bad = []
    for rel in v_files():
        with open(os.path.join(COQ, rel)) as f:
            for i, line in enumerate(f, 1):
                code = line.split("(*")[0]
                for tok in FORBIDDEN:
                    if tok in code:
                        bad.append("%s:%d: %s" % (rel, i, tok.strip()))
    if bad:
        raise BuildError("forbidden-construct scan", "\n".join(bad))


def ensure_makefile():
    files = v_files()
    proj = "-Q . SV\n" + "\n".join(files) + "\n"
    pp = os.path.join(COQ, "_CoqProject")
    old = open(pp).read() if os.path.exists(pp) else None
    if old != proj or not os.path.exists(os.path.join(COQ, "Makefile")):
        with open(pp, "w") as f:
            f.write(proj)
        rc, out = run(["coq_makefile", "-f", "_CoqProject", "-o", "Makefile"], cwd=COQ)
        if rc != 0:
            raise BuildError("coq_makefile", out)


def coq_make(targets=None, jobs=16, timeout=3000):
    """targets: list like ['Props/C07.vo'] or None for everything."""
    ensure_makefile()
    cmd = ["timeout", str(timeout), "make", "-j%d" % jobs]
    if targets:
        cmd += targets
    rc, out = run(cmd, cwd=COQ, timeout=timeout + 60)
    if rc != 0:
        raise BuildError("coq make %s" % (" ".join(targets or ["all"])), out)
    return out


def newer(src_list, dst):
    if not os.path.exists(dst):
        return True
    t = os.path.getmtime(dst)
    return any(os.path.getmtime(s) > t for s in src_list)


def build_driver(prop):
    """prop: 'c07' -> bin/c07_driver from coq/c07_model.ml{,i} + drivers/c07_driver.ml"""
    low = prop.lower()
    ml = os.path.join(COQ, "%s_model.ml" % low)
    mli = os.path.join(COQ, "%s_model.mli" % low)
    drv = os.path.join(DRIVERS, "%s_driver.ml" % low)
    common = os.path.join(DRIVERS, "common.ml.in")
    out = os.path.join(BIN, "%s_driver" % low)
    for f in (ml, mli, drv):
        if not os.path.exists(f):
            raise BuildError("driver %s" % low, "missing %s" % f)
    if not newer([ml, mli, drv, common], out):
        return out
    bdir = os.path.join(BUILD, low)
    os.makedirs(bdir, exist_ok=True)
    os.makedirs(BIN, exist_ok=True)
    modname = "%s_model" % low
    for f in (ml, mli):
        with open(f) as src, open(os.path.join(bdir, os.path.basename(f)), "w") as dst:
            dst.write(src.read())
    with open(os.path.join(bdir, "%s_main.ml" % low), "w") as f:
        f.write("open %s\n" % modname.capitalize())
        f.write(open(common).read())
        f.write("\n")
        f.write(open(drv).read())
    rc, o = run(["ocamlfind", "ocamlopt", "-O2", "-w", "-a", "-package", "str", "-linkpkg",
                 "%s.mli" % modname, "%s.ml" % modname, "%s_main.ml" % low, "-o", out], cwd=bdir)
    if rc != 0:
        rc, o = run(["ocamlfind", "ocamlopt", "-w", "-a", "-package", "str", "-linkpkg",
                     "%s.mli" % modname, "%s.ml" % modname, "%s_main.ml" % low, "-o", out], cwd=bdir)
    if rc != 0:
        raise BuildError("ocaml driver %s" % low, o)
    return out


def all_props():
    return sorted(os.path.basename(f)[:-2] for f in glob.glob(os.path.join(COQ, "Props", "C*.v")))


def build_for(prop, driver_prop=None):
    """Everything ./check <prop> needs, rebuilt from the current /repo.
    driver_prop: property whose extraction/driver is shared (e.g. the stream core's C01)."""
    dp = driver_prop or prop
    with Lock():
        gen_consts()
        scan_forbidden()
        targets = ["Props/%s.vo" % prop]
        ext = os.path.join(COQ, "Extract", "%s_extract.v" % dp)
        if os.path.exists(ext):
            targets.append("Extract/%s_extract.vo" % dp)
        coq_make(targets)
        if os.path.exists(ext):
            return build_driver(dp)
    return None


def build_all():
    with Lock():
        gen_consts()
        scan_forbidden()
        coq_make(None)
        for prop in all_props():
            if os.path.exists(os.path.join(COQ, "Extract", "%s_extract.v" % prop)):
                build_driver(prop)


if __name__ == "__main__":
    t0 = time.time()
    try:
        if len(sys.argv) > 1:
            for p in sys.argv[1:]:
                build_for(p)
        else:
            build_all()
    except BuildError as e:
        sys.stderr.write("BUILD ERROR in %s:\n%s\n" % (e.stage, e.log[-4000:]))
        sys.exit(1)
    print("build ok in %.1fs" % (time.time() - t0))
