#!/usr/bin/env python3
"""Regenerate coq/Gen/Consts.v from /repo's current sources (fail-closed).

Extracted with Python's ast:
  ssnet.py   : MAX_CHANNEL, LATENCY_BUFFER_SIZE, HDR_LEN, CMD_*, NET_ERRS, SHUT_*
  client.py  : the `expected = b'...'` literal in _main
  server.py  : the literal written by sys.stdout.write(...) in main
  options.py : method_choices (the non-win32 branch)
  firewall.py: the hosts-file marker format, readline limit
Any unrecognised shape is reported (exit status 2) and the caller reports a broken correspondence.

The file is generated section by section.  When one section's shape is not recognised, that section is taken
from harness/consts_committed.v — the constants of the last committed state of /repo, kept under version control
(refreshed with `gen_consts.py --snapshot`, and automatically after a clean generation from /repo itself) — so
that the model can still be built and the search for a failing input can still run; the exit status stays 2 and
the message names the section: the tie to the source is broken and is reported as such.
"""
import ast
import errno
import os
import sys

REPO = os.environ.get("VERIF_REPO", "/repo")
COMMITTED = os.path.join(os.path.dirname(os.path.abspath(__file__)), "consts_committed.v")
MARK = "(* section: %s *)"


class Shape(Exception):
    pass


def parse(rel):
    p = os.path.join(REPO, rel)
    with open(p, "rb") as f:
        return ast.parse(f.read(), p)


def const_int(node):
    if isinstance(node, ast.Constant) and isinstance(node.value, int) and not isinstance(node.value, bool):
        return node.value
    raise Shape("not an int literal: %s" % ast.dump(node))


def module_assigns(tree):
    out = {}
    for st in tree.body:
        if isinstance(st, ast.Assign) and len(st.targets) == 1 and isinstance(st.targets[0], ast.Name):
            out[st.targets[0].id] = st.value
    return out


def coq_bytes(b):
    return "[" + "; ".join("ascii_of_N %d" % c for c in b) + "]"


def coq_str_list(xs):
    return "[" + "; ".join('"%s"%%string' % x for x in xs) + "]"


def find_func(tree, name):
    for st in ast.walk(tree):
        if isinstance(st, ast.FunctionDef) and st.name == name:
            return st
    raise Shape("function %s not found" % name)


def sec_ssnet(w):
    a = module_assigns(parse("sshuttle/ssnet.py"))
    for k in ("MAX_CHANNEL", "LATENCY_BUFFER_SIZE", "HDR_LEN", "SHUT_RD", "SHUT_WR", "SHUT_RDWR"):
        if k not in a:
            raise Shape("ssnet.%s missing" % k)
        w("Definition %s : N := %d." % (k, const_int(a[k])))
    cmds = sorted((k, const_int(v)) for k, v in a.items() if k.startswith("CMD_"))
    if len(cmds) < 15:
        raise Shape("expected >= 15 CMD_ constants, found %d" % len(cmds))
    for k, v in cmds:
        w("Definition %s : N := %d." % (k, v))
    w("Definition all_cmds : list N := [%s]." % "; ".join(k for k, _ in cmds))
    ne = a.get("NET_ERRS")
    if not isinstance(ne, ast.List):
        raise Shape("ssnet.NET_ERRS is not a list literal")
    names = []
    for e in ne.elts:
        if isinstance(e, ast.Attribute) and isinstance(e.value, ast.Name) and e.value.id == "errno":
            names.append(e.attr)
        else:
            raise Shape("NET_ERRS element: %s" % ast.dump(e))
    w("(* NET_ERRS = %s (numeric values of this platform) *)" % ", ".join(names))
    w("Definition NET_ERRS : list N := [%s]." % "; ".join(str(getattr(errno, n)) for n in names))
    for n in ("EAGAIN", "EWOULDBLOCK", "EPIPE", "EACCES", "EPERM", "EINPROGRESS", "EALREADY",
              "EISCONN", "EINVAL", "EMFILE", "ENFILE", "ECONNREFUSED", "ECONNRESET", "ENOTCONN",
              "EADDRINUSE", "EADDRNOTAVAIL", "ENOPROTOOPT", "ENOENT"):
        w("Definition %s : N := %d." % (n, getattr(errno, n)))


def sec_client_sync(w):
    # ---- client.py: expected sync string
    ct = parse("sshuttle/client.py")
    fn = find_func(ct, "_main")
    exp = None
    for st in ast.walk(fn):
        if isinstance(st, ast.Assign) and len(st.targets) == 1 and isinstance(st.targets[0], ast.Name) \
                and st.targets[0].id == "expected":
            if isinstance(st.value, ast.Constant) and isinstance(st.value.value, bytes):
                exp = st.value.value
    if exp is None:
        raise Shape("client._main: `expected = b'...'` not found")
    w("Definition client_sync : list ascii := %s." % coq_bytes(exp))


def sec_server_sync(w):
    # ---- server.py: first stdout write in main
    stree = parse("sshuttle/server.py")
    fn = find_func(stree, "main")
    srv = None
    for st in ast.walk(fn):
        if isinstance(st, ast.Call) and isinstance(st.func, ast.Attribute) and st.func.attr == "write" \
                and isinstance(st.func.value, ast.Attribute) and st.func.value.attr == "stdout":
            if st.args and isinstance(st.args[0], ast.Constant) and isinstance(st.args[0].value, str):
                srv = st.args[0].value.encode("latin-1")
                break
    if srv is None:
        raise Shape("server.main: sys.stdout.write('<sync>') not found")
    w("Definition server_sync : list ascii := %s." % coq_bytes(srv))


def sec_method_choices(w):
    # ---- options.py: method choices
    ot = parse("sshuttle/options.py")
    choices = None
    for st in ast.walk(ot):
        if isinstance(st, ast.If):
            for br in (st.body, st.orelse):
                for s2 in br:
                    if isinstance(s2, ast.Assign) and isinstance(s2.targets[0], ast.Name) \
                            and s2.targets[0].id == "method_choices" and br is st.orelse:
                        if isinstance(s2.value, ast.List):
                            choices = [e.value for e in s2.value.elts]
    if choices is None:
        raise Shape("options.method_choices (else branch) not found")
    w("Definition method_choices : list string := %s." % coq_str_list(choices))


def sec_hosts_marker(w):
    # ---- firewall.py: marker
    ft = parse("sshuttle/firewall.py")
    fn = find_func(ft, "rewrite_etc_hosts")
    marker = None
    for st in ast.walk(fn):
        if isinstance(st, ast.Assign) and isinstance(st.targets[0], ast.Name) and st.targets[0].id == "APPEND":
            v = st.value
            if isinstance(v, ast.BinOp) and isinstance(v.op, ast.Mod) and isinstance(v.left, ast.Constant):
                marker = v.left.value
    if marker is None or marker.count("%d") != 1:
        raise Shape("firewall.rewrite_etc_hosts: APPEND = '...%d...' % port not found")
    pre, post = marker.split("%d")
    w("Definition hosts_marker_pre : list ascii := %s." % coq_bytes(pre.encode()))
    w("Definition hosts_marker_post : list ascii := %s." % coq_bytes(post.encode()))


def sec_fw_readline(w):
    # ---- firewall.py: readline limit
    ft = parse("sshuttle/firewall.py")
    fn = find_func(ft, "main")
    lim = "absent"
    for st in ast.walk(fn):
        if isinstance(st, ast.Call) and isinstance(st.func, ast.Attribute) and st.func.attr == "readline":
            lim = const_int(st.args[0]) if st.args else None
    if lim == "absent":
        raise Shape("firewall.main: stdin.readline(...) not found")
    # None = the helper reads whole lines (no per-line byte limit)
    w("Definition fw_readline_limit : option N := %s." % ("None" if lim is None else "Some %d" % lim))


SECTIONS = [("ssnet", sec_ssnet), ("client_sync", sec_client_sync), ("server_sync", sec_server_sync),
            ("method_choices", sec_method_choices), ("hosts_marker", sec_hosts_marker), ("fw_readline", sec_fw_readline)]


def committed_sections():
    """{section name: [lines]} of the committed constants ({} if the file is missing or unreadable)"""
    out, cur = {}, None
    try:
        with open(COMMITTED) as f:
            for line in f.read().split("\n"):
                if line.startswith("(* section: ") and line.endswith(" *)"):
                    cur = line[len("(* section: "):-len(" *)")]
                    out[cur] = []
                elif cur is not None and line.strip():
                    out[cur].append(line)
    except OSError:
        return {}
    return out


def gen():
    """returns (text of Consts.v or None, the same text with section markers (the form kept as committed copy),
    [(section, reason)] that could not be extracted from the sources)"""
    head = ["(* GENERATED by harness/gen_consts.py from %s — do not edit *)" % REPO,
            "From Coq Require Import List NArith ZArith Ascii String.",
            "Import ListNotations.",
            "Local Open Scope N_scope.",
            ""]
    plain, marked = list(head), list(head)
    failed, fallback = [], None
    for name, fn in SECTIONS:
        lines = []
        try:
            fn(lines.append)
        except (Shape, SyntaxError, OSError) as e:
            failed.append((name, str(e)))
            if fallback is None:
                fallback = committed_sections()
            if name not in fallback:
                return None, None, failed
            lines = ["(* NOT extracted from %s (%s): taken from the committed constants *)" % (REPO, str(e).replace("*)", "* )"))]
            lines += fallback[name]
        plain.extend(lines)
        marked.append(MARK % name)
        marked.extend(lines)
    plain.append("")
    marked.append("")
    return "\n".join(plain), "\n".join(marked), failed


def write_if_changed(dst, text):
    old = None
    try:
        with open(dst) as f:
            old = f.read()
    except OSError:
        pass
    if old != text:
        with open(dst, "w") as f:
            f.write(text)


def main():
    args = [a for a in sys.argv[1:] if a != "--snapshot"]
    dst = args[0] if args else os.path.join(os.path.dirname(__file__), "..", "coq", "Gen", "Consts.v")
    text, marked, failed = gen()
    for name, why in failed:
        sys.stderr.write("gen_consts: cannot extract constants: %s\n" % why)
    if text is None:
        sys.stderr.write("gen_consts: no committed constants to fall back on (%s)\n" % COMMITTED)
        return 2
    write_if_changed(dst, text)
    if failed:
        sys.stderr.write("gen_consts: section(s) %s taken from the committed constants %s so that the search for a failing "
                         "input can run; the tie to the source is broken\n" % (", ".join(n for n, _ in failed), COMMITTED))
        return 2
    if "--snapshot" in sys.argv[1:] or os.path.realpath(REPO) == "/repo":
        # the committed copy follows /repo's own constants (and only those: never a scratch tree's)
        write_if_changed(COMMITTED, marked.replace("from %s " % REPO, "from /repo ", 1))
    return 0


if __name__ == "__main__":
    sys.exit(main())
