#!/bin/bash
# usage: apply_fix.sh Fnn   — applies pending_fixes/Fnn.diff to /repo as one "fix:" commit (message = Fnn.md)
set -e
f="$1"
cd /repo
git apply --check /verif/pending_fixes/$f.diff
git apply /verif/pending_fixes/$f.diff
git add -A
git commit -q -F /verif/pending_fixes/$f.md
git log --oneline | head -1
