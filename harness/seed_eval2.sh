#!/bin/bash
# usage: seed_eval2.sh <mutated-worktree> <out-dir with patch.diff demo.py> <check ids...>
# Evaluates a seeded change WITHOUT touching /repo or /verif: runs the suite + demo in the mutated
# worktree, then the given checks from a scratch copy of /verif with VERIF_REPO=<worktree>.
tree="$1"; dir="$2"; shift 2
scratch=$(mktemp -d /tmp/verif-eval-XXXX)
trap 'rm -rf "$scratch"' EXIT
rsync -a --exclude .git --exclude replays /verif/ "$scratch/"
t=$(cd "$tree" && /venv/bin/python -m pytest -q -p no:cacheprovider --timeout=900 2>&1 | tail -1)
echo "suite(with change): $t"
PYTHONPATH="$tree" timeout 300 /venv/bin/python "$dir/demo.py" >"$scratch/demo_out.txt" 2>&1; echo "demo(with change) rc=$? : $(tail -1 "$scratch/demo_out.txt" | cut -c1-150)"
PYTHONPATH=/repo timeout 300 /venv/bin/python "$dir/demo.py" >"$scratch/demo_out.txt" 2>&1; echo "demo(original /repo) rc=$?"
for c in "$@"; do
  out=$(cd "$scratch" && VERIF_REPO="$tree" timeout 1500 ./check $c 2>&1); rc=$?
  echo "check $c rc=$rc :: $(echo "$out" | grep -c '^VIOLATION') violation line(s)"
  echo "$out" | grep '^VIOLATION' | head -3
  for r in $(echo "$out" | grep '^VIOLATION' | sed 's/.*replay=\([^ ]*\).*/\1/' | head -2); do
     python3 -c "import json,sys; d=json.load(open('$r')); print('   what:', str(d.get('what') or d.get('broken'))[:400])"
  done
done
