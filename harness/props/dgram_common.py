"""Shared machinery of the C10 / C11 checks (datagram core).

Runs the REAL sshuttle code inside a simulated boundary:
  client side: sshuttle.client.ondns / onaccept_udp / onaccept_tcp / dns_done / udp_done /
               expire_connections with a real ssnet.Mux on fake files, the real BaseMethod / tproxy
               Method (recv_udp fed from scripted recvfrom/recvmsg data - recvmsg answers like the kernel: control message
               cut to the buffer offered, MSG_CTRUNC - send_udp observed at the socket level), a virtual clock, server->client
               frames fed through mux.got_packet, and the end of TCP flows (noread + nowrite of the real MuxWrapper that
               onaccept_tcp created: the identifier stays in mux.channels with the value None);
  server side: the REAL server.main loop (with the real ssnet.runonce, Mux.callback/handle, DnsProxy,
               UdpProxy, dns_req/udp_open/udp_req closures and sweeps); select.select, the pipe files,
               socket.socket, getaddrinfo, get_random_nameserver and the clock are scripted; in the resolv.conf histories of
               C10 (run_c10_resolv) get_random_nameserver / resolvconf_nameservers are the REAL ones and only the file is scripted.
The same event scripts are rendered as lines for the extracted Coq model (drivers/c10_driver.ml)."""
import errno
import socket as real_socket
import struct
import sys
import time as real_time
import io as real_io
import select as real_select

CMD = {"Q": 0x420a, "R": 0x420b, "O": 0x420c, "D": 0x420d, "C": 0x420e, "X": 0x420b, "TCPDATA": 0x4206,
       "TCPCONNECT": 0x4203, "TCPSTOP": 0x4204, "TCPEOF": 0x4205}
NET_ERRS = [errno.ECONNREFUSED, errno.ETIMEDOUT, errno.EHOSTUNREACH, errno.ENETUNREACH, errno.EHOSTDOWN,
            errno.ENETDOWN, errno.ECONNABORTED, errno.ECONNRESET]
OTHER_ERRS = [errno.EPERM, errno.EACCES, errno.EMSGSIZE, errno.ENOBUFS, errno.EINVAL, errno.EADDRNOTAVAIL]


def hx(b):
    if isinstance(b, str):
        b = b.encode("latin-1")
    return bytes(b).hex() if b else "-"


def addr_s(a):
    """(ip, port[, flowinfo, scope_id]) -> <iphex>@<port>.  The peer of an AF_INET6 socket is a 4-tuple; a non-zero
    flowinfo / scope_id (a link-local peer is only reachable WITH its interface) is kept inside the token as
    ip%scope~flowinfo, so that two askers with the same host and port on different interfaces are different tokens for
    the oracles and for the model (which treats peers as opaque), and a reply sent to the bare (host, port) shows"""
    ip = a[0]
    if len(a) >= 4 and (a[2] or a[3]):
        sfx = "%%%d~%d" % (a[3], a[2])
        ip = ip + (sfx.encode() if isinstance(ip, bytes) else sfx)
    return "%s@%d" % (hx(ip), a[1])


def oaddr_s(a):
    return "~" if a is None else addr_s(a)


def exc_name(e):
    if isinstance(e, struct.error):
        return "struct.error"
    if isinstance(e, OSError):
        return "OSError"
    return type(e).__name__


# The virtual clock of a script counts seconds from 0.  The code under test sees it through BOTH clock sources of the
# `time` module, with different epochs as on a real machine: time.time() is a date (about 1.8e9), time.monotonic()
# is "seconds since boot".  Code that writes a deadline with one source and sweeps with the other therefore misbehaves
# here exactly as it would in reality.  Deadlines are rendered relative to WALL_EPOCH (the model counts from 0).
WALL_EPOCH = 1790000000
MONO_EPOCH = 345600


def clock_shim(world):
    """stands for the `time` module inside sshuttle.client / sshuttle.server"""
    return Shim(real_time,
                time=lambda: float(WALL_EPOCH + world.now),
                time_ns=lambda: (WALL_EPOCH + world.now) * 10 ** 9,
                monotonic=lambda: float(MONO_EPOCH + world.now),
                monotonic_ns=lambda: (MONO_EPOCH + world.now) * 10 ** 9,
                perf_counter=lambda: float(MONO_EPOCH + world.now),
                perf_counter_ns=lambda: (MONO_EPOCH + world.now) * 10 ** 9,
                sleep=lambda s: None)


def rel_t(t):
    """a deadline kept by the code under test, in virtual seconds"""
    return int(t) - WALL_EPOCH


class Shim:
    """a module look-alike: named attributes overridden, everything else delegated"""

    def __init__(self, real, **over):
        self.__dict__["_real"] = real
        self.__dict__.update(over)

    def __getattr__(self, name):
        return getattr(self._real, name)


class FakeR:
    def __init__(self):
        self.chunks = []

    def fileno(self):
        return 0

    def read(self, n=-1):
        if not self.chunks:
            return None
        c = self.chunks[0]
        if n < 0 or len(c) <= n:
            self.chunks.pop(0)
            return c
        self.chunks[0] = c[n:]
        return c[:n]


class FakeW:
    def fileno(self):
        return 1

    def write(self, b):
        return None

    def flush(self):
        pass


def parse_frames(bufs):
    out = []
    for p in bufs:
        s1, s2, ch, cmd, ln = struct.unpack("!ccHHH", bytes(p[:8]))
        out.append((ch, cmd, bytes(p[8:])))
    return out


# ======================================================================
# client side

def detect_fixes():
    """which of the repairs does the code under test contain?  Decided by the minimal
    witnesses on the real code (also used for the VIOLATION reports)."""
    res = {}
    r = run_client("B", 1, 2, [("D", 5, ("10.0.0.1", 1000), None, b"a"), ("D", 5, ("10.0.0.1", 1001), None, b"b")])
    res["F3"] = not r[-1].startswith("CRASH")
    r = run_client("B", 65535, 2, [("D", 5, ("10.0.0.1", 1000), None, b"a"), ("F", 1, "R", b"r", errno.ENETUNREACH)])
    res["F16"] = not r[-1].startswith("CRASH")
    r = run_server(None, [], [(5, [(7, "O", b"2", 0)], [], []), (6, [], [0], [("e", errno.ECONNREFUSED)])])
    res["F4"] = not r[-1].startswith("CRASH")
    r = run_server(("10.9.9.9", 53), [], [(5, [(7, "Q", b"q", 0)], [], [("e", errno.ENETUNREACH)])])
    res["F10"] = not r[-1].startswith("CRASH")
    r = run_server(None, [], [(5, [(7, "O", b"2", 0), (7, "C", b"", 0), (7, "O", b"2", 0)], [], [])])
    res["F80"] = r[-1] != "FATAL"
    return res


WITNESS = {
    "F3": {"side": "client", "method": "B", "maxc": 1, "family": 2,
           "events": [["D", 5, ["10.0.0.1", 1000], None, "61"], ["D", 5, ["10.0.0.1", 1001], None, "62"]],
           "what": "second DNS datagram while the only identifier is taken: next_channel() returns None, mux.send(None, ...) raises struct.error and the client dies"},
    "F16": {"side": "client", "method": "B", "maxc": 65535, "family": 2,
            "events": [["D", 5, ["10.0.0.1", 1000], None, "61"], ["F", 1, "R", "72", errno.ENETUNREACH]],
            "what": "sendto of the DNS reply to the asker fails with ENETUNREACH: the OSError escapes dns_done and kills the client"},
    "F3u": {"side": "client", "method": "T", "maxc": 1, "family": 2,
            "events": [["U", 5, ["10.0.0.1", 1000], ["8.8.8.8", 53], "61"], ["U", 5, ["10.0.0.1", 1001], ["8.8.8.8", 53], "62"]],
            "what": "UDP datagram from a second source while the only identifier is taken: next_channel() returns None, mux.send(None, ...) raises struct.error and the client dies"},
    "F16u": {"side": "client", "method": "T", "maxc": 65535, "family": 2,
             "events": [["U", 5, ["10.0.0.1", 1000], ["8.8.8.8", 53], "61"], ["F", 1, "D", "382e382e382e382c35332c72", errno.EADDRNOTAVAIL, 0]],
             "what": "bind() of the transparent reply socket fails with EADDRNOTAVAIL: the OSError escapes udp_done and kills the client"},
    "F4": {"side": "server", "to_ns": None, "sysns": [],
           "events": [[5, [[7, "O", "32", 0]], [], []], [6, [], [0], [["e", errno.ECONNREFUSED]]]],
           "what": "recvfrom on a UdpProxy socket fails with ECONNREFUSED: the except branch reads the unbound `peer`, UnboundLocalError kills the server"},
    "F10": {"side": "server", "to_ns": ["10.9.9.9", 53], "sysns": [],
            "events": [[5, [[7, "Q", "71", 0]], [], [["e", errno.ENETUNREACH]]]],
            "what": "connect() of the resolver socket fails with ENETUNREACH outside the try: the OSError escapes DnsProxy.__init__ and kills the server"},
    "F80": {"side": "server", "to_ns": None, "sysns": [],
            "events": [[5, [[1, "O", "32", 0], [1, "D", "382e382e382e382c35332c61", 0]], [], []],
                       [36, [[1, "C", "-", 0], [1, "O", "32", 0], [1, "D", "382e382e382e382c35332c62", 0]], [], []]],
            "what": "the client closes an idle UDP association and re-uses its identifier for the next one (all other identifiers busy): UDP_CLOSE and UDP_OPEN of the identifier reach the server in one read, udphandlers still holds the closed association until the sweep after runonce, udp_open raises Fatal('UDP connection channel 1 already open') and the server exits, taking every flow of the tunnel with it"},
}


def witness_fails(fid):
    """True if the real code still crashes on the witness of defect fid"""
    w = WITNESS[fid]
    if w["side"] == "client":
        r = run_client(*des_client(w))
    else:
        r = run_server(*des_server(w))
    return r[-1].startswith("CRASH") or r[-1] == "FATAL", r[-1]


def _cmsg_for(dst):
    """ancillary data the kernel would attach for IP_RECVORIGDSTADDR / IPV6_RECVORIGDSTADDR"""
    if dst is None:
        return []
    ip, port = dst[0], dst[1]
    if ":" in ip:
        data = struct.pack("=H", real_socket.AF_INET6) + struct.pack("!H", port) + b"\0\0\0\0" + \
            real_socket.inet_pton(real_socket.AF_INET6, ip) + b"\0\0\0\0"
        return [(41, 74, data)]
    data = struct.pack("=H", real_socket.AF_INET) + struct.pack("!H", port) + \
        real_socket.inet_aton(ip) + b"\0" * 8
    return [(real_socket.SOL_IP, 20, data)]


def kernel_recvmsg(payload, cmsgs, src, bufsize, ancbufsize=0, flags=0):
    """What recvmsg(bufsize, ancbufsize) of a Linux datagram socket returns when the kernel holds the datagram `payload`
    from `src` with the control messages `cmsgs` (in full): Linux put_cmsg() (net/core/scm.c), one call per message -
      * fewer than CMSG_LEN(0) bytes left in the control buffer: nothing is stored, MSG_CTRUNC;
      * header + data do not fit: the DATA IS CUT to the room left, MSG_CTRUNC;
      * the buffer advances by min(CMSG_SPACE(len(data)), room left);
    and MSG_TRUNC when the datagram is longer than bufsize.  Coq: Model/Addr.v put_cmsgs (Props/C05.v c05_cmsg4_kernel,
    c05_cmsg6_kernel, c05_cmsg6_kernel_always_ctrunc).  Compared with the running kernel on loopback sockets by
    kernel_cmsg_check (every control-buffer size around the boundaries, both families)."""
    hdr = real_socket.CMSG_LEN(0)
    room = int(ancbufsize)
    mflags = real_socket.MSG_TRUNC if len(payload) > bufsize else 0
    anc = []
    for lvl, typ, data in cmsgs:
        if room < hdr:
            mflags |= real_socket.MSG_CTRUNC
            continue
        full = len(data)
        if hdr + full > room:
            mflags |= real_socket.MSG_CTRUNC
            data = data[:room - hdr]
        anc.append((lvl, typ, bytes(data)))
        room -= min(real_socket.CMSG_SPACE(full), room)
    return (payload[:bufsize], anc, mflags, src)


def kernel_cmsg_check(sizes=None):
    """kernel_recvmsg against the running kernel: UDP sockets on 127.0.0.1 / ::1 with IP(V6)_RECVORIGDSTADDR (no
    privilege needed), one datagram per control-buffer size, recvmsg'd from the real socket and from the fake.
    Returns {"available": bool, "cases": n, "differences": [...], "ctrunc_v6_at_space24": bool|None, "notes": [...]}"""
    res = {"available": False, "cases": 0, "differences": [], "ctrunc_v6_at_space24": None, "notes": []}
    hdr = real_socket.CMSG_LEN(0)
    sizes = sizes or sorted({0, 1, hdr - 1, hdr, hdr + 1, hdr + 4, hdr + 8, hdr + 15, hdr + 16, hdr + 17, hdr + 23, hdr + 24,
                             hdr + 25, hdr + 27, hdr + 28, hdr + 29, real_socket.CMSG_SPACE(16), real_socket.CMSG_SPACE(24),
                             real_socket.CMSG_SPACE(28), 128})
    for fam, addr, lvl, opt in ((real_socket.AF_INET, "127.0.0.1", real_socket.SOL_IP, 20), (real_socket.AF_INET6, "::1", 41, 74)):
        for size in sizes:
            lsn = snd = None
            try:
                lsn = real_socket.socket(fam, real_socket.SOCK_DGRAM)
                lsn.bind((addr, 0))
                lsn.setsockopt(lvl, opt, 1)
                lsn.settimeout(2)
                snd = real_socket.socket(fam, real_socket.SOCK_DGRAM)
                snd.bind((addr, 0))
                snd.sendto(b"probe-datagram", lsn.getsockname())
                bufsize = 8 if size % 2 else 4096
                got = lsn.recvmsg(bufsize, size)
                got = (got[0], [(a, b, bytes(c)) for a, b, c in got[1]], got[2], got[3])
                want = kernel_recvmsg(b"probe-datagram", _cmsg_for(lsn.getsockname()[:2]), snd.getsockname(), bufsize, size)
            except (OSError, real_socket.timeout) as e:
                res["notes"].append("real-kernel control-message probe unavailable for %s: %r" % (addr, e))
                break
            finally:
                for x in (lsn, snd):
                    if x is not None:
                        x.close()
            res["available"] = True
            res["cases"] += 1
            if got != want:
                res["differences"].append({"family": int(fam), "ancbufsize": size, "kernel": repr(got), "fake": repr(want)})
            if fam == real_socket.AF_INET6 and size == real_socket.CMSG_SPACE(24):
                res["ctrunc_v6_at_space24"] = bool(got[2] & real_socket.MSG_CTRUNC)
        # several control messages (packet info, hop limit / TTL, traffic class / TOS switched on as well): the full list is
        # read once with MSG_PEEK into a large buffer, then the same datagram is received into each buffer size
        extra = ([(real_socket.SOL_IP, 8), (real_socket.SOL_IP, 12), (real_socket.SOL_IP, 13)] if fam == real_socket.AF_INET
                 else [(41, 49), (41, 51), (41, 66)])
        for size in sizes + [hdr + 40, 2 * hdr + 40, 3 * hdr + 40, 96, 112]:
            lsn = snd = None
            try:
                lsn = real_socket.socket(fam, real_socket.SOCK_DGRAM)
                lsn.bind((addr, 0))
                for l2, o2 in [(lvl, opt)] + extra:
                    lsn.setsockopt(l2, o2, 1)
                lsn.settimeout(2)
                snd = real_socket.socket(fam, real_socket.SOCK_DGRAM)
                snd.bind((addr, 0))
                snd.sendto(b"probe-datagram", lsn.getsockname())
                full = lsn.recvmsg(4096, 1024, real_socket.MSG_PEEK)
                got = lsn.recvmsg(4096, size)
                got = (got[0], [(a, b, bytes(c)) for a, b, c in got[1]], got[2], got[3])
                want = kernel_recvmsg(b"probe-datagram", [(a, b, bytes(c)) for a, b, c in full[1]], snd.getsockname(), 4096, size)
            except (OSError, real_socket.timeout) as e:
                res["notes"].append("real-kernel multi-message probe unavailable for %s: %r" % (addr, e))
                break
            finally:
                for x in (lsn, snd):
                    if x is not None:
                        x.close()
            res["cases"] += 1
            res["multi_message_cases"] = res.get("multi_message_cases", 0) + (1 if len(full[1]) > 1 else 0)
            if got != want:
                res["differences"].append({"family": int(fam), "ancbufsize": size, "messages": len(full[1]), "kernel": repr(got),
                                           "fake": repr(want)})
    return res


def kernel_recv_udp_check():
    """the REAL tproxy.recv_udp on real loopback sockets of both families with IP(V6)_RECVORIGDSTADDR: the destination
    it returns must be the address the datagram was sent to (= the listener's own name).  Returns (cases, failures,
    notes); skipped (0 cases + a note) when the sandbox refuses the sockets."""
    import sshuttle.methods.tproxy as tproxy
    cases, bad, notes = 0, [], []
    for fam, addr, lvl, opt in ((real_socket.AF_INET, "127.0.0.1", real_socket.SOL_IP, tproxy.IP_RECVORIGDSTADDR),
                                (real_socket.AF_INET6, "::1", tproxy.SOL_IPV6, tproxy.IPV6_RECVORIGDSTADDR)):
        for payload in (b"", b"x", b"a,b,,c", b"p" * 4096):
            lsn = snd = None
            try:
                lsn = real_socket.socket(fam, real_socket.SOCK_DGRAM)
                lsn.bind((addr, 0))
                lsn.setsockopt(lvl, opt, 1)
                lsn.settimeout(2)
                snd = real_socket.socket(fam, real_socket.SOCK_DGRAM)
                snd.bind((addr, 0))
                snd.sendto(payload, lsn.getsockname())
                want_dst, want_src = lsn.getsockname()[:2], snd.getsockname()[:2]
                try:
                    src, dst, data = tproxy.recv_udp(lsn, 4096)
                    got = (tuple(src[:2]) if src else src, tuple(dst[:2]) if dst else dst, data)
                except real_socket.timeout:
                    raise
                except Exception as e:
                    got = "raised %s" % exc_name(e)
            except (OSError, real_socket.timeout) as e:
                notes.append("real-kernel recv_udp probe unavailable for %s: %r" % (addr, e))
                break
            finally:
                for x in (lsn, snd):
                    if x is not None:
                        x.close()
            cases += 1
            if got != (want_src, want_dst, payload):
                bad.append({"family": int(fam), "dialled": list(want_dst), "source": list(want_src), "payload": hx(payload),
                            "recv_udp_returned": repr(got)[:300]})
    return cases, bad, notes


class ClientWorld:
    def __init__(self, family):
        self.now = 0
        self.dgrams = []
        self.send_err = None
        self.next = None
        self.family = family


class FakeListener:
    """the DNS / UDP listener socket of the client"""

    def __init__(self, world):
        self.w = world
        self.family = world.family

    def recvfrom(self, bufsize):
        src, dst, data = self.w.next
        return (data[:bufsize], src)

    def recvmsg(self, bufsize, ancsize=0, flags=0):
        # as the kernel answers: the IP(V6)_ORIGDSTADDR message cut to the control buffer offered, MSG_CTRUNC / MSG_TRUNC
        src, dst, data = self.w.next
        return kernel_recvmsg(data, _cmsg_for(dst), src, bufsize, ancsize)

    def sendto(self, data, dst):
        if self.w.send_err is not None:
            raise OSError(self.w.send_err, "scripted")
        self.w.dgrams.append("G:~:%s:%s" % (addr_s(dst), hx(data)))


def make_sender_class(world):
    class FakeSender:
        """the transparent socket tproxy's send_udp creates"""

        def __init__(self, family, typ):
            self.family = family
            self.bound = None
            self.stage = 0

        def setsockopt(self, *a):
            pass

        def bind(self, a):
            if world.send_err is not None and world.send_stage == 0:
                raise OSError(world.send_err, "scripted bind")
            self.bound = a

        def sendto(self, data, dst):
            if world.send_err is not None:
                raise OSError(world.send_err, "scripted sendto")
            world.dgrams.append("G:%s:%s:%s" % (addr_s(self.bound), addr_s(dst), hx(data)))

        def close(self):
            pass
    return FakeSender


class FakeTcpSock:
    def __init__(self, family, dst):
        self.family = family
        self.dst = dst

    def getsockname(self):
        return self.dst

    def getpeername(self):
        return ("127.0.0.1", 40000)

    def getsockopt(self, level, opt, ln):
        ip, port = self.dst[0], self.dst[1]
        if self.family == real_socket.AF_INET:
            return struct.pack("!HH4s", 2, port, real_socket.inet_aton(ip)) + b"\0" * 8
        return struct.pack("!HHI16sI", 10, port, 0, real_socket.inet_pton(real_socket.AF_INET6, ip), 0)

    def fileno(self):
        return 77

    def setblocking(self, b):
        pass

    def close(self):
        pass

    def shutdown(self, how):
        pass


def _kind_of(cb):
    if cb is None:
        return None
    co = getattr(cb, "__code__", None)
    if co is not None and cb.__closure__:
        cells = dict(zip(co.co_freevars, [c.cell_contents for c in cb.__closure__]))
        if "mux" in cells and "dstip" in cells:
            return "D(%s>%s)" % (oaddr_s(cells["dstip"]), addr_s(cells["srcip"]))
        if "srcip" in cells:
            return "U(%s)" % addr_s(cells["srcip"])
    if getattr(cb, "__self__", None) is not None:
        return "T"
    return "?"


def _tok(x):
    """a table key / value the canonical format has no place for (only code that departs from the model produces
    one): rendered so that the step string stays parseable; the comparison with the model then shows the difference"""
    return "?" + "".join(c if c.isalnum() or c in "._@~-" else "_" for c in repr(x))


def _addr_tok(p):
    try:
        return addr_s(p)
    except Exception:
        return _tok(p)


def _client_state(client, mux):
    try:
        # identifier order (the code never iterates over mux.channels).  A key whose value is None - what the MuxWrapper of
        # a finished TCP flow leaves behind - is not listed: for the code it is a free identifier like an absent key
        ch = ",".join("%d:%s" % (c, _kind_of(cb)) for c, cb in sorted(mux.channels.items()) if cb is not None)
    except Exception:
        ch = _tok(sorted(mux.channels, key=repr))
    try:
        dns = ",".join("%d:%d" % (c, rel_t(t)) for c, t in client.dnsreqs.items())
    except Exception:
        dns = _tok(client.dnsreqs)
    parts = []
    for p, v in client.udp_by_src.items():
        try:
            c, t = v
            parts.append("%s:%d:%d" % (_addr_tok(p), c, rel_t(t)))
        except Exception:
            parts.append("%s:%s" % (_addr_tok(p), _tok(v)))
    udp = ",".join(parts)
    return "chan=%s chani=%d dns=%s udp=%s" % (ch or "~", mux.chani, dns or "~", udp or "~")


class ClientSession:
    """the real client functions on a real ssnet.Mux inside the simulated boundary, one event at a time
    (so that a generator can look at what the real code did before it chooses the next event)"""

    def __init__(self, method, maxc, family):
        import sshuttle.client as client
        import sshuttle.ssnet as ssnet
        import sshuttle.helpers as helpers
        import sshuttle.methods as methods
        import sshuttle.methods.tproxy as tproxy
        self.m = (client, ssnet, helpers, tproxy)
        world = self.world = ClientWorld(family)
        world.send_stage = 1
        self.saved = (ssnet.MAX_CHANNEL, ssnet.set_non_blocking_io, client.time, client.log, client.islocal,
                      tproxy.socket, helpers.log, ssnet.log)
        self.handlers = []
        self.dead = False
        self.open = True
        try:
            ssnet.MAX_CHANNEL = maxc
            ssnet.set_non_blocking_io = lambda fd: None
            client.time = clock_shim(world)
            client.log = helpers.log = ssnet.log = lambda s: None
            client.islocal = lambda ip, fam: False
            tproxy.socket = Shim(real_socket, socket=make_sender_class(world))
            client.dnsreqs.clear()
            client.udp_by_src.clear()
            self.mux = ssnet.Mux(FakeR(), FakeW())
            self.mux.outbuf = []
            self.meth = tproxy.Method("tproxy") if method == "T" else methods.BaseMethod("nat")
            self.listener = FakeListener(world)
        except BaseException:
            self.close()
            raise

    def step(self, ev):
        """one event; returns its canonical step string (same format as the model driver)"""
        client, ssnet, helpers, tproxy = self.m
        world, mux, meth, listener, handlers = self.world, self.mux, self.meth, self.listener, self.handlers
        world.dgrams = []
        try:
            if ev[0] in ("D", "U"):
                _, now, src, dst, data = ev
                world.now = now
                world.next = (src, dst, data)
                if ev[0] == "D":
                    client.ondns(listener, meth, mux, handlers)
                else:
                    client.onaccept_udp(listener, meth, mux, handlers)
            elif ev[0] == "T":
                _, now, fam, dst = ev
                world.now = now

                class TL:
                    def accept(self):
                        return FakeTcpSock(fam, dst), ("127.0.0.1", 40000)
                client.onaccept_tcp(TL(), meth, mux, handlers)
            elif ev[0] == "K":
                # the TCP flow on identifier ch is over: the MuxWrapper that onaccept_tcp created does noread() + nowrite()
                # (what Proxy.callback calls when both directions have ended) and leaves channels[ch] = None behind.
                # No live TCP flow on ch: nothing to end
                for h in handlers:
                    w = getattr(h, "wrap2", None)
                    if isinstance(w, ssnet.MuxWrapper) and w.channel == ev[1] and mux.channels.get(ev[1]) == w.got_packet:
                        w.noread()
                        w.nowrite()
                        break
            else:
                _, ch, cmdkey, data, err = ev[:5]
                world.send_err = err
                world.send_stage = ev[5] if len(ev) > 5 else 1
                try:
                    mux.got_packet(ch, CMD[cmdkey], data)
                finally:
                    world.send_err = None
        except helpers.Fatal:
            self.dead = True
            return "FATAL"
        except Exception as e:
            self.dead = True
            return "CRASH " + exc_name(e)
        frames = ["F:%d:%d:%s" % (c, cmd, hx(d)) for c, cmd, d in parse_frames(mux.outbuf)]
        mux.outbuf = []
        outs = frames + world.dgrams
        return "OK %s | %s" % (",".join(outs) or "~", _client_state(client, mux))

    def close(self):
        if not self.open:
            return
        self.open = False
        client, ssnet, helpers, tproxy = self.m
        (ssnet.MAX_CHANNEL, ssnet.set_non_blocking_io, client.time, client.log, client.islocal,
         tproxy.socket, helpers.log, ssnet.log) = self.saved
        client.dnsreqs.clear()
        client.udp_by_src.clear()
        # the Proxy objects of TCP accepts were kept alive until here; let them go quietly
        self.handlers[:] = []


def run_client(method, maxc, family, events):
    """events: ("D"|"U", now, src, dst|None, payload) | ("T", now, family, dst) | ("K", ch) |
               ("F", ch, cmdkey, payload, None|errno[, stage])
    returns the list of canonical per-step strings (same format as the model driver)"""
    s = ClientSession(method, maxc, family)
    out = []
    try:
        for ev in events:
            out.append(s.step(ev))
            if s.dead:
                break
    finally:
        s.close()
    return out


def client_line(fixes, method, maxc, family, events):
    toks = ["C"] + ["1" if fixes[k] else "0" for k in ("F3", "F4", "F10", "F16")] + [method, str(maxc), str(family)]
    for ev in events:
        if ev[0] in ("D", "U"):
            toks.append("%s,%d,%s,%s,%s" % (ev[0], ev[1], addr_s(ev[2]), oaddr_s(ev[3]), hx(ev[4])))
        elif ev[0] == "T":
            toks.append("T,%d,%d,%s" % (ev[1], ev[2], addr_s(ev[3])))
        elif ev[0] == "K":
            toks.append("K,%d" % ev[1])
        else:
            toks.append("F,%d,%s,%s" % (ev[1], hx(ev[3]), "ok" if ev[4] is None else str(ev[4])))
    return " ".join(toks)


# ======================================================================
# server side

class StopScript(BaseException):
    pass


class LogList(list):
    """mux.outbuf replacement: every Mux.send is entered into the unified log"""

    def __init__(self, log):
        list.__init__(self)
        self.log = log

    def append(self, p):
        s1, s2, ch, cmd, ln = struct.unpack("!ccHHH", bytes(p[:8]))
        self.log.append("F:%d:%d:%s" % (ch, cmd, hx(bytes(p[8:]))))
        list.append(self, p)


DNS_FAMILY = 0   # family value our getaddrinfo hands out: marks resolver sockets


class ServerWorld:
    def __init__(self, sysns):
        self.now = 0
        self.io = []
        self.log = []
        self.socks = []
        self.sysns = sysns
        self.rfile = FakeR()
        self.wfile = FakeW()
        self.handlers = None
        self.mux = None
        self.on_dns_connect = None
        self.step = -1
        self.ops = []             # attempt trace, see attempt_oracle: ("Q", step, chan, payload) / ("R", step, sock) / ("C", step, sock, ok)
        self.dns_req_fn = None    # the real server.main dns_req closure once got_dns_req carries the observer
        # what the real loop does at the kernel boundary, for udp_close_oracle: ("sel", i, [socket ids handed to the
        # select() that begins iteration i]) / ("rx", i, socket id, index of the next log token, payload read)
        self.watch = []

    def pop(self, op=None):
        """the environment's answer to the next socket operation.  ("P", errno, ops) is a PERSISTENT fault rule: it
        stays at the head for the rest of the iteration; every operation named in ops fails with errno, every other
        one succeeds (used by the C08 datagram scenarios; the model-compared scripts never contain it)"""
        if self.io and self.io[0][0] == "P":
            return ("e", self.io[0][1]) if op in self.io[0][2] else ("k",)
        return self.io.pop(0) if self.io else ("k",)


def make_sock_class(world):
    class FakeSock:
        def __init__(self, family=2, typ=2, *a):
            self.id = len(world.socks)
            world.socks.append(self)
            self.family = family
            if family != DNS_FAMILY:
                world.log.append("K:%d:%d" % (self.id, family))

        def fileno(self):
            return 100 + self.id

        def connect(self, a):
            it = world.pop("connect")
            if self.family == DNS_FAMILY:
                world.ops.append(("C", world.step, self.id, it[0] != "e"))
            if self.family == DNS_FAMILY and world.on_dns_connect is not None:
                world.on_dns_connect(self, a, it)     # resolv.conf histories: one attempt of DnsProxy.try_send
            if it[0] == "e":
                world.log.append("C:%d:%s:0" % (self.id, addr_s(a)))
                raise OSError(it[1], "scripted connect")
            world.log.append("C:%d:%s:1" % (self.id, addr_s(a)))

        def send(self, data):
            it = world.pop("send")
            if self.family == DNS_FAMILY:
                world.ops.append(("S", world.step, self.id, it[0] != "e"))
            if it[0] == "e":
                world.log.append("S:%d:%s:0" % (self.id, hx(data)))
                raise OSError(it[1], "scripted send")
            world.log.append("S:%d:%s:1" % (self.id, hx(data)))
            return len(data)

        def recv(self, n):
            it = world.pop("recv")
            world.ops.append(("R", world.step, self.id, it[0] != "e"))
            if it[0] == "e":
                raise OSError(it[1], "scripted recv")
            if it[0] in ("d", "f"):
                return it[1][:n]
            return b""

        def recvfrom(self, n):
            it = world.pop("recvfrom")
            if it[0] == "e":
                raise OSError(it[1], "scripted recvfrom")
            world.watch.append(("rx", world.step, self.id, len(world.log), it[1][:n] if it[0] in ("f", "d") else b""))
            if it[0] == "f":
                return it[1][:n], it[2]
            if it[0] == "d":
                return it[1][:n], ("0.0.0.0", 0)
            return b"", ("0.0.0.0", 0)

        def sendto(self, data, a):
            if not (0 <= a[1] <= 65535):
                raise OverflowError("sendto(): port must be 0-65535.")
            it = world.pop("sendto")
            if it[0] == "e":
                world.log.append("T:%d:%s:%s:0" % (self.id, addr_s(a), hx(data)))
                raise OSError(it[1], "scripted sendto")
            world.log.append("T:%d:%s:%s:1" % (self.id, addr_s(a), hx(data)))
            return len(data)

        def close(self):
            pass
    return FakeSock


def _server_state(world, server):
    hs = [h for h in world.handlers if h is not world.mux]
    parts = []
    for h in hs:
        if isinstance(h, server.DnsProxy):
            parts.append("D.%d.%d.%s.%d.%d" % (h.chan, h.tries, "+".join(str(s.id) for s in h.socks) or "~",
                                              rel_t(h.timeout), 1 if h.ok else 0))
        elif isinstance(h, server.UdpProxy):
            parts.append("U.%d.%d.%d" % (h.chan, h.sock.id, 1 if h.ok else 0))
        else:
            parts.append("?")

    def cell(fn, name):
        return dict(zip(fn.__code__.co_freevars, [c.cell_contents for c in fn.__closure__]))[name]
    dnsh = cell(world.dns_req_fn or world.mux.got_dns_req, "dnshandlers")
    udph = cell(world.mux.got_udp_open, "udphandlers")

    def tbl(d):
        return ",".join("%d>%d" % (c, hs.index(h) if h in hs else -1) for c, h in d.items()) or "~"
    chans = ",".join(str(c) for c in sorted(k for k, v in world.mux.channels.items() if v)) or "~"
    return "h=%s dnsh=%s udph=%s chan=%s nsock=%d" % (",".join(parts) or "~", tbl(dnsh), tbl(udph), chans,
                                                    len(world.socks))


def run_server(to_ns, sysns, events, lbs=32768, resolv=None, trace=None, ops=None, watch=None):
    """events: (now, frames, ready, io); frames = [(ch, cmdkey, payload, tag)], ready = [sock id],
    io = [("k",) | ("e", errno) | ("d", bytes) | ("f", bytes, (ip, port)) | ("n", k)]
    Drives the real server.main; returns canonical per-step strings.
    lbs = server.main's latency_buffer_size argument (what the client passes on from --latency-buffer-size; main stores
    it in ssnet.LATENCY_BUFFER_SIZE, restored here).  Bytes of the tunnel that one Mux read (at most lbs bytes) leaves
    behind stay in the pipe, which then stays readable in the following iterations.
    resolv (a ResolvFile) = the history models one server PROCESS on a host whose /etc/resolv.conf changes: the REAL
    helpers.get_random_nameserver / resolvconf_nameservers run (no stub, `sysns` and ("n", k) items are unused); only the
    file boundary is scripted (`open` as seen from the helpers module serves the file's CURRENT text).  Every attempt of
    DnsProxy.try_send (connect on a resolver socket) is entered into `trace` with the text the file holds at that moment."""
    import sshuttle.server as server
    import sshuttle.ssnet as ssnet
    import sshuttle.helpers as helpers
    world = ServerWorld(sysns)
    out = []
    state = {"i": -1, "started": False}
    real_runonce = ssnet.runonce

    def finish_step():
        outs = list(world.log)
        world.log[:] = []
        del world.mux.outbuf[:]
        out.append("OK %s | %s" % (",".join(outs) or "~", _server_state(world, server)))

    def fake_select(r, w, x, timeout=None):
        if timeout == 0:                       # Mux.callback asking about its own pipe
            return ([world.rfile] if world.rfile.chunks else [], [], [])
        if not state["started"]:
            state["started"] = True
            world.mux.outbuf = LogList(world.log)     # drops the start-up PING / ROUTES frames
        else:
            finish_step()
        state["i"] += 1
        # the read set the real loop hands to select(): the sockets it still waits on (a datagram arriving for a socket
        # that is not in it - or that was closed - is not seen by the loop, exactly as with the kernel)
        world.watch.append(("sel", state["i"], sorted(x.id for x in r if hasattr(x, "id"))))
        if state["i"] >= len(events):
            raise StopScript()
        now, frames, ready, io = events[state["i"]]
        world.now = now
        world.step = state["i"]
        world.io = list(io)
        if resolv is not None:
            resolv.at_iteration(state["i"])
        rl = []
        if frames:
            world.rfile.chunks = world.rfile.chunks + [b"".join(struct.pack("!ccHHH", b"S", b"S", ch, CMD[k], len(d)) + d
                                                                for ch, k, d, tag in frames)]
        if world.rfile.chunks:
            rl.append(world.rfile)
        for s in r:
            if getattr(s, "id", None) in ready and s not in rl:
                rl.append(s)
        return (rl, [], [])

    def runonce(handlers, mux):
        world.handlers, world.mux = handlers, mux
        if world.dns_req_fn is None and getattr(mux, "got_dns_req", None) is not None:
            # observer on the Mux -> server.main interface: which DNS_REQ frame the resolver sockets opened next belong to
            world.dns_req_fn = mux.got_dns_req

            def seen_dns_req(channel, data, _real=world.dns_req_fn):
                world.ops.append(("Q", world.step, channel, data))
                return _real(channel, data)
            mux.got_dns_req = seen_dns_req
        return real_runonce(handlers, mux)

    def gai(host, port, *a):
        return [(DNS_FAMILY, 2, 17, "", (host, port))]

    def grn():
        it = world.pop()
        k = it[1] if it[0] == "n" else 0
        return (real_socket.AF_INET, world.sysns[k % len(world.sysns)] if world.sysns else "127.0.0.1")

    class Sink:
        def write(self, s):
            pass

        def flush(self):
            pass
    saved = (server.socket, server.time, server.io, server.get_random_nameserver, server.log, ssnet.select,
             ssnet.runonce, ssnet.set_non_blocking_io, ssnet.log, helpers.log, sys.stdout)
    saved_lbs = ssnet.LATENCY_BUFFER_SIZE
    no_open = object()
    saved_open = helpers.__dict__.get("open", no_open)
    saved_rnd = None
    if resolv is not None:
        import random as real_random
        saved_rnd = real_random.getstate()

        def on_dns_connect(sock, a, it):
            if trace is not None:
                trace.append({"step": state["i"], "attempt": resolv.attempts, "target": (a[0], a[1]), "text": resolv.text,
                              "seen": list(resolv.seen), "reads": resolv.reads, "ok": it[0] != "e"})
            resolv.after_attempt()
        world.on_dns_connect = on_dns_connect
    try:
        server.socket = Shim(real_socket, socket=make_sock_class(world), getaddrinfo=gai)
        server.time = clock_shim(world)
        server.io = Shim(real_io, FileIO=lambda fd, mode="r": world.rfile if fd == 0 else world.wfile)
        if resolv is None:
            server.get_random_nameserver = grn
        else:
            # one history = one server process: what an earlier history left in the module is not part of it
            helpers.__dict__.pop("_nameservers", None)
            helpers.open = resolv.open
            real_random.seed(resolv.shuffle_seed)
        server.log = ssnet.log = helpers.log = lambda s: None
        ssnet.select = Shim(real_select, select=fake_select)
        ssnet.runonce = runonce
        ssnet.set_non_blocking_io = lambda fd: None
        sys.stdout = Sink()
        try:
            server.main(False, lbs, False, ("%s@%d" % to_ns) if to_ns else None, False)
            out.append("RETURNED")
        except StopScript:
            pass
        except SystemExit:
            out.append("FATAL")
        except Exception as e:
            out.append("CRASH " + exc_name(e))
    finally:
        (server.socket, server.time, server.io, server.get_random_nameserver, server.log, ssnet.select,
         ssnet.runonce, ssnet.set_non_blocking_io, ssnet.log, helpers.log, sys.stdout) = saved
        ssnet.LATENCY_BUFFER_SIZE = saved_lbs
        if resolv is not None:
            if saved_open is no_open:
                helpers.__dict__.pop("open", None)
            else:
                helpers.open = saved_open
            helpers.__dict__.pop("_nameservers", None)
            real_random.setstate(saved_rnd)
        if ops is not None:
            ops.extend(world.ops)
        if watch is not None:
            watch.extend(world.watch)
    return out


def io_s(it):
    if it[0] == "k":
        return "k"
    if it[0] == "e":
        return "e%d" % it[1]
    if it[0] == "d":
        return "d%s" % hx(it[1])
    if it[0] == "n":
        return "n%d" % it[1]
    if it[0] == "P":
        raise ValueError("persistent fault rules are not part of the model's script language")
    return "f%s@%s@%d" % (hx(it[1]), hx(it[2][0]), it[2][1])


def server_line(fixes, to_ns, sysns, events):
    toks = ["S"] + ["1" if fixes[k] else "0" for k in ("F3", "F4", "F10", "F16", "F80")]
    toks.append(addr_s(to_ns) if to_ns else "~")
    toks.append(",".join(hx(s) for s in sysns) or "~")
    for now, frames, ready, io in events:
        toks.append("%d/%s/%s/%s" % (now, ",".join("%d:%s:%s:%d" % (ch, k, hx(d), tag) for ch, k, d, tag in frames) or "~",
                                     ",".join(str(s) for s in ready) or "~", ",".join(io_s(i) for i in io) or "~"))
    return " ".join(toks)


def split_steps(line):
    return line.split(" ;; ")


# ======================================================================
# generators

PAYLOADS = [b"", b",", b",,", b"a,b,c", b"\0", b"\0\0,\0", b"1.2.3.4,53,x", b"\xff" * 7]


def rand_payload(rng, big_ok=True):
    r = rng.random()
    if r < 0.35:
        return rng.choice(PAYLOADS)
    if r < 0.45 and big_ok:
        n = rng.choice([4095, 4096, 4097, 5000])
        blk = bytes(rng.randrange(256) for _ in range(37))
        return (blk * (n // 37 + 1))[:n]
    n = rng.randint(1, 40)
    return bytes(rng.choice([0, 44, 44, 48, 65, rng.randrange(256)]) for _ in range(n))


V4 = ["10.0.0.1", "10.0.0.2", "192.168.7.9", "8.8.8.8", "1.1.1.1", "255.255.255.255"]
V6 = ["fd00::1", "fd00::2", "2001:db8::53", "::1"]


# link-local askers: the SAME host and port on two interfaces, and with a flow label
V6_SCOPED = [("fe80::53:1", 40000, 0, 2), ("fe80::53:1", 40000, 0, 3), ("fe80::53:1", 40000, 7, 3), ("fe80::1", 53, 0, 2),
             ("fe80::1", 53, 0, 5)]


def rand_addr(rng, v6=False, few=True):
    if v6 and few and rng.random() < 0.5:
        return rng.choice(V6_SCOPED)
    ip = rng.choice(V6 if v6 else V4)
    port = rng.choice([53, 5353, 40000, 40001, 1, 65535]) if few else rng.randint(1, 65535)
    return (ip, port, 0, 0) if v6 else (ip, port)


# ======================================================================
# script generators (mostly-valid life cycles + a malformed stream)

def gen_client_script(rng, prop, quick):
    """returns (method, maxc, family, events, valid) — valid: no malformed event was put in, so a
    crash of the real code is a property violation"""
    valid = True
    method = "T" if (prop == "C11" or rng.random() < 0.5) else "B"
    v6 = rng.random() < 0.3           # also the plain recvfrom path (method B: DNS only) has IPv6 askers
    family = 10 if v6 else 2
    maxc = rng.choice([3, 4, 5, 8, 8, 65535, 65535, 65535])
    n = rng.randint(3, 14 if quick else 30)
    now = rng.choice([0, 100, 1000000])
    evs = []
    srcs = [rand_addr(rng, v6) for _ in range(rng.randint(1, 4))]
    nalloc = 0
    style = rng.random()
    for _ in range(n):
        now += rng.choice([0, 0, 0, 1, 1, 5, 29, 30, 31, 31, 60])
        r = rng.random()
        wd, wu = (0.45, 0.1) if prop == "C10" else (0.1, 0.45)
        if method == "B":
            wd, wu = 0.55, 0.0
        if r < wd:
            src = rng.choice(srcs) if rng.random() < 0.7 else rand_addr(rng, v6, few=False)
            dst = (rng.choice(V6 if v6 else V4), 53) if method == "T" and rng.random() < 0.93 else None
            evs.append(("D", now, src, dst, rand_payload(rng)))
            nalloc += 1
        elif r < wd + wu:
            src = rng.choice(srcs)
            dst = (rng.choice(V6 if v6 else V4), rng.choice([53, 123, 4500, 65535, 0])) if rng.random() < 0.95 else None
            evs.append(("U", now, src, dst, rand_payload(rng)))
            nalloc += 1
        elif r < wd + wu + 0.09:
            evs.append(("T", now, family, (rng.choice(V6 if v6 else V4), rng.choice([22, 80, 443]))))
            nalloc += 1
        elif r < wd + wu + 0.16:
            # a TCP flow ends (no effect when the identifier is not that of a live TCP flow)
            evs.append(("K", rng.randint(1, max(1, min(maxc, nalloc + 1)))))
        else:
            hi = max(1, min(maxc, nalloc + 1))
            ch = rng.randint(1, hi) if rng.random() < 0.93 else rng.choice([0, maxc, maxc + 1, 65535])
            ch = min(ch, 65535)
            cmdkey = rng.choice(["R", "D", "D", "C"])
            rr = rng.random()
            if rr < 0.6:
                peer = (rng.choice(V6 if v6 else V4), rng.choice([53, 123, 65535, 0]))
                data = ("%s,%d," % peer).encode() + rand_payload(rng)
            elif rr < 0.9:
                data = rand_payload(rng)       # fine for a DNS channel, usually malformed for a UDP one
            else:
                data = rng.choice([b"1.2.3.4,x,zz", b"1.2.3.4,,zz", b"1.2.3.4,53", b",,", b"a,07,b"])
            err = None
            stage = 1
            if rng.random() < 0.15:
                err = rng.choice(NET_ERRS + OTHER_ERRS)
                stage = rng.choice([0, 1])
            evs.append(("F", ch, cmdkey, data, err, stage))
    return method, maxc, family, evs


def gen_server_script(rng, prop, quick):
    to_ns = None
    sysns = []
    r = rng.random()
    if r < 0.4:
        to_ns = (rng.choice(V4 + V6), rng.choice([53, 0, 5353]))
    elif r < 0.9:
        sysns = rng.sample(V4 + V6, rng.randint(1, 3))
    n = rng.randint(2, 10 if quick else 24)
    now = rng.choice([0, 50, 1000000])
    evs = []
    nsock = 0
    chans = [rng.randint(1, 9) for _ in range(4)] + [65535]
    openc = []
    for _ in range(n):
        now += rng.choice([0, 0, 1, 1, 5, 29, 30, 31, 31, 60])
        frames, io, ready = [], [], []
        closed_now = []
        for _ in range(rng.choice([0, 1, 1, 1, 2, 3])):
            r = rng.random()
            wq = 0.6 if prop == "C10" else 0.15
            naughty = rng.random() < 0.04
            if r < wq:
                free = [c for c in chans if c not in openc] or chans
                ch = rng.choice(chans if naughty else free)
                frames.append((ch, "Q", rand_payload(rng), 0))
                if to_ns is None:
                    io.append(("n", rng.randint(0, 5)))
                # connect / send outcomes, possibly with retries
                for _ in range(3):
                    rr = rng.random()
                    if rr < 0.72:
                        io += [("k",), ("k",)]
                        nsock += 1
                        break
                    bad = ("e", rng.choice(NET_ERRS if rng.random() < 0.75 else OTHER_ERRS))
                    io += [bad] if rng.random() < 0.5 else [("k",), bad]
                    nsock += 1
                    if to_ns is None:
                        io.append(("n", rng.randint(0, 5)))
            else:
                rr = rng.random()
                free = [c for c in chans if c not in openc and c not in closed_now]
                if (rr < 0.3 or not openc) and (free or naughty):
                    ch = rng.choice(chans if naughty or not free else free)
                    fam = b"x" if naughty and rng.random() < 0.3 else rng.choice([b"2", b"10"])
                    frames.append((ch, "O", fam, 0))
                    if ch not in openc:
                        openc.append(ch)
                    nsock += 1
                elif rr < 0.8 and openc:
                    ch = rng.choice(chans if naughty else openc)
                    peer = (rng.choice(V4 + V6), rng.choice([53, 123, 65535, 0]))
                    if not naughty:
                        data = ("%s,%d," % peer).encode() + rand_payload(rng)
                    else:
                        data = rng.choice([b"1.2.3.4,x,zz", b"nocomma", b"1.2.3.4,70000,zz", b"a,,b"])
                    frames.append((ch, "D", data, 0))
                    io.append(("k",) if rng.random() < 0.85 else ("e", rng.choice(NET_ERRS + OTHER_ERRS)))
                elif rr < 0.95 and openc:
                    ch = rng.choice(openc)
                    frames.append((ch, "C", b"", 0))
                    openc.remove(ch)
                    closed_now.append(ch)
                else:
                    frames.append((rng.choice(chans), "X", rand_payload(rng, False), 0))
        if nsock and rng.random() < 0.6:
            k = rng.choice([1, 1, 1, 2, 3])
            ready = sorted(set(rng.randint(max(0, nsock - 4), nsock) for _ in range(k)))
            for _ in ready:
                rr = rng.random()
                if rr < 0.4:
                    io.append(("d", rand_payload(rng)))
                elif rr < 0.75:
                    io.append(("f", rand_payload(rng), (rng.choice(V4 + V6), rng.choice([53, 123, 65535]))))
                else:
                    io.append(("e", rng.choice(NET_ERRS if rng.random() < 0.7 else OTHER_ERRS)))
                    if to_ns is None:
                        io.append(("n", rng.randint(0, 5)))
                    io += [("k",), ("k",)] if rng.random() < 0.7 else [("e", rng.choice(NET_ERRS))]
        evs.append((now, frames, ready, io))
    return to_ns, sysns, evs


# ======================================================================
# oracles: look only at the real code's observable behaviour (canonical step strings) and the script

def parse_outs(step):
    """'OK a,b | state' -> list of token lists"""
    if not step.startswith("OK "):
        return None
    body = step[3:].split(" | ")[0]
    return [] if body == "~" else [t.split(":") for t in body.split(",")]


def unhx(s):
    return b"" if s == "-" else bytes.fromhex(s)


def oracle_client(prop, method, maxc, family, evs, steps):
    """returns a list of (what, detail) violations of C10 / C11 visible in the client's behaviour"""
    bad = []
    owner = {}       # chan -> ("dns", src, dst, answered) | ("udp", src)
    assoc = {}       # src -> chan (live UDP association as announced on the wire)
    for i, ev in enumerate(evs):
        if i >= len(steps):
            break
        st = steps[i]
        if not st.startswith("OK "):
            malformed = ev[0] == "F" or (ev[0] == "U" and method == "B")
            if not malformed:
                bad.append(("crash", "step %d %s -> %s" % (i, ev[0], st)))
            break
        outs = parse_outs(st)
        frames = [o for o in outs if o[0] == "F"]
        dgrams = [o for o in outs if o[0] == "G"]
        for o in frames:
            if int(o[2]) == CMD["C"]:
                ch = int(o[1])
                for s, c in list(assoc.items()):
                    if c == ch:
                        del assoc[s]
                owner.pop(ch, None)
        if ev[0] == "D":
            reqs = [o for o in frames if int(o[2]) == CMD["Q"]]
            if dgrams or len(reqs) > 1:
                bad.append(("dns-capture", "step %d emitted %r" % (i, outs)))
            if reqs:
                if unhx(reqs[0][3]) != ev[4][:4096]:
                    bad.append(("c10_verbatim", "step %d DNS_REQ payload differs from the captured one" % i))
                owner[int(reqs[0][1])] = ["dns", ev[2], ev[3] if method == "T" else None, False]
        elif ev[0] == "U" and method == "T":
            data = [o for o in frames if int(o[2]) == CMD["D"]]
            opens = [o for o in frames if int(o[2]) == CMD["O"]]
            if ev[3] is None:
                if outs:
                    bad.append(("udp-ignored", "step %d" % i))
                continue
            if len(data) > 1 or dgrams:
                bad.append(("c11_one_to_one", "step %d emitted %r" % (i, outs)))
            if data:
                want = ("%s,%d," % (ev[3][0], ev[3][1])).encode() + ev[4][:4096]
                if unhx(data[0][3]) != want:
                    bad.append(("c11_one_to_one", "step %d UDP_DATA body differs" % i))
                ch = int(data[0][1])
                src = tuple(ev[2])
                if src in assoc:
                    if assoc[src] != ch or opens:
                        bad.append(("c11_shared_socket", "step %d source %r moved from channel %d to %d" % (i, src, assoc[src], ch)))
                        # follow the wire, so that the later steps of this script are judged on their own
                        assoc[src] = ch
                        owner[ch] = ["udp", src]
                else:
                    if len(opens) != 1 or int(opens[0][1]) != ch or unhx(opens[0][3]) != b"%d" % family:
                        bad.append(("c11_open", "step %d new association without a proper UDP_OPEN" % i))
                    assoc[src] = ch
                    owner[ch] = ["udp", src]
        elif ev[0] == "F":
            ch = ev[1]
            if frames:
                bad.append(("reply-frames", "step %d" % i))
            if len(dgrams) > 1:
                bad.append(("c10_at_most_once", "step %d: %d datagrams for one frame" % (i, len(dgrams))))
            if dgrams:
                g = dgrams[0]
                o = owner.get(ch)
                if o is None:
                    bad.append(("c10_no_cross", "step %d: datagram for channel %d which nobody owns" % (i, ch)))
                elif o[0] == "dns":
                    if o[3]:
                        bad.append(("c10_at_most_once", "step %d: second datagram for the query on channel %d" % (i, ch)))
                    if g[2] != addr_s(o[1]) or g[1] != oaddr_s(o[2]) or unhx(g[3]) != ev[3]:
                        bad.append(("c10_to_asker", "step %d: %r but asker %r dst %r" % (i, g, o[1], o[2])))
                    o[3] = True
                else:
                    parts = ev[3].split(b",", 2)
                    if len(parts) != 3 or g[2] != addr_s(o[1]) or unhx(g[3]) != parts[2] or \
                            g[1] != "%s@%d" % (hx(parts[0]), int(parts[1])):
                        bad.append(("c11_reply", "step %d: %r" % (i, g)))
            # an answered DNS channel is released
            if owner.get(ch) and owner[ch][0] == "dns":
                chans = st.split(" | ")[1].split(" ")[0]
                if ("%d:" % ch) in [c[:len("%d:" % ch)] for c in chans[5:].split(",")]:
                    bad.append(("c10_release", "step %d: channel %d still registered after its reply" % (i, ch)))
                owner.pop(ch, None)
    return bad


def dns_handlers_of(st):
    """the DnsProxies the real loop still waits on after an iteration (the step string is rendered at the NEXT select,
    i.e. after runonce has dropped the handlers whose ok flag is off): [(identifier, [socket ids], deadline)]"""
    out = []
    hpart = st.split(" | ")[1].split(" ")[0][2:]
    for h in ([] if hpart == "~" else hpart.split(",")):
        t = h.split(".")
        if t[0] == "D":
            out.append((int(t[1]), [] if t[3] == "~" else [int(x) for x in t[3].split("+")], int(t[4])))
    return out


def oracle_server(prop, to_ns, sysns, evs, steps, watch=None):
    bad = []
    udp_sock = {}      # chan -> socket id of the live association
    prev_h, prev_now, aliased = [], None, False
    for i, ev in enumerate(evs):
        if i >= len(steps):
            break
        st = steps[i]
        now, frames, ready, io = ev
        if not st.startswith("OK "):
            # Props/C10.v c10_server_crash_classified / c10_server_step_invariant: an iteration of the real loop
            # may raise only for a reason readable off the script (step_cause); everything else is a violation
            if st.startswith("CRASH") and st.split()[1] not in crash_causes(evs, i):
                bad.append(("crash", "step %d -> %s (script justifies only %s)"
                            % (i, st, ",".join(sorted(crash_causes(evs, i))) or "nothing")))
            # Props/C11.v c11_server_never_fatal: with F80 repaired no script makes the loop leave through Fatal
            if st == "FATAL":
                bad.append(("fatal", "step %d -> the server exits through Fatal" % i))
            break
        outs = parse_outs(st)
        # DNS: targets, verbatim payload, attempts
        conns = [o for o in outs if o[0] == "C"]
        sends = [o for o in outs if o[0] == "S"]
        qpay = [f[2] for f in frames if f[1] == "Q"]
        for o in conns:
            ip, port = o[2].split("@")
            if to_ns:
                okt = unhx(ip) == to_ns[0].encode() and int(port) == (to_ns[1] or 53)
            else:
                okt = unhx(ip) in [s.encode() for s in (sysns or ["127.0.0.1"])] and int(port) == 53
            if not okt:
                bad.append(("c10_target", "step %d connect to %s" % (i, o[2])))
        for o in sends:
            if unhx(o[2]) not in [q[:65535] for q in qpay] and not ready:
                bad.append(("c10_verbatim", "step %d sent %s" % (i, o[2])))
        if len(conns) > 3 * (len(qpay) + len(ready)):
            bad.append(("c10_target", "step %d: %d attempts" % (i, len(conns))))
        resp = [o for o in outs if o[0] == "F" and int(o[2]) == CMD["R"]]
        if len(resp) > len(ready):
            bad.append(("c10_at_most_once", "step %d: %d responses for %d ready sockets" % (i, len(resp), len(ready))))
        # UDP: every sendto is one of this iteration's UDP_DATA frames, verbatim, to the dialled address
        ts = [o for o in outs if o[0] == "T"]
        datas = []
        for f in frames:
            if f[1] == "D":
                p = f[2].split(b",", 2)
                if len(p) == 3 and p[1].isdigit():
                    datas.append(("%s@%d" % (hx(p[0]), int(p[1])), p[2]))
        if len(ts) > len(datas):
            bad.append(("c11_one_to_one", "step %d: %d sendto calls for %d UDP_DATA frames" % (i, len(ts), len(datas))))
        for o in ts:
            if (o[2], unhx(o[3])) not in datas:
                bad.append(("c11_one_to_one", "step %d: sendto %r matches no UDP_DATA frame" % (i, o)))
        # "unanswered queries are forgotten 30 seconds later" (Props/C10.v c10_expiry_server): once an iteration at
        # time t has run, no query with deadline < t is waited on any more, and a resolver reply that arrives for it
        # later produces no frame.  Not judged from the point where the peer asks on an identifier whose previous
        # query the server still legitimately holds (the standing no-stale-allocation hypothesis; the unregistered
        # older handler of c10_server_alias_example)
        legit = set(c for c, ss, dl in prev_h if dl >= prev_now)
        qs = [f[0] for f in frames if f[1] == "Q"]
        if any(c in legit for c in qs) or len(set(qs)) < len(qs):
            aliased = True
        cur_h = dns_handlers_of(st)
        if not aliased:
            for c, ss, dl in prev_h:
                if dl < prev_now and any(x in ready for x in ss) and \
                        any(o[0] == "F" and int(o[2]) == CMD["R"] and int(o[1]) == c for o in outs):
                    bad.append(("c10_reply_relayed_after_expiry", "step %d (time %d): a reply on resolver socket %s of the "
                                "query on identifier %d, deadline %d, swept at %d, was relayed as DNS_RESPONSE"
                                % (i, now, ss, c, dl, prev_now)))
            for c, ss, dl in cur_h:
                if dl < now:
                    bad.append(("c10_expired_query_still_waited_on", "step %d (time %d): the query on identifier %d with "
                                "deadline %d is still among the handlers the loop waits on (sockets %s)" % (i, now, c, dl, ss)))
                    break
        prev_h, prev_now = cur_h, now
        # one remote socket per association: UDP_OPEN c creates a socket (K token); until UDP_CLOSE c every UDP_DATA c
        # leaves through that very socket (frames and socket calls are logged in the order the real loop made them)
        ks = [o for o in outs if o[0] == "K"]
        ki = ti = 0
        for ch, k, d, tag in frames:
            if k == "O" and ki < len(ks):
                udp_sock[ch] = int(ks[ki][1])
                ki += 1
            elif k == "C":
                udp_sock.pop(ch, None)
            elif k == "D" and ch in udp_sock and ti < len(ts):
                if int(ts[ti][1]) != udp_sock[ch]:
                    bad.append(("c11_shared_socket", "step %d: UDP_DATA on identifier %d left through socket %s, the "
                                "association's socket is %d" % (i, ch, ts[ti][1], udp_sock[ch])))
                ti += 1
        # every UDP_DATA frame sent back is one received datagram, header = the replying peer
        back = [o for o in outs if o[0] == "F" and int(o[2]) == CMD["D"]]
        froms = [("%s,%d," % (it[2][0], it[2][1])).encode() + it[1][:4096] for it in io if it[0] == "f"] + \
                [b"0.0.0.0,0," + it[1][:4096] for it in io if it[0] == "d"] + [b"0.0.0.0,0,"]
        for o in back:
            if unhx(o[3]) not in froms:
                bad.append(("c11_one_to_one", "step %d: UDP_DATA frame %r matches no received datagram" % (i, o)))
    if watch is not None and prop != "C10":
        bad += udp_close_oracle(evs, steps, watch)
    return bad


UDP_WHAT = {
    "c11_udp_association_not_closed_on_server":
        "'an association idle for 30 seconds is closed on both ends': UDP association closed by the client (UDP_CLOSE processed by "
        "the server) but the server still holds a live UdpProxy for it - its remote socket is still open and in select's read set",
    "c11_udp_data_after_close":
        "server emitted UDP_DATA on a channel after UDP_CLOSE without a new UDP_OPEN for that association: a late reply from the "
        "remote host, read from the closed association's socket, was forwarded on the closed channel (which may by then belong to another source)",
    "c11_udp_socket_read_after_close":
        "the server still read from the remote socket of a UDP association in an iteration after the one that processed its UDP_CLOSE",
    "c11_reply_delivered_to_another_source":
        "'each reply is delivered to that source': a reply read from the remote socket of one source's association was delivered to another source",
}


def udp_what(kind):
    return "%s: %s" % (kind, UDP_WHAT[kind]) if kind in UDP_WHAT else kind


UDP_CLOSED_WHAT = ("c11_idle_expiry_closed_on_both_ends: 'an association idle for 30 seconds is closed on both ends' - the server "
                   "processed the client's UDP_CLOSE for an association in an EARLIER iteration, yet ")


def udp_close_oracle(evs, steps, watch):
    """C11 'closed on both ends ... later traffic opens a fresh one', judged at the server's kernel boundary only (the
    frames the real loop was fed, the read sets it handed to select(), the recvfrom() calls it made, the frames it put
    on the tunnel); Props/C11.v c11_idle_expiry_server_close + c11_server_handlers_live state the same of the model (UDP_CLOSE
    turns the handler's ok flag off; after every iteration only live handlers remain in the list the loop polls).
    An association = the socket created by a UDP_OPEN frame; it is retired by the UDP_CLOSE frame on its identifier.
    From the iteration AFTER the one that processed the UDP_CLOSE (inside that iteration the select round had already
    reported the socket): (a) the socket is no longer in select's read set, (b) no datagram is read from it and no
    UDP_DATA frame is produced from it - whether or not the identifier has been opened again in the meantime."""
    bad, held = [], False
    assoc, retired = {}, {}      # identifier -> socket id of the live association;  socket id -> (identifier, iteration of the close)
    sel = dict((w[1], w[2]) for w in watch if w[0] == "sel")
    for i, ev in enumerate(evs):
        if i >= len(steps) or not steps[i].startswith("OK "):
            break
        now, frames = ev[0], ev[1]
        outs = parse_outs(steps[i])
        for w in watch:
            if w[0] == "rx" and w[1] == i and w[2] in retired and retired[w[2]][1] < i:
                ch, ci = retired[w[2]]
                o = outs[w[3]] if w[3] < len(outs) else None
                if o is not None and o[0] == "F" and int(o[2]) == CMD["D"]:
                    bad.append(("c11_udp_data_after_close",
                                UDP_CLOSED_WHAT + "in iteration %d (time %d) the server read a late reply %r from the closed association's "
                                "remote socket %d and emitted UDP_DATA on identifier %d (closed in iteration %d)%s: late reply forwarded "
                                "on a closed channel" % (i, now, w[4][:40], w[2], int(o[1]), ci,
                                                         " without a new UDP_OPEN" if int(o[1]) not in assoc else
                                                         ", which by now belongs to another association (socket %d)" % assoc[int(o[1])])))
                else:
                    bad.append(("c11_udp_socket_read_after_close",
                                UDP_CLOSED_WHAT + "in iteration %d (time %d) it still read from the closed association's socket %d "
                                "(identifier %d, closed in iteration %d)" % (i, now, w[2], ch, ci)))
        ks = [o for o in outs if o[0] == "K"]
        ki = 0
        for f in frames:
            if f[1] == "O" and ki < len(ks):
                assoc[f[0]] = int(ks[ki][1])
                ki += 1
            elif f[1] == "C" and f[0] in assoc:
                retired[assoc.pop(f[0])] = (f[0], i)
        for sk in ([] if held else sel.get(i + 1, [])):
            if sk in retired and retired[sk][1] <= i:
                ch, ci = retired[sk]
                held = True
                bad.append(("c11_udp_association_not_closed_on_server",
                            "c11_idle_expiry_closed_on_both_ends: UDP association on identifier %d closed by the client (UDP_CLOSE "
                            "processed by the server in iteration %d) but after iteration %d the server still holds a live "
                            "UdpProxy for it: its remote socket %d is still open and in select's read set (state: %s)"
                            % (ch, ci, i, sk, steps[i].split(" | ")[1].split(" ")[0][:120])))
                break
        if any(w != "c11_udp_association_not_closed_on_server" for w, _ in bad):
            break        # one report of each kind: still held after the close / a late datagram read and forwarded
    return bad


def late_udp_replies_offered(evs, steps):
    """coverage of the histories: (UDP_CLOSE frames the server processed for a live association, later iterations in
    which the script makes the remote socket of such a closed association readable)"""
    assoc, retired, n = {}, set(), 0
    nclose = 0
    for i, ev in enumerate(evs):
        if i >= len(steps) or not steps[i].startswith("OK "):
            break
        n += sum(1 for x in ev[2] if x in retired)
        ks = [o for o in parse_outs(steps[i]) if o[0] == "K"]
        ki = 0
        for f in ev[1]:
            if f[1] == "O" and ki < len(ks):
                assoc[f[0]] = int(ks[ki][1])
                ki += 1
            elif f[1] == "C" and f[0] in assoc:
                retired.add(assoc.pop(f[0]))
                nclose += 1
    return nclose, n


ATTEMPT_WHAT = ("c10_attempts: one DNS query led to more than 3 resolver attempts - the property allows 'at most three attempts on "
                "network errors', whatever mixture of connect / send and receive errors (Props/C10.v c10_attempt_budget_whole_life: every run of "
                "try_send keeps tries <= 3 and tries counts the attempts made so far; c10_target_attempts: a run of try_send, "
                "entered from dns_req or re-entered from callback, makes at most 3 - tries attempts and advances tries by exactly as many; "
                "c10_target_retry: a receive error re-sends within the same budget)")


def attempt_oracle(ops):
    """'at most three attempts on network errors', per query, over the WHOLE life of the query (any number of iterations).
    Looks only at the boundary: ops is the trace the fake environment keeps of (Q) a DNS_REQ frame handed by the real Mux to
    the real server.main, (C)/(S) connect / send on a resolver socket, (R) recv on a resolver socket.  An attempt = one
    connect on a fresh resolver socket.  It belongs to the DNS_REQ frame dispatched last before it in the same iteration,
    or - when a recv on a resolver socket came in between - to the query that socket was opened for.
    Returns [(what, detail)] and the per-query attempt counts."""
    owner, hist, cur, cur_step, why = {}, {}, None, None, "the DNS_REQ frame"
    order = []
    for op in ops:
        if op[1] != cur_step:
            cur, cur_step = None, op[1]
        if op[0] == "Q":
            cur = (op[1], len([q for q in order if q[0] == op[1]]), op[2])
            order.append(cur)
            hist[cur] = []
            why = "the DNS_REQ frame"
        elif op[0] == "R":
            cur = owner.get(op[2])
            why = "recv on socket %d -> %s" % (op[2], "data" if op[3] else "error")
        elif op[0] == "C":
            if cur is not None:
                owner[op[2]] = cur
                hist[cur].append({"iteration": op[1], "socket": op[2], "after": why, "connect": "ok" if op[3] else "error"})
                why = "connect error on socket %d" % op[2] if not op[3] else why
        elif op[0] == "S":
            if cur is not None and hist[cur] and hist[cur][-1]["socket"] == op[2]:
                hist[cur][-1]["send"] = "ok" if op[3] else "error"
                if not op[3]:
                    why = "send error on socket %d" % op[2]
    bad = []
    for q in order:
        if len(hist[q]) > 3:
            bad.append((ATTEMPT_WHAT, "the DNS_REQ on identifier %d of iteration %d (no. %d of that iteration) was tried %d times on resolver "
                        "sockets %s: %s" % (q[2], q[0], q[1], len(hist[q]), [a["socket"] for a in hist[q]],
                                            "; ".join("attempt %d in iteration %d after %s" % (k + 1, a["iteration"], a["after"])
                                                      for k, a in enumerate(hist[q])))))
    return bad, [len(hist[q]) for q in order]


def gen_attempt_script(rng, quick):
    """one to three queries, each followed for many iterations by resolver trouble: connect / send errors at dispatch and
    receive errors (mostly NET_ERRS) on whatever socket the query currently waits on, in any mixture and well past three
    errors in total; now and then an answer.  Socket ids are predicted with the documented budget (the k-th attempt of the
    script opens socket k-1); when the code under test leaves the budget the prediction merely goes stale (ready sockets
    that nobody waits on are ignored by the real loop)."""
    to_ns = (rng.choice(V4 + V6), rng.choice([53, 0])) if rng.random() < 0.5 else None
    sysns = [] if to_ns else rng.sample(V4 + V6, rng.randint(0, 3))
    now = rng.choice([0, 1000])
    evs, nsock = [], 0
    live = {}        # chan -> [socket id waited on or None, attempts so far]
    chans = rng.sample(range(1, 40), 3)

    def attempts(io, budget, p_err):
        """script the outcomes of one run of try_send: returns (socket id kept or None, attempts made)"""
        nonlocal nsock
        made = 0
        while made < budget:
            if to_ns is None:
                io.append(("n", rng.randint(0, 5)))
            made += 1
            sid = nsock
            nsock += 1
            r = rng.random()
            if r >= p_err:
                io.extend([("k",), ("k",)])
                return sid, made
            e = ("e", rng.choice(NET_ERRS if rng.random() < 0.9 else OTHER_ERRS))
            io.extend([e] if rng.random() < 0.5 else [("k",), e])
            if e[1] not in NET_ERRS:
                return None, made
        return None, made
    p_send = rng.choice([0.0, 0.2, 0.5])
    for it in range(rng.randint(3, 7 if quick else 10)):
        now += rng.choice([0, 1, 1, 2, 5])
        frames, ready, io = [], [], []
        if it == 0 or (len(live) < len(chans) and rng.random() < 0.3):
            ch = [c for c in chans if c not in live][0]
            frames.append((ch, "Q", rand_payload(rng, False), 0))
            sid, made = attempts(io, 3, p_send)
            live[ch] = [sid, made]
        else:
            # handlers are visited in the order they were created = ascending first socket id; keep it simple: sorted ids
            for ch in sorted(live, key=lambda c: (live[c][0] is None, live[c][0])):
                sid, made = live[ch]
                if sid is None or rng.random() < 0.25:
                    continue
                ready.append(sid)
                if rng.random() < 0.85:
                    e = rng.choice(NET_ERRS if rng.random() < 0.92 else OTHER_ERRS)
                    io.append(("e", e))
                    if e in NET_ERRS:
                        nsid, m = attempts(io, 3 - made, p_send)
                        live[ch] = [nsid, made + m]
                    else:
                        live[ch] = [None, made]
                else:
                    io.append(("d", rand_payload(rng, False)))
                    live[ch] = [None, made]
            ready.sort()
            # beyond the budget: offer the sockets a fourth, fifth ... attempt would have opened as ready with an error too
            if rng.random() < 0.7:
                for extra in range(rng.randint(1, 3)):
                    ready.append(nsock + extra)
                    io.append(("e", rng.choice(NET_ERRS)))
        evs.append((now, frames, ready, io))
    return to_ns, sysns, evs


def handmade_attempt_scripts():
    E = errno
    out = []
    # receive errors only: refused three times, and the sockets a 4th / 5th attempt would open are refused as well
    out.append((("10.0.0.53", 53), [], [(0, [(1, "Q", b"q", 0)], [], []), (1, [], [0], [("e", E.ECONNREFUSED)]),
                                        (2, [], [1], [("e", E.ECONNREFUSED)]), (3, [], [2], [("e", E.ECONNREFUSED)]),
                                        (4, [], [3], [("e", E.ECONNREFUSED)]), (5, [], [4], [("d", b"answer of attempt 5")])]))
    # send error, receive error, receive error, then the socket of a would-be 4th attempt answers
    out.append((("10.0.0.53", 53), [], [(0, [(1, "Q", b"q", 0)], [], [("k",), ("e", E.ENETUNREACH), ("k",), ("k",)]),
                                        (1, [], [1], [("e", E.ECONNREFUSED)]), (2, [], [2], [("e", E.EHOSTUNREACH)]),
                                        (3, [], [3], [("d", b"answer of attempt 4")])]))
    # connect error twice + ok at dispatch (budget used up), then one receive error
    out.append((None, ["8.8.8.8"], [(0, [(1, "Q", b"q", 0)], [], [("n", 0), ("e", E.ENETUNREACH), ("n", 0), ("e", E.ETIMEDOUT), ("n", 0), ("k",), ("k",)]),
                                    (1, [], [2], [("e", E.ECONNREFUSED), ("n", 0)]), (2, [], [3], [("e", E.ECONNREFUSED), ("n", 0)])]))
    # two queries, errors interleaved: each has its own budget
    out.append((("10.0.0.53", 53), [], [(0, [(1, "Q", b"a", 0), (2, "Q", b"b", 0)], [], []),
                                        (1, [], [0, 1], [("e", E.ECONNREFUSED), ("k",), ("k",), ("e", E.ECONNREFUSED), ("k",), ("k",)]),
                                        (2, [], [2, 3], [("e", E.ECONNREFUSED), ("k",), ("k",), ("e", E.ECONNREFUSED), ("k",), ("k",)]),
                                        (3, [], [4, 5], [("e", E.ECONNREFUSED), ("e", E.ECONNREFUSED)]),
                                        (4, [], [6, 7], [("e", E.ECONNREFUSED), ("e", E.ECONNREFUSED)])]))
    return out


def crash_causes(evs, i):
    """exception classes that iteration i of the script itself justifies (Coq: step_cause, with the ghost view
    `track` of mux.channels computed from the frames alone): AssertionError = DNS_REQ/UDP_OPEN on an identifier
    that is open, or (once UDP_OPEN has been seen) a recvfrom peer text > 61000 bytes; ValueError = UDP_OPEN /
    UDP_DATA body that does not parse; OverflowError = UDP_DATA port > 65535"""
    open_, udp_seen, allowed = [], False, set()
    for j in range(i + 1):
        now, frames, ready, io = evs[j]
        allowed = set()
        for ch, k, d, tag in frames:
            if k in ("Q", "O") and ch in open_:
                allowed.add("AssertionError")
            if k == "O":
                udp_seen = True
                if not d.isdigit():
                    allowed.add("ValueError")
                if ch not in open_:
                    open_.append(ch)
            elif k == "C":
                if ch in open_:
                    open_.remove(ch)
            elif k == "D":
                p = d.split(b",", 2)
                if not (len(p) == 3 and p[1].isdigit()):
                    allowed.add("ValueError")
                elif int(p[1]) > 65535:
                    allowed.add("OverflowError")
        if udp_seen and any(it[0] == "f" and len(it[2][0]) > 61000 for it in io):
            allowed.add("AssertionError")
    return allowed


def _frame_ok(f):
    ch, k, d, tag = f
    if k == "O":
        return d.isdigit()
    if k == "D":
        p = d.split(b",", 2)
        return len(p) == 3 and p[1].isdigit() and int(p[1]) <= 65535
    return True


def ser_client(method, maxc, family, evs):
    return {"side": "client", "method": method, "maxc": maxc, "family": family,
            "events": [[hx(x) if isinstance(x, bytes) else (list(x) if isinstance(x, tuple) else x) for x in e] for e in evs]}


def des_client(d):
    evs = []
    for e in d["events"]:
        if e[0] in ("D", "U"):
            evs.append((e[0], e[1], tuple(e[2]), tuple(e[3]) if e[3] else None, unhx(e[4])))
        elif e[0] == "T":
            evs.append(("T", e[1], e[2], tuple(e[3])))
        elif e[0] == "K":
            evs.append(("K", e[1]))
        else:
            evs.append(tuple(["F", e[1], e[2], unhx(e[3])] + list(e[4:])))
    return d["method"], d["maxc"], d["family"], evs


def ser_server(to_ns, sysns, evs):
    def ioj(it):
        return [hx(x) if isinstance(x, bytes) else (list(x) if isinstance(x, tuple) else x) for x in it]
    return {"side": "server", "to_ns": list(to_ns) if to_ns else None, "sysns": list(sysns),
            "events": [[now, [[ch, k, hx(d), tag] for ch, k, d, tag in frames], list(ready), [ioj(i) for i in io]]
                       for now, frames, ready, io in evs]}


def des_server(d):
    evs = []
    for now, frames, ready, io in d["events"]:
        ios = []
        for it in io:
            if it[0] in ("d",):
                ios.append(("d", unhx(it[1])))
            elif it[0] == "f":
                ios.append(("f", unhx(it[1]), tuple(it[2])))
            else:
                ios.append(tuple(it))
        evs.append((now, [(f[0], f[1], unhx(f[2]), f[3]) for f in frames], ready, ios))
    return (tuple(d["to_ns"]) if d["to_ns"] else None), d["sysns"], evs


# ======================================================================
# the check shared by C10 and C11

FIDS = {"C10": ["F3", "F10", "F16"], "C11": ["F3u", "F4", "F16u", "F80"]}


def handmade_client(prop):
    A, B, C = ("10.0.0.1", 4000), ("10.0.0.2", 4000), ("10.0.0.1", 4001)
    R, S = ("8.8.8.8", 53), ("1.1.1.1", 123)
    out = []
    for eps in (29, 30, 31):           # the 30-second horizon: t-1, t, t+1 (strict <)
        out.append(("B", 65535, 2, [("D", 100, A, None, b"q1"), ("D", 101, B, None, b"q2"),
                                    ("D", 100 + eps, C, None, b"q3"), ("F", 1, "R", b"late", None),
                                    ("F", 2, "R", b"r2", None), ("F", 2, "R", b"dup", None)]))
        out.append(("T", 65535, 2, [("U", 100, A, R, b"a"), ("U", 110, B, S, b"b,c"), ("U", 111, A, S, b""),
                                    ("D", 110 + eps, C, R, b"x"), ("U", 111 + eps, A, R, b"fresh?"),
                                    ("F", 1, "D", b"8.8.8.8,53,re,ply", None), ("F", 2, "D", b"1.1.1.1,123,", None)]))
        out.append(("T", 65535, 2, [("U", 100, A, R, b"a"), ("T", 100 + eps, 2, ("9.9.9.9", 80)), ("U", 101 + eps, A, R, b"b")]))
    for maxc in (1, 2, 3):             # exhaustion and wrap-around
        evs = [("D", 100 + i, ("10.0.0.%d" % (i + 1), 999), R, bytes([65 + i])) for i in range(maxc + 2)]
        evs += [("F", 1, "R", b"one", None), ("D", 120, A, R, b"after"), ("D", 140, B, R, b"expired others"),
                ("U", 141, A, R, b"u"), ("U", 141, B, R, b"u2"), ("U", 141, C, R, b"u3"), ("U", 141, ("10.9.9.9", 1), R, b"u4")]
        out.append(("T", maxc, 2, evs))
    big = bytes(range(256)) * 17
    out.append(("B", 65535, 2, [("D", 5, A, None, big[:4096]), ("D", 5, B, None, big[:4097]), ("F", 1, "R", big[:4096], None),
                                ("F", 2, "R", b"", None), ("F", 7, "R", b"nobody", None)]))
    out.append(("T", 65535, 10, [("U", 5, ("fd00::1", 7, 0, 0), ("2001:db8::53", 53), big[:4096]),
                                 ("F", 1, "D", b"2001:db8::53,53," + big[:4096], None),
                                 ("D", 6, ("fd00::1", 8, 0, 0), ("fd00::2", 53), b"\0,\0"), ("F", 2, "R", b",,,", None)]))
    return out


def handmade_server(prop):
    E = errno
    out = []
    out.append((("10.0.0.53", 53), [], [(100, [(1, "Q", b"q", 0)], [], [("k",), ("k",)]),
                                        (101, [], [0], [("d", b"first")]), (102, [], [0], [("d", b"late")])]))
    # query -> error -> retry -> reply; duplicate replies; three failures
    out.append((None, ["8.8.8.8", "9.9.9.9"], [
        (100, [(1, "Q", b"q,1", 0)], [], [("n", 0), ("k",), ("e", E.ECONNREFUSED), ("n", 1), ("k",), ("k",)]),
        (101, [], [1], [("e", E.ECONNREFUSED), ("n", 1), ("k",), ("k",)]),
        (102, [], [2], [("d", b"answer")]), (103, [], [0, 1, 2], [("d", b"dup")])]))
    out.append((None, [], [(100, [(2, "Q", b"", 0)], [], [("n", 0), ("e", E.ENETUNREACH), ("n", 0), ("e", E.EHOSTUNREACH), ("n", 0), ("k",), ("e", E.ETIMEDOUT), ("n", 0), ("k",)]),
                           (130, [], [], []), (131, [], [], [])]))
    out.append((("10.0.0.53", 0), [], [(100, [(2, "Q", b"x", 0)], [], [("e", E.EPERM)]), (101, [(3, "Q", b"y", 0)], [], [("k",), ("e", E.EMSGSIZE)]),
                                       (130, [], [], []), (131, [], [], []), (132, [], [], [])]))
    for eps in (29, 30, 31):
        out.append((("10.0.0.53", 53), [], [(100, [(1, "Q", b"a", 0)], [], []), (110, [(2, "Q", b"b", 0)], [], []),
                                            (100 + eps, [], [], []), (110 + eps, [], [0], [("d", b"r")]), (112 + eps, [], [1], [("d", b"r2")])]))
    # UDP life cycle, close racing with data, re-open, errors
    out.append((None, [], [(5, [(7, "O", b"2", 0), (7, "D", b"1.2.3.4,53,a,b", 0), (7, "D", b"5.6.7.8,123,", 0)], [], [("k",), ("e", E.ENETUNREACH)]),
                           (6, [], [0], [("f", b"re,ply", ("1.2.3.4", 53))]), (7, [], [0], [("e", E.ECONNREFUSED)]),
                           (8, [(7, "C", b"", 0)], [0], [("f", b"racing", ("5.6.7.8", 123))]), (9, [(7, "D", b"1.2.3.4,53,late", 0)], [0], []),
                           (10, [(7, "O", b"10", 0), (7, "D", b"fd00::1,53,v6", 0)], [], []), (50, [], [1], [("f", b"x" * 5000, ("fd00::1", 53, 0, 0))])]))
    out.append((None, [], [(5, [(7, "O", b"2", 0), (7, "C", b"", 0), (7, "O", b"2", 0)], [], [])]))     # Fatal: already open
    out.append((None, [], [(5, [(7, "O", b"2", 0), (7, "O", b"2", 0)], [], [])]))                          # assert
    out.append((None, [], [(5, [(7, "O", b"2", 0)], [], []), (6, [(7, "Q", b"q", 0)], [], [])]))           # assert
    # the witnesses of Proofs/DgramServer_lemmas.v (c10_server_causes_example, c10_server_alias_example)
    out.append((("n", 53), [], [(0, [(5, "O", b"2", 0), (5, "Q", b"q", 1)], [], [])]))                     # w_reopen
    out.append((("n", 53), [], [(0, [(5, "O", b"x", 0)], [], [])]))                                        # w_badopen
    out.append((("n", 53), [], [(0, [(5, "O", b"2", 0), (5, "D", b"a,65536,", 0)], [], [])]))              # w_bigport
    out.append((("n", 53), [], [(0, [(5, "O", b"2", 0), (5, "C", b"", 0), (5, "O", b"2", 0)], [], [])]))   # w_fatal_reopen
    out.append((("n", 53), [], [(0, [(5, "O", b"2", 0), (5, "C", b"", 0)], [], []), (0, [(5, "O", b"2", 0)], [], [])]))
    # aliasing corner: identifier 7 re-used while its first DnsProxy is alive: the older proxy stays in
    # `handlers`, unregistered, past its deadline; its late reply is still relayed (on identifier 7)
    out.append((("n", 53), [], [(0, [(7, "Q", b"a", 0)], [], []), (90, [(7, "Q", b"b", 1)], [], []), (100, [], [], []),
                                (200, [], [0], [("d", b"old")]), (201, [], [1], [("d", b"new")]), (202, [], [0, 1], [])]))
    # DNS and UDP mixed on neighbouring identifiers, close + re-use as DNS, oversize peer text
    out.append((None, ["8.8.8.8"], [(0, [(1, "O", b"2", 0), (2, "Q", b"q", 0), (1, "D", b"1.2.3.4,53,x", 0)], [], []),
                                    (1, [(1, "C", b"", 0)], [0, 1], [("f", b"r", ("1.2.3.4", 53)), ("d", b"ans")]),
                                    (2, [(1, "Q", b"again", 0)], [], []), (3, [], [2], [("d", b"ans2")])]))
    out.append((None, [], [(0, [(1, "O", b"2", 0)], [], []), (1, [], [0], [("f", b"r", ("a" * 70000, 53))])]))   # assert in Mux.send
    return out


# ======================================================================
# the two-ended system on the real code (Coq: ystep / system_no_cross, Proofs/DgramSystem_lemmas.v)

KEY_OF_CMD = {0x420a: "Q", 0x420c: "O", 0x420d: "D", 0x420e: "C"}


class SystemRun:
    """The real client functions and the real server.main loop composed over two FIFO links (Coq: Model/DgramSys.v
    ystep).  Every prefix is re-executed on fresh real objects (scripts are short).  The same events are recorded
    as a driver line (`line(fixes)`) so that the extracted model of the COMPOSITION is compared step by step
    (`steps`: observation, state of the component that ran, both links).
    Query payloads and resolver answers are unique, so 'who asked what' and 'which socket answered what' can be
    read off the real code's socket calls without any ghost state: a datagram carrying answer X goes astray iff
    X was received on a resolver socket whose request was captured from another asker."""

    def __init__(self, maxc, to_ns=("n", 53), method="B", family=2):
        self.maxc, self.to_ns, self.method, self.family = maxc, to_ns, method, family
        self.cevs, self.sevs, self.up, self.down = [], [], [], []
        self.asked, self.sock_req, self.ans_sock = {}, {}, {}
        self.live = []           # (chan, [socket ids]) of the DnsProxies in `handlers`
        self.hchans = []         # identifiers of all handlers (DnsProxy, UdpProxy) in `handlers`
        self.socks = []          # sockets they watch
        self.hyp_ok, self.cross, self.delivered, self.log, self.stuck = True, [], 0, [], None
        self.hyp_any_ok = True   # no_stale_alloc_any (Props/C11.v c11_system_never_raises)
        self.yevs, self.steps = [], []
        # ghosts for "forgotten 30 seconds later" on the server side of the composition
        self.dsocks = []         # resolver sockets of ALL DnsProxies still in `handlers` (also overdue ones)
        self.sock_t0 = {}        # resolver socket -> server time at which its query was sent
        self.prev_snow = None    # time of the previous server iteration (its sweep has run)
        self.stale_waits, self.retired_frames = [], []
        self.ops = []            # the schedule, replayable (system_replay)
        # UDP associations as the wire says (no model): source of every up-link frame, socket of every UDP_OPEN the
        # server processed, sockets retired by a processed UDP_CLOSE, unique reply payload -> socket it was read from
        self.up_src = []         # parallel to self.up: the local source whose capture produced the frame (None for sweeps)
        self.sock_src = {}       # server socket id -> source of the association it was opened for
        self.usock = {}          # identifier -> socket id of the association the server has open (frames processed)
        self.retired_socks = []  # sockets of associations closed by a UDP_CLOSE the server processed
        self.reply_sock = {}     # unique remote reply payload -> server socket it arrived on
        self.udp_hyp_ok = True   # no identifier handed out while frames of its previous incarnation are in flight (spec side)
        self.udp_cross = []
        self.reply_raced = set()
        self.late_offered = 0    # iterations in which a closed association's socket was made readable
        self.srv_steps, self.srv_watch = [], []

    def in_flight_spec(self, ch):
        """no_stale_alloc_any evaluated without the server's handler list (a faulty server's zombies do not excuse
        anything): an opening frame on the up link, an association / query the server legitimately holds, a frame on
        the down link"""
        return (any(f[0] == ch and f[1] in ("Q", "O") for f in self.up)
                or (ch in self.usock and not any(f[0] == ch and f[1] == "C" for f in self.up))     # FIFO: the close gets there first
                or any(c == ch for c, _ in self.live) or any(d[0] == ch for d in self.down))

    def in_flight(self, ch):
        return (any(f[0] == ch and f[1] == "Q" for f in self.up) or any(c == ch for c, _ in self.live)
                or any(d[0] == ch and d[2] == "R" for d in self.down))

    def in_flight_any(self, ch):
        return (any(f[0] == ch and f[1] in ("Q", "O") for f in self.up) or ch in self.hchans
                or any(d[0] == ch for d in self.down))

    def _links(self):
        return "U %s | W %s" % (",".join("%d:%s:%s" % (f[0], f[1], hx(f[2])) for f in self.up) or "~",
                                ",".join("%d:%s" % (d[0], hx(d[1])) for d in self.down) or "~")

    def _client(self):
        steps = run_client(self.method, self.maxc, self.family, self.cevs)
        st = steps[len(self.cevs) - 1] if len(steps) >= len(self.cevs) else steps[-1]
        if not st.startswith("OK "):
            self.stuck = "client: " + st
            self.steps.append(st + " client")
            return None, None
        return parse_outs(st), st

    def accept_ev(self, cev):
        """cev: a client accept event of run_client: ("D"|"U", now, src, dst|None, payload) | ("T", now, family, dst)"""
        self.ops.append(["accept_ev", [hx(x) if isinstance(x, bytes) else (list(x) if isinstance(x, tuple) else x) for x in cev]])
        self.cevs.append(cev)
        if cev[0] == "T":
            self.yevs.append("A|T,%d,%d,%s" % (cev[1], cev[2], addr_s(cev[3])))
        else:
            self.yevs.append("A|%s,%d,%s,%s,%s" % (cev[0], cev[1], addr_s(cev[2]), oaddr_s(cev[3]), hx(cev[4])))
        outs, st = self._client()
        if outs is None:
            return
        for o in outs:
            if o[0] == "F":
                ch, cmd, data = int(o[1]), int(o[2]), unhx(o[3])
                if cmd == CMD["Q"] and self.in_flight(ch):
                    self.hyp_ok = False          # no_stale_alloc is violated by this run
                if cmd in (CMD["Q"], CMD["O"], 0x4203) and self.in_flight_any(ch):
                    self.hyp_any_ok = False      # no_stale_alloc_any is violated by this run
                if cmd in (CMD["Q"], CMD["O"], 0x4203) and self.in_flight_spec(ch):
                    self.udp_hyp_ok = False
                self.up.append((ch, KEY_OF_CMD.get(cmd, "X"), data, 0))
                self.up_src.append(tuple(cev[2]) if cev[0] == "U" and cmd == CMD["O"] else None)
        self.steps.append("%s | %s" % (st, self._links()))
        self.log.append("A %s -> %s" % (self.yevs[-1], ",".join(":".join(o) for o in outs) or "~"))

    def accept(self, now, src, payload):
        self.asked[payload] = src
        self.ops.append(["asked", hx(payload), list(src)])
        self.accept_ev(("D", now, src, None if self.method == "B" else (("2001:db8::53", 53) if self.family == 10 else ("8.8.8.8", 53)),
                        payload))

    def server_io(self, now, k, ready, io):
        self.ops.append(["server_io", now, k, list(ready), [[hx(x) if isinstance(x, bytes) else (list(x) if isinstance(x, tuple) else x)
                                                            for x in it] for it in io]])
        frames, self.up = self.up[:k], self.up[k:]
        fsrc, self.up_src = self.up_src[:k], self.up_src[k:]
        self.sevs.append((now, frames, ready, io))
        self.yevs.append("S|%d/%d/%s/%s" % (now, k, ",".join(str(x) for x in ready) or "~", ",".join(io_s(i) for i in io) or "~"))
        self.late_offered += sum(1 for x in ready if x in self.retired_socks)
        watch = []
        steps = run_server(self.to_ns, [], self.sevs, watch=watch)
        self.srv_steps, self.srv_watch = steps, watch
        st = steps[len(self.sevs) - 1] if len(steps) >= len(self.sevs) else steps[-1]
        if not st.startswith("OK "):
            self.stuck = "server: " + st
            self.steps.append(st + " server")
            return
        fresh = []
        for w in watch:
            if w[0] == "rx" and w[1] == len(self.sevs) - 1 and w[4].startswith(b"uniq-"):
                self.reply_sock.setdefault(w[4], w[2])
                if w[2] not in self.retired_socks:
                    fresh.append((w[4], w[2]))
        ks = [o for o in parse_outs(st) if o[0] == "K"]
        ki = 0
        chan_of = dict((v, c) for c, v in self.usock.items())
        for f, src in zip(frames, fsrc):
            if f[1] == "O" and ki < len(ks):
                self.usock[f[0]] = int(ks[ki][1])
                self.sock_src[int(ks[ki][1])] = src
                ki += 1
            elif f[1] == "C" and f[0] in self.usock:
                self.retired_socks.append(self.usock.pop(f[0]))
        # a reply the select round had reported before this iteration's UDP_CLOSE was processed crossed the close on the wire:
        # like a frame already on the down link, it is 'in flight' (not judged by the cross-delivery oracle)
        # (so is a reply read while the client's UDP_CLOSE for that association was still waiting on the up link)
        self.reply_raced.update(p for p, sk in fresh if sk in self.retired_socks
                                or any(f[0] == chan_of.get(sk) and f[1] == "C" for f in self.up))
        for o in parse_outs(st):
            if o[0] == "S":
                self.sock_req[int(o[1])] = unhx(o[2])
                self.sock_t0.setdefault(int(o[1]), now)
            elif o[0] == "F":
                self.down.append((int(o[1]), unhx(o[3]), "R" if int(o[2]) == CMD["R"] else "D"))
                sock = self.ans_sock.get(unhx(o[3])) if int(o[2]) == CMD["R"] else None
                t0 = self.sock_t0.get(sock)
                if t0 is not None and self.prev_snow is not None and t0 + 30 < self.prev_snow and self.hyp_ok:
                    # the query sent on that socket at t0 was past its deadline when the previous iteration swept:
                    # the server had to forget it then; a frame for it now is a violation whoever owns the identifier
                    self.retired_frames.append("server iteration at %d relayed the answer %r, read from resolver socket %d "
                                               "whose query %r was sent at %d (deadline %d, swept at %d), as DNS_RESPONSE "
                                               "on identifier %d" % (now, unhx(o[3]), sock, self.sock_req.get(sock), t0,
                                                                     t0 + 30, self.prev_snow, int(o[1])))
        hpart = st.split(" | ")[1].split(" ")[0][2:]
        self.live, self.hchans, self.socks, self.dsocks = [], [], [], []
        for h in ([] if hpart == "~" else hpart.split(",")):
            t = h.split(".")
            self.hchans.append(int(t[1]))
            if t[0] == "U":
                self.socks.append(int(t[2]))
            if t[0] == "D":
                ss = [] if t[3] == "~" else [int(x) for x in t[3].split("+")]
                self.socks += ss
                self.dsocks += ss
                if int(t[4]) < now:
                    # past its deadline and this iteration's sweep has run: by c10_expiry_server the query is forgotten.
                    # It does not count as "in flight" for the no-stale-allocation hypothesis (which speaks about what
                    # the run does, not about what a faulty server keeps)
                    if self.hyp_ok:
                        self.stale_waits.append("after the server iteration at %d the query on identifier %d (deadline %s) "
                                                "is still waited on, sockets %s" % (now, int(t[1]), t[4], ss))
                else:
                    self.live.append((int(t[1]), ss))
        self.prev_snow = now if self.prev_snow is None else max(self.prev_snow, now)
        self.steps.append("%s | %s" % (st, self._links()))
        self.log.append("S %d k=%d ready=%r -> %s" % (now, k, ready, st[:120]))

    def server(self, now, k, ready, answer):
        io = [("k",), ("k",)] * sum(1 for f in self.up[:k] if f[1] == "Q")      # connect + send of each new DnsProxy
        io += [("d", answer)] if ready else []
        if ready:
            self.ans_sock[answer] = ready[0]
            self.ops.append(["answer", hx(answer), ready[0]])
        self.server_io(now, k, ready, io)

    def deliver(self, err=None):
        self.ops.append(["deliver", err])
        (ch, data, kind), self.down = self.down[0], self.down[1:]
        self.cevs.append(("F", ch, kind, data, err))
        self.yevs.append("V|%s" % ("ok" if err is None else str(err)))
        outs, st = self._client()
        if outs is None:
            return
        for o in outs:
            if o[0] == "G":
                self.delivered += 1
                if kind == "R" and self.ans_sock:
                    payload = unhx(o[3])
                    req = self.sock_req.get(self.ans_sock.get(payload))
                    asker = self.asked.get(req)
                    if asker is None or addr_s(asker) != o[2]:
                        self.cross.append("answer %r to the query %r of %r was delivered to %s" % (payload, req, asker, o[2]))
                if kind == "D":
                    # 'each reply is delivered to THAT source': a unique reply read from the remote socket of source X's
                    # association may only ever be handed to X
                    body = data.split(b",", 2)[-1]
                    sk = self.reply_sock.get(body)
                    owner = self.sock_src.get(sk)
                    if sk is not None and owner is not None and addr_s(owner) != o[2] and body not in self.reply_raced:
                        self.udp_cross.append("the reply %r, read by the server from remote socket %d of the association of source %r%s, "
                                              "was delivered to %s" % (body, sk, owner, " (an association the client had closed with "
                                                                      "UDP_CLOSE before the reply came)" if sk in self.retired_socks else "", o[2]))
        self.steps.append("%s | %s" % (st, self._links()))
        self.log.append("V ch=%d %s -> %s" % (ch, hx(data), ",".join(":".join(o) for o in outs) or "~"))

    def line(self, fixes):
        toks = ["Y"] + ["1" if fixes[k] else "0" for k in ("F3", "F4", "F10", "F16", "F80")]
        toks += [self.method, str(self.maxc), str(self.family), addr_s(self.to_ns) if self.to_ns else "~", "~"]
        return " ".join(toks + self.yevs)


def system_stale_witness():
    """the run of Lemma stale_run (Props/C10.v c10_stale_reuse_example) on the real code"""
    A, B = ("10.0.0.1", 4000), ("10.0.0.2", 4000)
    r = SystemRun(1)
    r.accept(0, A, b"a")
    r.server(0, 1, [], None)
    r.accept(31, B, b"x")
    r.accept(31, B, b"b")
    r.server(30, 0, [0], b"o")
    r.deliver()
    return r


def system_random(rng, maxc, n, srcs=None, method="B", family=2):
    srcs = srcs or [("10.0.0.%d" % i, 4000 + i) for i in range(1, 5)]
    r = SystemRun(maxc, method=method, family=family)
    cnow = snow = 100
    qn = an = 0
    for _ in range(n):
        if r.stuck:
            break
        choices = ["A", "A", "S", "S"]
        if r.down:
            choices += ["V", "V", "V"]
        c = rng.choice(choices)
        if c == "A":
            cnow += rng.choice([0, 1, 5, 29, 30, 31])
            qn += 1
            r.accept(cnow, rng.choice(srcs), b"q%d" % qn)
        elif c == "S":
            snow += rng.choice([0, 1, 5, 29, 30, 31])
            socks = r.dsocks      # every resolver socket the loop waits on (a correct server holds none that is overdue)
            ready = [rng.choice(socks)] if socks and rng.random() < 0.7 else []
            an += 1
            r.server(snow, rng.randint(0, len(r.up)), ready, b"r%d" % an)
        else:
            r.deliver()
    return r


def system_random_mixed(rng, maxc, n):
    """DNS queries, UDP datagrams and (rarely) TCP accepts mixed, tproxy method; any socket outcomes"""
    srcs = [("10.0.0.%d" % i, 4000 + i) for i in range(1, 5)]
    dsts = [("8.8.8.8", 53), ("1.1.1.1", 123), ("fd00::53", 65535)]
    r = SystemRun(maxc, method="T")
    cnow = snow = 100
    qn = 0
    for _ in range(n):
        if r.stuck:
            break
        choices = ["D", "U", "U", "S", "S", "S"] + (["V"] * 4 if r.down else []) + (["T"] if rng.random() < 0.15 else [])
        c = rng.choice(choices)
        if c in ("D", "U", "T"):
            cnow += rng.choice([0, 1, 5, 29, 30, 31])
            qn += 1
            if c == "D":
                r.accept(cnow, rng.choice(srcs), b"q%d" % qn)
            elif c == "U":
                r.accept_ev(("U", cnow, rng.choice(srcs), rng.choice(dsts), rng.choice([b"u%d" % qn, b",", b"", b"a,b,%d" % qn])))
            else:
                r.accept_ev(("T", cnow, 2, ("9.9.9.9", 80)))
        elif c == "S":
            snow += rng.choice([0, 1, 5, 29, 30, 31])
            # what becomes readable is the REMOTE HOST's business: also the socket of an association the client has closed
            # meanwhile (a late reply).  A correct server no longer selects on it, so nothing happens then.
            pool = r.socks + [x for x in r.retired_socks if x not in r.socks]
            ready = sorted(set(rng.choice(pool) for _ in range(rng.choice([0, 1, 1, 2])))) if pool else []
            io = []
            for _ in range(rng.choice([0, 0, 2, 3, 5])):
                x = rng.random()
                if x < 0.45:
                    io.append(("k",))
                elif x < 0.6:
                    io.append(("d", b"r%d" % rng.randint(0, 99)))
                elif x < 0.85:
                    io.append(("f", rng.choice([b"re,ply", b"", b"x", b"uniq-%d,%d" % (qn, len(r.sevs))]), rng.choice(dsts)))
                else:
                    io.append(("e", rng.choice(NET_ERRS + OTHER_ERRS)))
            r.server_io(snow, rng.randint(0, len(r.up)), ready, io)
        else:
            r.deliver(None if rng.random() < 0.9 else rng.choice(NET_ERRS))
    return r


def system_udp_idle_case(rng, maxc):
    """'An association idle for 30 seconds is closed on both ends and later traffic from the same source opens a fresh
    one', end to end with LATE REPLIES FROM THE REMOTE HOST: source A sends a datagram (UDP_OPEN + UDP_DATA reach the
    server, possibly answered in time); A goes idle for `gap` seconds around the 30-second horizon; another capture
    (a datagram of source B or a DNS query) makes the client run its lazy sweep, the UDP_CLOSE reaches the server - in
    its own iteration or together with the new frames; AFTER that the remote host's reply arrives for A's old socket
    (once or several times, before and after B's traffic); everything is delivered; A sends again.  Unique replies."""
    A, B, R = ("10.0.0.1", 4001), ("10.0.0.2", 4002), rng.choice([("8.8.8.8", 53), ("fd00::53", 65535)])
    r = SystemRun(maxc, method="T")
    c = s = rng.choice([0, 100, 1000000])
    n = [0]

    def reply(sock, t):
        n[0] += 1
        r.server_io(t, 0, [sock], [("f", b"uniq-late-%d" % n[0], R)])
    r.accept_ev(("U", c, A, R, b"from-A"))
    r.server_io(s, len(r.up), [], [])
    old = list(r.socks)
    if old and rng.random() < 0.5:
        reply(old[0], s + 1)                       # a reply in time
        while r.down and not r.stuck:
            r.deliver()
    gap = rng.choice([29, 30, 31, 31, 32, 60, 100])
    other = rng.choice(["U", "U", "D"])
    if other == "U":
        r.accept_ev(("U", c + gap, B, R, b"from-B"))
    else:
        r.accept(c + gap, B, b"query-of-B")
    if not r.stuck and rng.random() < 0.6:
        # B again: when the identifier space is tiny its first datagram found no identifier free (it only ran the sweep);
        # this one is handed the identifier A's association has just given back
        r.accept_ev(("U", c + gap, B, R, b"from-B-2"))
    if r.stuck:
        return r
    split = rng.random() < 0.5                     # the UDP_CLOSE alone first, or together with B's frames
    r.server_io(s + gap, min(1, len(r.up)) if split else len(r.up), [], [("k",)] * 3)
    for t in range(rng.choice([1, 1, 2])):
        if old and not r.stuck:
            reply(old[0], s + gap + 1 + t)         # the late reply: A's association is closed if gap > 30
    if r.up and not r.stuck:
        r.server_io(s + gap + 3, len(r.up), [], [("k",)] * 3)
    if old and not r.stuck and rng.random() < 0.7:
        reply(old[0], s + gap + 4)
    while r.down and not r.stuck:
        r.deliver()
    if not r.stuck:
        r.accept_ev(("U", c + gap + 5, A, R, b"from-A-again"))
    if not r.stuck:
        r.server_io(s + gap + 5, len(r.up), old[:1], [("k",), ("f", b"uniq-last", R)])
    while r.down and not r.stuck:
        r.deliver()
    return r


def system_f80_witness():
    """Props/C11.v c11_f80_refuted on the real code: the frames of the real client kill the unrepaired server"""
    A, B, R = ("10.0.0.1", 4000), ("10.0.0.2", 4000), ("8.8.8.8", 53)
    r = SystemRun(1, method="T")
    r.accept_ev(("U", 0, A, R, b"a"))
    r.server_io(0, 2, [], [])
    r.accept_ev(("U", 31, B, R, b"x"))
    r.accept_ev(("U", 31, B, R, b"b"))
    r.server_io(1, 3, [], [])
    return r


def system_f81_witness():
    """Props/C11.v c11_system_stale_crash_refuted on the real code: a late DNS answer on an identifier re-used by a
    UDP association kills the client (ValueError in udp_done)"""
    A, B, R = ("10.0.0.1", 4000), ("10.0.0.2", 4000), ("8.8.8.8", 53)
    r = SystemRun(1, method="T")
    r.accept_ev(("D", 0, A, R, b"q"))
    r.server_io(0, 1, [], [])
    r.accept_ev(("U", 31, B, R, b"x"))
    r.accept_ev(("U", 31, B, R, b"b"))
    r.server_io(30, 0, [0], [("d", b"o")])
    r.deliver()
    return r


def _system_cases(ctx, rng, quick, prop="C10"):
    """the composed system: model of the composition vs the real composition, step by step; C10: no reply goes to
    another requester unless the run violates no_stale_alloc; C11: neither side fails unless the run violates
    no_stale_alloc_any, the server never"""
    fx = detect_fixes()
    runs = []
    w = system_stale_witness()
    ctx.count("system_stale_witness_" + ("cross" if w.cross and not w.hyp_ok else "unexpected"))
    ctx.case(("system", "stale-witness"), nontrivial=True, sample={"side": "system", "log": w.log, "cross": w.cross})
    if not (w.cross and not w.hyp_ok and w.stuck is None):
        ctx.disagree("system stale-reuse witness", {"log": w.log}, "cross=%r hyp_ok=%r stuck=%r" % (w.cross, w.hyp_ok, w.stuck),
                     "cross delivery under violated no_stale_alloc (Lemma stale_run)", holds=True)
    runs.append((w, "witness-stale"))
    w80 = system_f80_witness()
    runs.append((w80, "witness-F80"))
    if (w80.stuck == "server: FATAL") != (not fx["F80"]):
        ctx.disagree("system F80 witness", {"log": w80.log}, "stuck=%r" % w80.stuck, "FATAL iff F80 unrepaired", holds=True)
    w81 = system_f81_witness()
    runs.append((w81, "witness-F81"))
    if w81.stuck and "ValueError" in w81.stuck and not w81.hyp_any_ok:
        ctx.known("F81", "late DNS answer on an identifier re-used by a UDP association: ValueError in udp_done kills the client")
    else:
        ctx.disagree("system F81 witness", {"log": w81.log}, "stuck=%r hyp=%r" % (w81.stuck, w81.hyp_any_ok),
                     "client ValueError under violated no_stale_alloc_any (c11_system_stale_crash_refuted)", holds=True)
    for i in range(60 if quick else 1500):
        maxc = rng.choice([65535, 65535, 65535, 8, 2, 1])
        runs.append((system_random(rng, maxc, rng.randint(4, 14)), "dns"))
    for i in range(120 if quick else 3000):
        maxc = rng.choice([65535, 65535, 8, 3, 2, 1])
        runs.append((system_random_mixed(rng, maxc, rng.randint(4, 16)), "mixed"))
    # link-local askers: the same host and port on several interfaces ("never delivered to another requester" needs the
    # interface); tproxy path (recvmsg) and plain recvfrom path, AF_INET6 listener
    for i in range(40 if quick else 1000):
        maxc = rng.choice([65535, 65535, 8, 2])
        runs.append((system_random(rng, maxc, rng.randint(5, 14), srcs=V6_SCOPED, method="T" if i % 2 else "B", family=10),
                     "dns_scoped_askers"))
    if prop != "C10":
        for i in range(60 if quick else 1500):
            runs.append((system_udp_idle_case(rng, rng.choice([65535, 65535, 8, 2, 1])), "udp_idle_late_reply"))
    outs = ctx.run_driver([r.line(fx) for r, _ in runs])
    for (r, kind), o in zip(runs, outs):
        model = split_steps(o)
        ctx.count("system_runs")
        ctx.count("system_runs_" + kind)
        ctx.count("system_runs_hypothesis_" + ("holds" if r.hyp_ok else "violated"))
        ctx.count("system_runs_no_stale_alloc_any_" + ("holds" if r.hyp_any_ok else "violated"))
        ctx.count("system_datagrams_delivered", r.delivered)
        ctx.count("system_steps", len(r.steps))
        if r.stuck:
            ctx.count("system_runs_stuck_" + r.stuck.replace(": ", "_").replace(" ", "_"))
        if r.cross:
            ctx.count("system_cross_" + ("under_stale_reuse" if not r.hyp_ok else "VIOLATION"))
        ctx.case(("system", tuple(r.yevs), r.maxc), nontrivial=r.delivered > 0 or len(r.steps) > 3,
                 sample={"side": "system", "max_channel": r.maxc, "events": len(r.yevs), "delivered": r.delivered,
                         "no_stale_alloc": r.hyp_ok, "no_stale_alloc_any": r.hyp_any_ok, "stuck": r.stuck, "cross": r.cross[:1]})
        if r.steps != model:
            k = next((i for i, (a, b) in enumerate(zip(r.steps, model)) if a != b), min(len(r.steps), len(model)))
            ctx.disagree("system step %d" % k, {"line": r.line(fx)}, (r.steps + ["<end>"])[k][:600], (model + ["<end>"])[k][:600],
                         holds=not (r.cross and r.hyp_ok))
        if kind.startswith("witness"):
            continue
        if r.cross and r.hyp_ok:
            ctx.violation("c10_no_cross_composed", dict(system_rep(r), detail=r.cross))
        ctx.count("system_overdue_handlers_seen", len(r.stale_waits))
        if r.stale_waits:
            ctx.violation("c10_expired_query_still_waited_on", dict(system_rep(r), detail=r.stale_waits[0]))
        if r.retired_frames:
            ctx.violation("c10_reply_relayed_after_expiry", dict(system_rep(r), detail=r.retired_frames[0]))
        ctx.count("system_udp_closes_processed_by_server", len(r.retired_socks))
        ctx.count("system_late_replies_offered_to_closed_udp_sockets", r.late_offered)
        ctx.count("system_unique_udp_replies_read", len(r.reply_sock))
        if prop != "C10":
            for what, detail in system_udp_verdict(r):
                ctx.violation(udp_what(what), dict(system_rep(r), detail=detail))
        if r.stuck and r.stuck.startswith("server") and not (r.stuck == "server: FATAL" and not fx["F80"]):
            ctx.violation("c11_system_server_never_raises", {"system_log": r.log, "line": r.line(fx), "detail": r.stuck})
        elif r.stuck and r.stuck.startswith("client"):
            if r.hyp_any_ok:
                ctx.violation("c11_system_never_raises", {"system_log": r.log, "line": r.line(fx), "detail": r.stuck})
            else:
                ctx.count("system_client_failure_under_stale_reuse")


def system_rep(r):
    return {"system_log": r.log, "max_channel": r.maxc, "oracle": "system",
            "system": {"maxc": r.maxc, "method": r.method, "family": r.family, "to_ns": list(r.to_ns) if r.to_ns else None,
                       "ops": r.ops}}


def system_replay(d):
    """re-run a stored schedule of the composed system on the real code"""
    r = SystemRun(d["maxc"], tuple(d["to_ns"]) if d["to_ns"] else None, d["method"], d["family"])

    def un(x):
        return tuple(x) if isinstance(x, list) else x
    for op in d["ops"]:
        if r.stuck:
            break
        if op[0] == "asked":
            r.asked[unhx(op[1])] = tuple(op[2])
        elif op[0] == "answer":
            r.ans_sock[unhx(op[1])] = op[2]
        elif op[0] == "accept_ev":
            e = op[1]
            if e[0] == "T":
                r.accept_ev(("T", e[1], e[2], tuple(e[3])))
            else:
                r.accept_ev((e[0], e[1], tuple(e[2]), tuple(e[3]) if e[3] else None, unhx(e[4])))
        elif op[0] == "server_io":
            io = []
            for it in op[4]:
                if it[0] == "d":
                    io.append(("d", unhx(it[1])))
                elif it[0] == "f":
                    io.append(("f", unhx(it[1]), tuple(it[2])))
                else:
                    io.append(tuple(it))
            r.server_io(op[1], op[2], op[3], io)
        elif op[0] == "deliver":
            if r.down:
                r.deliver(op[1])
    return r


def system_verdict(r):
    """what the composed-system oracles say about a finished run (implementation only)"""
    v = []
    if r.retired_frames:
        v.append(("frame_for_retired_query", r.retired_frames[0]))
    if r.stale_waits:
        v.append(("expired_query_still_waited_on", r.stale_waits[0]))
    if r.cross and r.hyp_ok:
        v.append(("foreign_answer_delivered", r.cross[0]))
    return v + system_udp_verdict(r)


def system_udp_verdict(r):
    """C11 on the composition, implementation only: the server end of a closed association (udp_close_oracle on the
    real server's boundary) and 'each reply is delivered to that source' with unique replies"""
    v = udp_close_oracle(r.sevs, r.srv_steps, r.srv_watch)
    if r.udp_cross and r.udp_hyp_ok:
        v.append(("c11_reply_delivered_to_another_source", r.udp_cross[0]))
    return v


# ----------------------------------------------------------------------
# C06 on the composition: a resolver's late answer racing with expiry on BOTH ends, small identifier spaces

def system_late_reply_case(rng, maxc, gap, order):
    """maxc queries take all identifiers and reach the server; some are answered; `gap` seconds pass on both ends (the
    client sweeps on its next accept, the server in its next iteration); new askers arrive and are handed the recycled
    identifiers; then the resolver's LATE answer for an old, unanswered query arrives on its old socket; everything is
    delivered.  order: which end lets the time pass first.  Unique query and answer payloads throughout."""
    r = SystemRun(maxc)
    srcs = [("10.0.0.%d" % i, 4000 + i) for i in range(1, 9)]
    c = s = 100
    for i in range(maxc):
        r.accept(c, srcs[i], b"old-q%d" % i)
    r.server(s, len(r.up), [], None)
    old = list(r.dsocks)
    answered = [x for x in old if rng.random() < 0.3]
    for n, x in enumerate(answered):
        r.server(s + 1, 0, [x], b"old-a%d" % n)
        if r.down:
            r.deliver()
    pending = [x for x in old if x not in answered]

    def client_time():
        r.accept(c + gap, srcs[6], b"probe-after-gap")        # no identifier may be free: dropped, but it sweeps

    def server_time():
        r.server(s + gap, len(r.up), [], None)
    for f in ((client_time, server_time) if order == 0 else (server_time, client_time)):
        if not r.stuck:
            f()
    for i in range(maxc):
        if not r.stuck:
            r.accept(c + gap + 1, srcs[3 + i % 3], b"new-q%d" % i)
    if not r.stuck:
        r.server(s + gap + 1, len(r.up), [], None)
    for n, x in enumerate(pending):
        if r.stuck:
            break
        r.server(s + gap + 2, 0, [x], b"late-a%d" % n)        # has no effect when the server no longer waits on x
    new = [x for x in r.dsocks if x not in old]
    for n, x in enumerate(new):
        if r.stuck:
            break
        r.server(s + gap + 3, 0, [x], b"new-a%d" % n)
    while r.down and not r.stuck:
        r.deliver()
    return r


def run_c06_system(ctx):
    """C06 'a message that arrives for a flow that has already been closed is discarded and never reaches another flow'
    for the resolver's late answer racing with expiry, on the real client + real server.main over two FIFO links:
    (i) the server emits no frame for a query it had to forget (deadline passed before its previous iteration);
    (ii) an asker receives only the answer to its own query — judged unless the run itself violates the standing
    no-stale-allocation hypothesis (re-use while the previous incarnation is legitimately in flight)."""
    rng, quick = ctx.rng, ctx.quick()
    runs = []
    for maxc in (1, 2, 3, 4):
        for gap in (29, 30, 31, 32, 45):
            for order in (0, 1):
                runs.append((system_late_reply_case(rng, maxc, gap, order), "late_reply_maxc%d" % maxc))
    for _ in range(120 if quick else 3000):
        runs.append((system_random(rng, rng.choice([1, 2, 2, 3, 4, 8]), rng.randint(6, 18)), "random"))
    for r, kind in runs:
        ctx.count("system_runs")
        ctx.count("system_runs_" + kind)
        ctx.count("system_runs_no_stale_alloc_" + ("holds" if r.hyp_ok else "violated_unjudged"))
        ctx.count("system_datagrams_delivered", r.delivered)
        ctx.count("system_late_answers_injected", sum(1 for op in r.ops if op[0] == "answer" and unhx(op[1]).startswith(b"late")))
        if r.stuck:
            ctx.count("system_runs_stuck")
        ctx.case(("system", kind, repr(r.ops)), nontrivial=r.delivered > 0,
                 sample={"side": "system", "kind": kind, "max_channel": r.maxc, "delivered": r.delivered,
                         "no_stale_alloc": r.hyp_ok, "log": r.log[-4:]})
        for what, detail in system_verdict(r):
            if what != "expired_query_still_waited_on":        # the leaked handler as such is C10's clause
                ctx.violation("c06_" + what, dict(system_rep(r), detail=detail))


def _codec_cases(ctx, rng, quick):
    """c11_header_roundtrip on the real formatting/splitting expressions"""
    lines, impl = [], []
    ips = [b"1.2.3.4", b"fd00::1", b"", b"255.255.255.255", b"x" * 40]
    ports = [0, 1, 9, 10, 53, 99, 100, 65535, 65536, 4294967296]
    pays = PAYLOADS + [b"," * 9]
    for ip in ips:
        for port in ports:
            for p in (pays if not quick else pays[:5]):
                c = b"%s,%d," % (ip, port) + p                              # client.py 557-558
                s = ("%s,%r," % (ip.decode(), port)).encode("ASCII") + p     # server.py 283
                lines.append("HDR %s %d %s" % (hx(ip), port, hx(p)))
                impl.append(hx(c))
                if c != s:
                    ctx.violation("client and server header encodings differ", {"ip": hx(ip), "port": port})
                lines.append("SPLIT %s" % hx(c))
                a, b, d = c.split(b",", 2)
                impl.append("%s %d %s" % (hx(a), int(b), hx(d)))
                if (a, int(b), d) != (ip, port, p):
                    ctx.violation("c11_header_roundtrip fails on the real expressions", {"ip": hx(ip), "port": port, "payload": hx(p)})
                ctx.count("codec")
    for raw in [b"", b"a", b"a,b", b"a,,c", b"a,x,c", b"a,12,", b",0,", b"a,007,b"]:
        lines.append("SPLIT %s" % hx(raw))
        try:
            a, b, d = raw.split(b",", 2)
            impl.append("%s %d %s" % (hx(a), int(b), hx(d)))
        except ValueError:
            impl.append("NONE")
    out = ctx.run_driver(lines)
    for ln, i, o in zip(lines, impl, out):
        ctx.case(("codec", ln), nontrivial=True)
        if i != o:
            ctx.disagree("header codec", ln[:200], i[:200], o[:200])


# ======================================================================
# C10 "sent from the original destination address where the method exposes it": the reply path of EVERY method that has
# its own send_udp (found by introspection of sshuttle.methods), several name servers per session, judged at the socket

def reply_source_methods():
    """names of the modules of sshuttle.methods whose Method overrides BaseMethod.send_udp, and the ones that cannot be
    imported on this machine"""
    import importlib
    import pkgutil
    import sshuttle.methods as methods
    found, skipped = [], []
    for mi in sorted(pkgutil.iter_modules(methods.__path__), key=lambda x: x.name):
        try:
            mod = importlib.import_module("sshuttle.methods." + mi.name)
        except Exception as e:
            skipped.append("%s (%s)" % (mi.name, type(e).__name__))
            continue
        cls = getattr(mod, "Method", None)
        if cls is not None and getattr(cls, "send_udp", None) is not methods.BaseMethod.send_udp:
            found.append(mi.name)
    return found, skipped


def _reply_cmsgs(mod, dst):
    """what the kernel attaches for the option the method's listener asks for: BSD IP_RECVDSTADDR (a bare in_addr; the
    module defines the constant) or Linux IP(V6)_ORIGDSTADDR (a sockaddr)"""
    if hasattr(mod, "IP_RECVDSTADDR") and not hasattr(mod, "IP_ORIGDSTADDR"):
        if ":" in dst[0]:
            return [(getattr(mod, "SOL_IPV6", 41), getattr(mod, "IPV6_RECVDSTADDR", 74),
                     real_socket.inet_pton(real_socket.AF_INET6, dst[0]))]
        return [(real_socket.SOL_IP, mod.IP_RECVDSTADDR, real_socket.inet_aton(dst[0]))]
    return _cmsg_for(dst)


def reply_source_run(modname, family, queries, schedule):
    """One client session of the real ondns / dns_done with the real Method of sshuttle.methods.<modname>.
    queries: [(asker, name server, query bytes, answer bytes)], schedule: [("q", i) | ("r", i)] (capture of query i /
    DNS_RESPONSE for query i).  socket.socket as the method module sees it is a datagram socket that behaves like the
    kernel's (bound once: a second bind is EINVAL; anything on a closed socket is EBADF; unbound sendto autobinds to the
    wildcard address) and records what leaves.  Returns (sent, captured, notes): sent = [(source, destination, data)] in
    order, captured = indices of the queries the method forwarded"""
    import importlib
    import sshuttle.client as client
    import sshuttle.ssnet as ssnet
    import sshuttle.helpers as helpers
    mod = importlib.import_module("sshuttle.methods." + modname)
    world = ClientWorld(family)
    sent, notes = [], []

    class KSock:
        n = 0

        def __init__(self, fam=real_socket.AF_INET, typ=real_socket.SOCK_STREAM, proto=0, fileno=None):
            self.family, self.type, self.bound, self.closed = fam, typ, None, False

        def _live(self):
            if self.closed:
                raise OSError(errno.EBADF, "Bad file descriptor")

        def setsockopt(self, *a):
            self._live()

        def getsockopt(self, *a):
            self._live()
            return 0

        def setblocking(self, b):
            self._live()

        def settimeout(self, t):
            self._live()

        def fileno(self):
            return -1 if self.closed else 99

        def getsockname(self):
            self._live()
            return self.bound or (("::" if self.family == real_socket.AF_INET6 else "0.0.0.0"), 0)

        def bind(self, a):
            self._live()
            if self.bound is not None:
                raise OSError(errno.EINVAL, "Invalid argument")
            self.bound = tuple(a)

        def connect(self, a):
            self._live()
            raise OSError(errno.EOPNOTSUPP, "not scripted")

        def sendto(self, data, *rest):
            self._live()
            dst = rest[-1]
            if self.bound is None:
                KSock.n += 1
                self.bound = (("::" if self.family == real_socket.AF_INET6 else "0.0.0.0"), 40000 + KSock.n)
            sent.append((tuple(self.bound[:2]), tuple(dst[:2]), bytes(data)))
            return len(data)

        def close(self):
            self.closed = True

    class Lsn:
        """the DNS listener: receives the captured query with the control message the method's option yields; a reply
        sent through it leaves from the listener's own address"""
        family = world.family

        def recvfrom(self, bufsize):
            src, dst, data = world.next
            return (data[:bufsize], src)

        def recvmsg(self, bufsize, ancsize=0, flags=0):
            src, dst, data = world.next
            return kernel_recvmsg(data, _reply_cmsgs(mod, dst), src, bufsize, ancsize)

        def sendto(self, data, dst):
            sent.append((("127.0.0.1", 12300), tuple(dst[:2]), bytes(data)))

    over = dict(socket=KSock)
    for name, val in (("SO_REUSEPORT", 15), ("IP_TRANSPARENT", 19), ("IP_BINDANY", 24)):
        if not hasattr(real_socket, name):
            over[name] = val
    saved = (ssnet.set_non_blocking_io, client.time, client.log, helpers.log, ssnet.log, mod.socket, getattr(mod, "log", None))
    captured, chans = [], {}
    try:
        ssnet.set_non_blocking_io = lambda fd: None
        client.time = clock_shim(world)
        client.log = helpers.log = ssnet.log = lambda s: notes.append(str(s)[:200])
        if saved[6] is not None:
            mod.log = client.log
        mod.socket = Shim(real_socket, **over)
        client.dnsreqs.clear()
        client.udp_by_src.clear()
        mux = ssnet.Mux(FakeR(), FakeW())
        mux.outbuf = []
        meth = mod.Method(modname)
        lsn = Lsn()
        for op, i in schedule:
            src, dst, q, a = queries[i]
            try:
                if op == "q":
                    before = set(mux.channels)
                    world.next = (tuple(src), tuple(dst), q)
                    client.ondns(lsn, meth, mux, [])
                    new = sorted(set(mux.channels) - before)
                    if new:
                        chans[i] = new[0]
                        captured.append(i)
                elif i in chans:
                    mux.got_packet(chans.pop(i), CMD["R"], a)
            except Exception as e:
                notes.append("%s %d raised %s: %s" % (op, i, exc_name(e), str(e)[:120]))
    finally:
        (ssnet.set_non_blocking_io, client.time, client.log, helpers.log, ssnet.log, mod.socket) = saved[:6]
        if saved[6] is not None:
            mod.log = saved[6]
        client.dnsreqs.clear()
        client.udp_by_src.clear()
    return sent, captured, notes


def reply_source_oracle(modname, queries, schedule, sent, captured, notes):
    """looks only at what left the machine: the answer to a forwarded query must leave as a datagram whose source is the
    address the query was sent to and whose destination is the asker.  Sockets left open are not judged"""
    def a_s(a):
        return "%s:%d" % (a[0], a[1])
    out = []
    answered = [i for op, i in schedule if op == "r" and i in captured]
    for i in answered:
        src, dst, q, a = queries[i]
        src, dst = tuple(src[:2]), tuple(dst[:2])
        mine = [(s, d) for s, d, data in sent if data == a]
        if not mine:
            out.append("method %s: the reply for the query %s sent to %s did not leave at all%s"
                       % (modname, a_s(src), a_s(dst), (" (" + notes[-1] + ")") if notes else ""))
            continue
        for s, d in mine:
            if s != dst:
                earlier = [j for j in captured if j != i and tuple(queries[j][1][:2]) == s]
                out.append("method %s: reply for the query sent to %s left from %s%s" % (
                    modname, a_s(dst), a_s(s), " (the address of another query's destination)" if earlier else ""))
            if d != src:
                out.append("method %s: reply for the query of %s (sent to %s) was addressed to %s" % (modname, a_s(src), a_s(dst), a_s(d)))
    return out


def gen_reply_source_case(rng, family):
    v6 = family == real_socket.AF_INET6
    servers = rng.sample((["fd00::%x" % k for k in range(1, 7)] if v6 else ["10.0.0.%d" % k for k in range(1, 7)]), rng.randint(2, 3))
    askers = [(("fd00:1::%x" if v6 else "192.168.1.%d") % rng.randint(2, 5), rng.randint(1024, 65535)) for _ in range(rng.randint(1, 3))]
    n = rng.randint(2, 6)
    queries = []
    for i in range(n):
        ns = servers[i] if i < len(servers) else rng.choice(servers)
        queries.append((rng.choice(askers), (ns, 53), b"q%d-" % i + bytes(rng.randrange(256) for _ in range(rng.randint(0, 12))),
                        b"a%d-" % i + bytes(rng.randrange(256) for _ in range(rng.randint(0, 12)))))
    # random interleaving with every answer after its query
    pend, todo, schedule = [], list(range(n)), []
    while todo or pend:
        if todo and (not pend or rng.random() < 0.55):
            i = todo.pop(0)
            schedule.append(("q", i))
            pend.append(i)
        else:
            schedule.append(("r", pend.pop(rng.randrange(len(pend)))))
    return queries, schedule


def ser_reply_source(modname, family, queries, schedule):
    return {"oracle": "reply-source", "method": modname, "family": int(family),
            "replies": [[list(s), list(d), hx(q), hx(a)] for s, d, q, a in queries], "schedule": [list(x) for x in schedule]}


def _unhx(s):
    return b"" if s == "-" else bytes.fromhex(s)


def run_c10_reply_source(ctx):
    import random
    # its own stream, derived from the run's seed (VERIF_SEED): the scripts of the other parts stay what they were
    rng = random.Random("C10-reply-source-%s" % getattr(ctx, "seed", 0))
    found, skipped = reply_source_methods()
    ctx.extra["methods_with_own_send_udp"] = found
    ctx.extra["method_modules_not_importable"] = skipped
    a1, a2 = ("192.168.1.2", 40001), ("192.168.1.3", 40002)
    hand = [
        ([(a1, ("10.0.0.1", 53), b"q0", b"a0"), (a1, ("10.0.0.2", 53), b"q1", b"a1")], [("q", 0), ("r", 0), ("q", 1), ("r", 1)]),
        ([(a1, ("10.0.0.1", 53), b"q0", b"a0"), (a2, ("10.0.0.2", 53), b"q1", b"a1")], [("q", 0), ("q", 1), ("r", 1), ("r", 0)]),
        ([(a1, ("10.0.0.1", 53), b"q0", b"a0"), (a1, ("10.0.0.2", 53), b"q1", b"a1"), (a1, ("10.0.0.1", 53), b"q2", b"a2")],
         [("q", 0), ("q", 1), ("r", 0), ("q", 2), ("r", 1), ("r", 2)]),
    ]
    for modname in found:
        cases = [(real_socket.AF_INET, q, s, "handmade") for q, s in hand]
        for k in range(150 if ctx.quick() else 2000):
            fam = real_socket.AF_INET6 if k % 4 == 3 else real_socket.AF_INET
            q, s = gen_reply_source_case(rng, fam)
            cases.append((fam, q, s, "random"))
        for fam, queries, schedule, kind in cases:
            sent, captured, notes = reply_source_run(modname, fam, queries, schedule)
            viol = reply_source_oracle(modname, queries, schedule, sent, captured, notes)
            ctx.count("reply_source_sessions_%s_%s" % (modname, kind))
            ctx.count("reply_source_queries_forwarded_%s_family_%d" % (modname, int(fam)), len(captured))
            ctx.count("reply_source_queries_not_exposed_%s_family_%d" % (modname, int(fam)), len(queries) - len(captured))
            ctx.count("reply_source_replies_sent_%s" % modname, len(sent))
            if len({tuple(queries[i][1]) for i in captured}) >= 2:
                ctx.count("reply_source_sessions_with_2plus_name_servers_%s" % modname)
            ctx.case(("reply-source", modname, int(fam), repr(queries), repr(schedule)), nontrivial=len(sent) > 0,
                     sample={"side": "client-reply-source", "method": modname, "family": int(fam), "queries": len(queries),
                             "sent": len(sent)})
            for what in viol[:1]:
                ctx.violation(what, dict(ser_reply_source(modname, fam, queries, schedule),
                                         observed=[["%s:%d" % s, "%s:%d" % d, hx(x)] for s, d, x in sent], notes=notes[-3:]))
                break
            if viol:
                break      # one witness per method is enough


def replay_reply_source(rp):
    r = rp["replay"]
    queries = [(tuple(s), tuple(d), _unhx(q), _unhx(a)) for s, d, q, a in r["replies"]]
    schedule = [tuple(x) for x in r["schedule"]]
    sent, captured, notes = reply_source_run(r["method"], r["family"], queries, schedule)
    v = reply_source_oracle(r["method"], queries, schedule, sent, captured, notes)
    print("reply-source", r["method"], "->", sent, v)
    return bool(v)


def run_check(ctx, prop):
    rng = ctx.rng
    quick = ctx.quick()
    fx = detect_fixes()
    ctx.extra["repairs_present_in_code_under_test"] = fx
    for fid in FIDS[prop]:
        fails, last = witness_fails(fid)
        base = fid.rstrip("u")
        ctx.count("defect_witness_%s_%s" % (base, "fails" if fails else "passes"))
        if fails:
            ctx.violation("%s: %s" % (base, WITNESS[fid]["what"]), {"witness": fid, "script": WITNESS[fid], "outcome": last})
    _codec_cases(ctx, rng, quick)
    if prop == "C11":
        run_c11_reply_sizes(ctx)
    run_main_cases(ctx, prop)
    if prop == "C10":
        run_c10_resolv(ctx)
        run_c10_reply_source(ctx)
    _system_cases(ctx, rng, quick, prop)

    # ---- client scripts
    cases = [(m, mc, fam, evs, "handmade") for m, mc, fam, evs in handmade_client(prop)]
    for _ in range(400 if quick else 6000):
        m, mc, fam, evs = gen_client_script(rng, prop, quick)
        cases.append((m, mc, fam, evs, "random"))
    # flow life cycles (well-formed events only, generated while watching the real code): pending queries with TCP
    # accepts / UDP datagrams / other queries in between, sources sending to several destinations, tiny identifier spaces
    cases += [(m, mc, fam, evs, "flows_handmade") for m, mc, fam, evs in handmade_flow_scripts()]
    for i in range(200 if quick else 3000):
        profile = (["expiry", "wrap", "tcpwrap"] if prop == "C10" else ["fanout", "expiry", "tcpwrap", "wrap"])[i % (3 if prop == "C10" else 4)]
        m, mc, fam, evs = gen_flow_script(rng, profile, quick)[:4]
        cases.append((m, mc, fam, evs, "flows_" + profile))
    lines, impls = [], []
    for m, mc, fam, evs, kind in cases:
        lines.append(client_line(fx, m, mc, fam, evs))
        impls.append(run_client(m, mc, fam, evs))
    outs = ctx.run_driver(lines)
    for (m, mc, fam, evs, kind), ln, impl, o in zip(cases, lines, impls, outs):
        model = split_steps(o)
        nd = sum(1 for s in impl if "G:" in s)
        ctx.count("client_scripts_%s" % kind)
        ctx.count("client_events", len(evs))
        ctx.count("client_datagrams_delivered", nd)
        ctx.count("client_end_" + (impl[-1].split(" ")[0] if impl and not impl[-1].startswith("OK") else "OK"))
        if any("F:" in s and ":%d:" % CMD["C"] in s for s in impl):
            ctx.count("client_scripts_with_udp_close")
        if mc < 10:
            ctx.count("client_scripts_tiny_max_channel")
        tr = track_flows(m, mc, fam, evs, impl)
        viol = oracle_client(prop, m, mc, fam, evs, impl) + flow_violations(prop, tr)
        if kind.startswith("flows"):
            viol += crash_of_valid_script(m, evs, impl)
        ctx.count("client_dns_replies_for_pending_query", tr.n.get("dns_replies_for_pending_query", 0))
        ctx.count("client_udp_replies_for_open_association", tr.n.get("udp_replies_for_open_association", 0))
        ctx.count("client_associations_with_2plus_destinations", tr.fanout_sources())
        for k in ("tcp_flows_finished", "captures_with_finished_tcp_identifiers_free", "captures_where_only_finished_tcp_identifiers_are_free",
                  "dns_queries_that_must_be_forwarded", "udp_datagrams_that_must_be_forwarded", "allocations_after_wrap"):
            ctx.count("client_" + k, tr.n.get(k, 0))
        ctx.case(("client", ln), nontrivial=(nd > 0 or len(impl) > 2),
                 sample={"side": "client", "method": m, "max_channel": mc, "events": len(evs), "last_step": impl[-1][:160] if impl else ""})
        if impl != model:
            k = next((i for i, (a, b) in enumerate(zip(impl, model)) if a != b), min(len(impl), len(model)))
            ctx.disagree("client step %d" % k, ser_client(m, mc, fam, evs[:k + 1]), (impl + ["<end>"])[k][:600],
                         (model + ["<end>"])[k][:600], holds=not viol)
        for what, detail in viol:
            if (what == "crash" or what.startswith("raised")) and not all(fx[k] for k in ("F3", "F16")):
                continue      # reported once through the defect witnesses
            ctx.violation(what, {"script": ser_client(m, mc, fam, evs), "detail": detail})

    # ---- server scripts (the real server.main loop)
    cases = [(t, s, evs, "handmade") for t, s, evs in handmade_server(prop)]
    for _ in range(400 if quick else 6000):
        t, s, evs = gen_server_script(rng, prop, quick)
        cases.append((t, s, evs, "random"))
    if prop == "C10":
        # the three-attempt budget over the whole life of a query: long mixtures of send and receive errors
        cases += [(t, s, evs, "attempts_handmade") for t, s, evs in handmade_attempt_scripts()]
        for _ in range(150 if quick else 3000):
            t, s, evs = gen_attempt_script(rng, quick)
            cases.append((t, s, evs, "attempts"))
    lines, impls, opss, watches = [], [], [], []
    for t, s, evs, kind in cases:
        lines.append(server_line(fx, t, s, evs))
        ops, watch = [], []
        impls.append(run_server(t, s, evs, ops=ops, watch=watch))
        opss.append(ops)
        watches.append(watch)
    outs = ctx.run_driver(lines)
    for (t, s, evs, kind), ln, impl, o, ops, watch in zip(cases, lines, impls, outs, opss, watches):
        model = split_steps(o)
        att_viol, att_counts = attempt_oracle(ops)
        ctx.count("server_dns_queries_dispatched", len(att_counts))
        for n_att in att_counts:
            ctx.count("server_query_attempts_%s" % (n_att if n_att <= 3 else "4plus"))
        n_rerr = sum(1 for op in ops if op[0] == "R" and not op[3])
        if n_rerr >= 3:
            ctx.count("server_scripts_with_3plus_receive_errors")
        ctx.count("server_scripts_%s" % kind)
        ctx.count("server_iterations", len(evs))
        ctx.count("server_dns_responses", sum(s_.count(":%d:" % CMD["R"]) for s_ in impl))
        ctx.count("server_end_" + (impl[-1].split(" ")[0] if impl and not impl[-1].startswith("OK") else "OK"))
        viol = oracle_server(prop, t, s, evs, impl, watch) + (att_viol if prop == "C10" else [])
        n_late = late_udp_replies_offered(evs, impl)
        ctx.count("server_udp_closes_processed", n_late[0])
        ctx.count("server_late_replies_offered_to_closed_udp_sockets", n_late[1])
        ctx.case(("server", ln), nontrivial=len(impl) > 1,
                 sample={"side": "server", "to_ns": t, "iterations": len(evs), "last_step": impl[-1][:160] if impl else ""})
        if impl != model:
            k = next((i for i, (a, b) in enumerate(zip(impl, model)) if a != b), min(len(impl), len(model)))
            ctx.disagree("server iteration %d" % k, ser_server(t, s, evs[:k + 1]), (impl + ["<end>"])[k][:600],
                         (model + ["<end>"])[k][:600], holds=not viol)
        for what, detail in viol:
            if what == "crash" and not all(fx[k] for k in ("F4", "F10")):
                continue
            if what == "fatal" and not fx["F80"]:
                continue      # reported once through the defect witness F80
            ctx.violation(udp_what(what), {"script": ser_server(t, s, evs), "detail": detail})
    ctx.programs = ctx.evaluations


def replay(ctx, rp, prop):
    r = rp.get("replay", {})
    if r.get("oracle") == "reply-size":
        return replay_c11_reply_size(rp)
    if r.get("oracle") == "system":
        return replay_flows(prop, rp)
    if r.get("oracle") == "client-main":
        return replay_main(prop, rp)
    if r.get("oracle") == "resolv-conf":
        return replay_c10_resolv(prop, rp)
    if r.get("oracle") == "reply-source":
        return replay_reply_source(rp)
    if "witness" in r:
        fails, last = witness_fails(r["witness"])
        print("witness", r["witness"], "->", last)
        return fails
    sc = r.get("script")
    if sc and sc.get("side") == "client":
        m, mc, fam, evs = des_client(sc)
        impl = run_client(m, mc, fam, evs)
        v = oracle_client(prop, m, mc, fam, evs, impl) + flow_violations(prop, track_flows(m, mc, fam, evs, impl))
        print("client script ->", impl[-1] if impl else "", v)
        return bool(v)
    if sc and sc.get("side") == "server":
        t, s, evs = des_server(sc)
        ops, watch = [], []
        impl = run_server(t, s, evs, ops=ops, watch=watch)
        v = oracle_server(prop, t, s, evs, impl, watch) + (attempt_oracle(ops)[0] if prop == "C10" else [])
        print("server script ->", impl[-1] if impl else "", v)
        return bool(v)
    print("nothing replayable in", rp.get("kind"))
    return False


# ======================================================================
# flows as announced on the wire: an oracle that looks only at the real client's observable behaviour
# (frames put on the tunnel, datagrams handed to local sockets) and at the script

ST_OPEN, ST_CLOSED, ST_LIMBO = "open", "closed", "limbo"
ALLOC_KIND = {CMD["Q"]: "dns", CMD["O"]: "udp", CMD["TCPCONNECT"]: "tcp"}
OWN_FRAME = {"D": CMD["Q"], "U": CMD["D"], "T": CMD["TCPCONNECT"]}


def udp_body_ok(data):
    p = data.split(b",", 2)
    return len(p) == 3 and p[0] != b"" and p[1].isdigit() and int(p[1]) <= 65535


class FlowTracker:
    """Which flow owns which identifier, decided from the wire alone (never from the tables of the code under test):
      * DNS_REQ / UDP_OPEN / TCP_CONNECT on identifier c opens a flow owning c;
      * a UDP flow is closed by UDP_CLOSE c; a DNS flow is closed by the datagram that answers it, or by expiry:
        Props/C10.v c10_expiry — after an accept event at time t exactly the queries with deadline < t are forgotten.
        An accept event counts as a sweep when it put its own message on the wire (DNS_REQ / UDP_DATA / TCP_CONNECT);
        a TCP flow is closed when the client has put BOTH TCP_STOP_SENDING and TCP_EOF for its identifier on the wire (both
        directions shut: Props/C10.v c10_tcp_end_releases_identifier - the identifier is free from then on, although the
        Mux keeps the key with the value None);
      * between "surely open" and "surely closed" a flow is in LIMBO and nothing is demanded (a query whose 30 s are
        up but which no sweep has met yet; a reply whose delivery was made to fail; a non-reply message on a DNS
        identifier).  Whether the sweep of an event runs before or after its allocation is left to the code.
    Reported (names are mapped to property clauses by the caller):
      late_delivered   a message for an identifier that no flow owns (never opened, or closed and not reassigned)
                       produced a datagram                                                        [C06]
      dns_reply_lost   DNS_RESPONSE for a query whose 30 s have not elapsed, delivery not made to fail: not exactly one
                       datagram to the asker                                                      [C06 C08 C10]
      udp_reply_lost   well-formed UDP_DATA for an association not closed on the wire: not exactly one datagram to its
                       source                                                                     [C06 C08 C11]
      reissued         an identifier put on the wire for a new flow while a surely open flow owns it   [C06]
      bad_identifier   identifier 0 or above MAX_CHANNEL handed out                               [C06]
      second_socket    a source that has a live association was given another one                 [C11]
      closed_active    UDP_CLOSE for an association that carried a datagram less than 30 s ago     [C11]
      idle_not_closed  a sweep at time t left an association open whose last datagram is older than t - 30   [C11]
      udp_datagram_dropped / dns_query_dropped   a captured datagram (any length, also 0 bytes) was not forwarded as exactly
                       one UDP_DATA / DNS_REQ although an identifier was surely available          [C11 / C10]"""

    def __init__(self, method, maxc, family):
        self.method, self.maxc, self.family = method, maxc, family
        self.t = None
        self.flows = {}
        self.assoc = {}
        self.bad = []
        self.last_alloc = 0
        self.n = {}
        self.stopped = False

    def count(self, k, n=1):
        self.n[k] = self.n.get(k, 0) + n

    def status(self, ch):
        f = self.flows.get(ch)
        return f["status"] if f else None

    def pick(self, status, kinds=("dns", "udp")):
        return [ch for ch, f in self.flows.items() if f["status"] == status and f["kind"] in kinds]

    def feed(self, i, ev, st):
        if self.stopped:
            return
        if not st.startswith("OK "):
            self.stopped = True
            return
        outs = parse_outs(st)
        if ev[0] == "F":
            self._message(i, ev, outs)
        elif ev[0] == "K":
            self._tcp_end(i, ev, outs)
        else:
            self._accept(i, ev, outs)

    def _tcp_end(self, i, ev, outs):
        for o in outs:
            if o[0] != "F":
                continue
            ch, cmd = int(o[1]), int(o[2])
            f = self.flows.get(ch)
            if f and f["kind"] == "tcp" and f["status"] != ST_CLOSED and cmd in (CMD["TCPSTOP"], CMD["TCPEOF"]):
                f.setdefault("shut", set()).add(cmd)
                if f["shut"] == {CMD["TCPSTOP"], CMD["TCPEOF"]}:
                    f["status"], f["why"] = ST_CLOSED, "TCP flow finished at step %d (TCP_STOP_SENDING + TCP_EOF on the wire)" % i
                    self.count("tcp_flows_finished")

    def _accept(self, i, ev, outs):
        self.t = ev[1] if self.t is None else max(self.t, ev[1])
        t = self.t
        for f in self.flows.values():
            if f["kind"] == "dns" and f["status"] == ST_OPEN and f["t0"] + 30 <= t:
                f["status"] = ST_LIMBO
        frames = [(int(o[1]), int(o[2]), unhx(o[3])) for o in outs if o[0] == "F"]
        # "each captured DNS datagram is forwarded" / "every captured datagram is re-emitted": demanded whenever an
        # identifier is surely available — the source has an association, or fewer identifiers than MAX_CHANNEL are held
        # by flows that are not surely closed (a flow in limbo counts as holding one)
        busy = sum(1 for f in self.flows.values() if f["status"] != ST_CLOSED)
        # the identifiers that are free only because a TCP flow on them has finished (the Mux still holds the key)
        limit = min(self.maxc, 1024)
        never = limit - len([c for c in self.flows if 1 <= c <= limit])
        fin_tcp = sum(1 for c, f in self.flows.items() if f["kind"] == "tcp" and f["status"] == ST_CLOSED)
        if ev[0] in ("D", "U") and busy < limit and fin_tcp:
            self.count("captures_with_finished_tcp_identifiers_free")
            if never <= 0 and all(f["kind"] == "tcp" for f in self.flows.values() if f["status"] == ST_CLOSED):
                self.count("captures_where_only_finished_tcp_identifiers_are_free")
        if ev[0] == "U" and self.method == "T" and ev[3] is not None:
            if tuple(ev[2]) in self.assoc or busy < min(self.maxc, 1024):
                self.count("udp_datagrams_that_must_be_forwarded")
                if len(ev[4]) <= 1:
                    self.count("udp_datagrams_of_0_or_1_bytes")
                want = ("%s,%d," % (ev[3][0], ev[3][1])).encode() + ev[4][:4096]
                if [d for c, cmd, d in frames if cmd == CMD["D"]] != [want]:
                    self.bad.append(("udp_datagram_dropped", "step %d: the %d-byte datagram of %r to %r was not put on the "
                                     "tunnel as exactly one UDP_DATA (header + identical payload): %r; identifiers held by flows "
                                     "not surely closed: %d of %d, identifiers of finished TCP flows: %d"
                                     % (i, len(ev[4]), tuple(ev[2]), tuple(ev[3]), [(c, cmd, d[:40]) for c, cmd, d in frames],
                                        busy, self.maxc, fin_tcp)))
        if ev[0] == "D" and (self.method == "B" or ev[3] is not None) and busy < min(self.maxc, 1024):
            self.count("dns_queries_that_must_be_forwarded")
            if [d for c, cmd, d in frames if cmd == CMD["Q"]] != [ev[4][:4096]]:
                self.bad.append(("dns_query_dropped", "step %d: the %d-byte query of %r was not put on the tunnel as exactly one "
                                 "DNS_REQ with identical payload: %r; identifiers held by flows not surely closed: %d of %d, "
                                 "identifiers of finished TCP flows: %d"
                                 % (i, len(ev[4]), tuple(ev[2]), [(c, cmd, d[:40]) for c, cmd, d in frames], busy, self.maxc, fin_tcp)))
        closed_here = set()
        for ch, cmd, data in frames:
            f = self.flows.get(ch)
            if cmd == CMD["C"]:
                if f and f["kind"] == "udp" and f["status"] != ST_CLOSED:
                    if t - f["last"] < 30:
                        self.bad.append(("closed_active", "step %d: UDP_CLOSE for identifier %d of source %r whose last "
                                         "datagram was %d s ago" % (i, ch, f["src"], t - f["last"])))
                    f["status"], f["why"] = ST_CLOSED, "UDP_CLOSE at step %d" % i
                    closed_here.add(ch)
                    self.count("udp_closed_on_wire")
                    if self.assoc.get(f["src"]) == ch:
                        del self.assoc[f["src"]]
            elif cmd in ALLOC_KIND:
                kind = ALLOC_KIND[cmd]
                if not 1 <= ch <= self.maxc:
                    self.bad.append(("bad_identifier", "step %d: identifier %d handed out (MAX_CHANNEL %d)" % (i, ch, self.maxc)))
                if f and f["status"] == ST_OPEN:
                    self.bad.append(("reissued", "step %d: identifier %d given to a new %s flow while the %s flow of %r "
                                     "opened at step %d still owns it" % (i, ch, kind, f["kind"], f["src"], f["step"])))
                self.count("allocations")
                if ch <= self.last_alloc:
                    self.count("allocations_after_wrap")
                self.last_alloc = ch
                src = tuple(ev[2]) if ev[0] in ("D", "U") else None
                if kind == "udp" and src is not None:
                    if src in self.assoc:
                        self.bad.append(("second_socket", "step %d: source %r already has the live association %d and was "
                                         "given %d as well" % (i, src, self.assoc[src], ch)))
                    self.assoc[src] = ch
                self.flows[ch] = {"kind": kind, "status": ST_OPEN, "step": i, "t0": t, "last": t,
                                  "src": src if kind == "udp" else (ev[2] if ev[0] in ("D", "U") else None),
                                  "dst": ev[3] if ev[0] == "D" and self.method == "T" else None, "why": ""}
            elif cmd == CMD["D"]:
                if f and f["kind"] == "udp" and f["status"] != ST_CLOSED:
                    f["last"] = t
                    if ev[0] == "U":
                        src = tuple(ev[2])
                        f.setdefault("dsts", set()).add(tuple(ev[3][:2]) if ev[3] else None)
                        if f["src"] != src and self.assoc.get(src) is not None and self.assoc[src] != ch:
                            self.bad.append(("second_socket", "step %d: datagram of source %r travelled on identifier %d, "
                                             "its association is %d" % (i, src, ch, self.assoc[src])))
        if any(cmd == OWN_FRAME[ev[0]] for ch, cmd, data in frames):      # this event swept (c10_expiry)
            for ch, f in self.flows.items():
                if f["kind"] == "dns" and f["status"] != ST_CLOSED and f["t0"] + 30 < t:
                    f["status"], f["why"] = ST_CLOSED, "expired by the sweep of step %d" % i
                    self.count("dns_expired")
                if f["kind"] == "udp" and f["status"] == ST_OPEN and f["last"] + 30 < t:
                    self.bad.append(("idle_not_closed", "step %d: sweep at %d left identifier %d of source %r open, last "
                                     "datagram at %d" % (i, t, ch, f["src"], f["last"])))
                    f["status"] = ST_LIMBO

    def _message(self, i, ev, outs):
        ch, cmdkey, data, err = ev[1:5]
        dgrams = [o for o in outs if o[0] == "G"]
        f = self.flows.get(ch)
        if f is None or f["status"] == ST_CLOSED:
            self.count("messages_for_closed_identifier" if f else "messages_for_unused_identifier")
            if dgrams:
                self.bad.append(("late_delivered", "step %d: message for identifier %d (%s) was not discarded: %r"
                                 % (i, ch, "never opened" if f is None else "%s flow of %r, %s, not reassigned"
                                    % (f["kind"], f["src"], f["why"]), dgrams)))
            return
        if f["status"] == ST_LIMBO:
            self.count("messages_in_limbo")
            if dgrams and f["kind"] == "dns":
                f["status"], f["why"] = ST_CLOSED, "answered at step %d" % i
            return
        if f["kind"] == "dns":
            must = cmdkey == "R" and err is None and (self.method == "B" or f["dst"] is not None)
            if must:
                self.count("dns_replies_for_pending_query")
                if len(dgrams) != 1 or dgrams[0][2] != addr_s(f["src"]):
                    self.bad.append(("dns_reply_lost", "step %d: reply on identifier %d for the query of %r asked at %d "
                                     "(now %d, 30 s not elapsed): delivered %r" % (i, ch, f["src"], f["t0"], self.t, dgrams)))
            if dgrams or must:
                f["status"], f["why"] = ST_CLOSED, "answered at step %d" % i
            else:
                f["status"] = ST_LIMBO
        elif f["kind"] == "udp":
            if cmdkey == "D" and err is None and udp_body_ok(data):
                self.count("udp_replies_for_open_association")
                if len(dgrams) != 1 or dgrams[0][2] != addr_s(f["src"]):
                    self.bad.append(("udp_reply_lost", "step %d: reply on identifier %d for the open association of %r "
                                     "(UDP_OPEN at step %d, no UDP_CLOSE): delivered %r" % (i, ch, f["src"], f["step"], dgrams)))

    def fanout_sources(self):
        return sum(1 for f in self.flows.values() if f["kind"] == "udp" and len(f.get("dsts", ())) >= 2)


def track_flows(method, maxc, family, evs, steps):
    tr = FlowTracker(method, maxc, family)
    for i, ev in enumerate(evs):
        if i >= len(steps):
            break
        tr.feed(i, ev, steps[i])
    return tr


FLOW_CLAUSES = {
    "C06": {"late_delivered": "c06_late_message_delivered", "dns_reply_lost": "c06_open_flow_lost_its_identifier",
            "udp_reply_lost": "c06_open_flow_lost_its_identifier", "reissued": "c06_identifier_reissued_while_owned",
            "bad_identifier": "c06_identifier_out_of_range",
            "dns_query_dropped": "c06_dgram_flow_refused_although_an_identifier_was_free",
            "udp_datagram_dropped": "c06_dgram_flow_refused_although_an_identifier_was_free"},
    "C08": {"dns_reply_lost": "c08_other_flow_broken_after_fault", "udp_reply_lost": "c08_other_flow_broken_after_fault"},
    "C10": {"dns_reply_lost": "c10_reply_lost_before_30s",
            "dns_query_dropped": "c10_query_dropped: a captured DNS datagram was not put on the tunnel as exactly one DNS_REQ although an "
                                 "identifier was free (identifiers of answered / expired queries, closed UDP associations and FINISHED "
                                 "TCP flows are free)"},
    "C11": {"second_socket": "c11_shared_socket", "udp_reply_lost": "c11_reply_lost",
            "udp_datagram_dropped": "c11_datagram_dropped: a captured UDP datagram was not put on the tunnel as exactly one UDP_DATA "
                                    "although its source has an association or an identifier was free (identifiers of closed "
                                    "associations, answered / expired queries and FINISHED TCP flows are free)",
            "closed_active": "c11_closed_while_active", "idle_not_closed": "c11_idle_not_closed"},
}


def flow_violations(prop, tr):
    m = FLOW_CLAUSES[prop]
    return [(m[w], d) for w, d in tr.bad if w in m]


# ---------------------------------------------------------------------- generated flow scripts (adaptive)

ERRNO_ALL = NET_ERRS + OTHER_ERRS + [errno.EPIPE, errno.EAGAIN, errno.ENOMEM, errno.EBADF, errno.ENOTCONN,
                                     errno.EDESTADDRREQ, errno.EADDRINUSE, errno.EIO]


def errname(e):
    return errno.errorcode.get(e, str(e))


def gen_flow_script(rng, profile, quick, fault=None):
    """Life cycles of DNS / UDP / TCP flows on the real client, generated adaptively (the next event is chosen after
    looking at what the real code did): profiles 'expiry' (idle gaps around 30 s, some sources kept alive while others
    expire, late replies), 'wrap' (MAX_CHANNEL 2..6: the cursor comes round to identifiers still owned), 'fanout'
    (few sources, many destinations), 'tcpwrap' (MAX_CHANNEL 2..8, many TCP connections that are accepted and FINISH
    - the Mux keeps their identifiers as None-valued keys - between the queries / datagrams, so that after the cursor has
    wrapped the only free identifiers are those of finished TCP flows).  fault = None | {"mode": "persistent"|"transient", "errno": e, "stage": 0|1}:
    the delivery of replies to the victim source (persistent: every one; transient: one) is made to fail.
    Only well-formed events are generated.  Returns (method, maxc, family, evs, steps, tracker, fault_hits)."""
    method = "B" if (profile != "fanout" and rng.random() < 0.2) else "T"
    v6 = rng.random() < 0.3
    family = 10 if v6 else 2
    if profile == "wrap":
        maxc = rng.choice([2, 3, 3, 4, 5, 6])
    elif profile == "tcpwrap":
        maxc = rng.choice([2, 3, 3, 4, 5, 6, 8])
    else:
        maxc = rng.choice([8, 65535, 65535])
    ips = V6 if v6 else V4
    srcs = [(rng.choice(ips[:3]), 4000 + k, 0, 0) if v6 else (rng.choice(ips[:3]), 4000 + k) for k in range(rng.randint(2, 4))]
    if v6 and rng.random() < 0.6:           # link-local sources: same host and port on two interfaces (+ a flow label)
        srcs = rng.sample(V6_SCOPED, rng.randint(2, 4))
    victim = tuple(srcs[0])

    def body(tag):
        """payloads incl. the boundary lengths 0 and 1, in both directions"""
        r = rng.random()
        return b"" if r < 0.12 else bytes([rng.randrange(256)]) if r < 0.24 else tag + rand_payload(rng, False)
    now = rng.choice([0, 100, 1000000])
    n = rng.randint(8, 22 if quick else 40) if profile != "tcpwrap" else rng.randint(12, 30 if quick else 48)
    sess = ClientSession(method, maxc, family)
    tr = FlowTracker(method, maxc, family)
    evs, steps = [], []
    hits = 0
    transient_left = 1 if fault and fault["mode"] == "transient" else 0
    gaps = {"expiry": [0, 1, 5, 10, 15, 20, 29, 30, 31, 31, 45], "wrap": [0, 0, 1, 5, 20, 31, 31],
            "fanout": [0, 0, 1, 5, 29, 31], "tcpwrap": [0, 0, 0, 1, 5, 20, 31]}[profile]
    w_tcp = {"expiry": 0.06, "wrap": 0.12, "fanout": 0.06, "tcpwrap": 0.4}[profile]
    w_end = {"expiry": 0.03, "wrap": 0.12, "fanout": 0.03, "tcpwrap": 0.32}[profile]
    try:
        for _ in range(n):
            r = rng.random()
            opn = tr.pick(ST_OPEN)
            cls = tr.pick(ST_CLOSED)
            ev = None
            if r < 0.22 and opn:
                mine = [c for c in opn if tr.flows[c]["src"] is not None and tuple(tr.flows[c]["src"]) == victim]
                ch = rng.choice(mine if fault and mine and rng.random() < 0.6 else opn)
            elif r < 0.40 and cls:
                ch = rng.choice(cls)
            elif r < 0.44:
                ch = rng.choice([c for c in range(1, min(maxc, 12) + 1)] + [maxc])
                if tr.flows.get(ch, {}).get("kind") == "tcp" and tr.flows[ch]["status"] != ST_CLOSED:
                    ch = None           # a datagram-style message for a live TCP flow is a malformed event
            else:
                ch = None
            tcp_open = tr.pick(ST_OPEN, kinds=("tcp",))
            if ch is None and tcp_open and rng.random() < w_end:
                ev = ("K", rng.choice(tcp_open))
            elif ch is not None:
                f = tr.flows.get(ch)
                kind = f["kind"] if f and f["kind"] != "tcp" else rng.choice(["dns", "udp"])
                if kind == "dns":
                    data, cmdkey = body(b"ans%d" % len(evs)), "R"
                else:
                    peer = (rng.choice(ips), rng.choice([53, 123, 4500, 65535]))
                    data, cmdkey = ("%s,%d," % peer).encode() + body(b"rep%d" % len(evs)), "D"
                err, stage = None, 1
                if fault and f and f["status"] == ST_OPEN and f["src"] is not None and tuple(f["src"]) == victim:
                    if fault["mode"] == "persistent" or transient_left:
                        err, stage = fault["errno"], fault["stage"]
                        transient_left = 0
                        hits += 1
                ev = ("F", ch, cmdkey, data, err, stage)
            else:
                now += rng.choice(gaps)
                r2 = rng.random()
                wu = 0.0 if method == "B" else {"expiry": 0.55, "wrap": 0.35, "fanout": 0.8, "tcpwrap": 0.25}[profile]
                if r2 < wu:
                    live = [s for s in srcs if tuple(s) in tr.assoc]
                    src = rng.choice(live) if live and rng.random() < 0.6 else rng.choice(srcs + srcs[:1])
                    ev = ("U", now, src, (rng.choice(ips), rng.choice([53, 123, 4500, 65535])), body(b"u%d" % len(evs)))
                elif r2 < wu + w_tcp:
                    ev = ("T", now, family, (rng.choice(ips), rng.choice([22, 80, 443])))
                else:
                    src = rng.choice(srcs) if rng.random() < 0.7 else rand_addr(rng, v6, few=False)
                    ev = ("D", now, src, (rng.choice(ips), 53) if method == "T" else None, body(b"q%d" % len(evs)))
            st = sess.step(ev)
            evs.append(ev)
            steps.append(st)
            tr.feed(len(evs) - 1, ev, st)
            if sess.dead:
                break
    finally:
        sess.close()
    return method, maxc, family, evs, steps, tr, hits


def handmade_flow_scripts():
    """the life cycles the C06 property text names, spelled out: (1) source A goes idle while source B, opened later,
    stays active; a sweep closes A; a late reply for A, a reply for B, then enough new flows for the cursor to come
    round; (2) a pending DNS query while TCP accepts / UDP datagrams / other queries run the sweep; (3) a query
    answered, its duplicate, its identifier re-used by another asker, a third reply"""
    A, B, C = ("10.0.0.5", 40001), ("10.0.0.6", 40002), ("10.0.0.7", 40003)
    R, S = ("192.0.2.7", 9999), ("8.8.8.8", 53)
    out = []
    for maxc in (3, 4, 65535):
        for sweep in ("U", "D", "T"):
            evs = [("U", 1000, A, R, b"a0"), ("U", 1005, B, R, b"b0"), ("U", 1020, B, S, b"b1")]
            evs.append({"U": ("U", 1040, B, R, b"b2"), "D": ("D", 1040, C, S, b"q"), "T": ("T", 1040, 2, ("9.9.9.9", 80))}[sweep])
            evs += [("F", 1, "D", b"192.0.2.7,9999,late-reply-for-A", None), ("F", 2, "D", b"192.0.2.7,9999,reply-for-B", None)]
            evs += [("D", 1041 + k, ("10.0.1.%d" % k, 5000), S, b"fill%d" % k) for k in range(4)]
            evs += [("F", 2, "D", b"8.8.8.8,53,reply-for-B-2", None), ("U", 1046, B, S, b"b3"), ("U", 1047, A, R, b"a-again")]
            out.append(("T", maxc, 2, evs))
    for between in ("T", "U", "D", "TUD"):
        for meth in ("B", "T"):
            if meth == "B" and "U" in between:
                continue
            dst = S if meth == "T" else None
            evs = [("D", 500, A, dst, b"pending")]
            for k, b in enumerate(between):
                evs.append({"T": ("T", 500 + k, 2, ("9.9.9.9", 443)), "U": ("U", 500 + k, B, R, b"udp"),
                            "D": ("D", 500 + k, B, dst, b"other")}[b])
            evs += [("F", 1, "R", b"answer-for-pending", None), ("F", 1, "R", b"duplicate", None)]
            out.append((meth, 65535, 2, evs))
    # link-local askers / sources: the same host and port on interfaces 2 and 3 (and with a flow label); zero-length and
    # one-byte payloads in both directions; tproxy path (recvmsg) and plain recvfrom path
    L2, L3, L3f = ("fe80::53:1", 40000, 0, 2), ("fe80::53:1", 40000, 0, 3), ("fe80::53:1", 40000, 7, 3)
    R6 = ("2001:db8::53", 53)
    out.append(("T", 65535, 10, [("D", 10, L2, R6, b"q-if2"), ("D", 10, L3, R6, b"q-if3"), ("D", 11, L3f, R6, b""),
                                 ("F", 2, "R", b"answer-if3", None), ("F", 1, "R", b"answer-if2", None), ("F", 3, "R", b"", None),
                                 ("U", 12, L2, ("fd00::9", 4500), b"u-if2"), ("U", 12, L3, ("fd00::9", 4500), b""),
                                 ("U", 13, L2, ("fd00::9", 4500), b"x"), ("U", 13, L3, ("fd00::9", 123), b"u-if3-other-dst"),
                                 ("F", 5, "D", b"fd00::9,4500,", None), ("F", 4, "D", b"fd00::9,4500,r", None),
                                 ("F", 5, "D", b"fd00::9,123,reply-if3", None)]))
    out.append(("B", 65535, 10, [("D", 10, L2, None, b"q-if2"), ("D", 10, L3, None, b""), ("D", 10, L3f, None, b"z"),
                                 ("F", 3, "R", b"a-flow7", None), ("F", 2, "R", b"", None), ("F", 1, "R", b"a", None)]))
    out.append(("T", 65535, 2, [("U", 10, A, R, b""), ("U", 10, B, R, b"\0"), ("U", 11, A, S, b""), ("D", 11, C, S, b""),
                                ("F", 1, "D", b"192.0.2.7,9999,", None), ("F", 2, "D", b"192.0.2.7,9999,,", None),
                                ("F", 3, "R", b"", None), ("F", 1, "D", b"8.8.8.8,53,x", None)]))
    # identifiers of FINISHED TCP flows (the Mux keeps them as None-valued keys) are free: (1) every identifier has carried a
    # TCP connection that is over, then queries / datagrams arrive; (2) one query answered, the rest of the identifier space
    # used up by TCP connections that come and go, the cursor wraps, three more queries; (3) a TCP flow ends while the other
    # identifier is held by a pending query: the next query must get the finished flow's identifier, the one after it none
    W = ("9.9.9.9", 443)
    for maxc in (2, 3, 5):
        evs = [("T", 100, 2, W) for _ in range(maxc)] + [("K", c) for c in range(1, maxc + 1)]
        evs += [("D", 101, A, S, b"after-tcp-1"), ("U", 101, B, R, b"after-tcp-2")] + [("D", 102, C, S, b"after-tcp-3")] * (maxc > 2)
        evs += [("F", 1, "R", b"answer-1", None), ("F", 2, "D", b"192.0.2.7,9999,reply-2", None)]
        out.append(("T", maxc, 2, evs))
        evs = [("D", 10, A, None, b"first"), ("F", 1, "R", b"first-answer", None)]
        for c in range(2, maxc + 1):
            evs += [("T", 11, 2, W), ("K", c)]
        evs += [("D", 12 + k, (A, B, C)[k], None, b"after-wrap-%d" % k) for k in range(min(3, maxc))]
        evs += [("F", k + 1, "R", b"answer-after-wrap-%d" % k, None) for k in range(min(3, maxc))]
        out.append(("B", maxc, 2, evs))
    out.append(("B", 2, 2, [("T", 5, 2, W), ("D", 5, A, None, b"pending"), ("K", 2), ("K", 1), ("D", 6, B, None, b"gets 1"),
                            ("D", 6, C, None, b"nothing free"), ("F", 1, "R", b"for B", None), ("F", 2, "R", b"for A", None),
                            ("T", 7, 2, W), ("K", 2), ("T", 7, 2, W), ("K", 1), ("D", 8, C, None, b"again"), ("F", 2, "R", b"for C", None)]))
    out.append(("B", 2, 2, [("D", 10, A, None, b"q1"), ("F", 1, "R", b"r1", None), ("F", 1, "R", b"dup", None),
                            ("D", 11, B, None, b"q2"), ("D", 12, C, None, b"q3"), ("F", 1, "R", b"r3", None),
                            ("F", 2, "R", b"r2", None), ("F", 1, "R", b"late", None), ("D", 50, A, None, b"q4"),
                            ("D", 50, B, None, b"q5"), ("D", 50, C, None, b"q6 no identifier free"),
                            ("F", 2, "R", b"r5", None), ("F", 1, "R", b"r4", None)]))
    return out


def run_flow_script(method, maxc, family, evs):
    steps = run_client(method, maxc, family, evs)
    return steps, track_flows(method, maxc, family, evs, steps)


def crash_of_valid_script(method, evs, steps):
    """the events of the generated flow scripts are all well-formed, so no step of the real code may raise"""
    for i, st in enumerate(steps):
        if not st.startswith("OK "):
            return [("raised: a step of the real client code raised on a well-formed event script (step %d %r -> %s)"
                     % (i, evs[i][:2], st[:120]), "step %d %r -> %s" % (i, evs[i][:2], st))]
    return []


def run_c06_dgram(ctx):
    """C06 on the datagram flows of the real client: identifiers of DNS / UDP flows (FlowTracker clauses
    late_delivered, *_reply_lost, reissued, bad_identifier)"""
    rng, quick = ctx.rng, ctx.quick()
    cases = [(m, mc, fam, evs, "handmade") + run_flow_script(m, mc, fam, evs) for m, mc, fam, evs in handmade_flow_scripts()]
    for i in range(450 if quick else 8000):
        profile = ["expiry", "wrap", "tcpwrap", "fanout", "wrap"][i % 5]
        m, mc, fam, evs, steps, tr, _ = gen_flow_script(rng, profile, quick)
        cases.append((m, mc, fam, evs, profile, steps, tr))
    for m, mc, fam, evs, kind, steps, tr in cases:
        ctx.count("dgram_client_scripts")
        ctx.count("dgram_client_scripts_" + kind)
        ctx.count("dgram_client_events", len(evs))
        for k, v in tr.n.items():
            ctx.count("dgram_" + k, v)
        if mc < 10:
            ctx.count("dgram_client_scripts_tiny_identifier_space")
        viol = flow_violations("C06", tr) + [("c06_dgram_" + w, d) for w, d in crash_of_valid_script(m, evs, steps)]
        ctx.case(("dgram", kind, repr(evs)), nontrivial=tr.n.get("allocations", 0) > 0,
                 sample={"side": "dgram-client", "profile": kind, "method": m, "max_channel": mc, "events": len(evs),
                         "counts": tr.n, "last_step": steps[-1][:140] if steps else ""})
        for what, detail in viol:
            ctx.violation(what, {"script": ser_client(m, mc, fam, evs), "detail": detail, "oracle": "flows"})
    run_c06_system(ctx)
    run_c06_reuse(ctx)


# C06 "the peer frees an identifier before it sees its re-use", UDP associations, on the composition (real client
# functions + real server.main over FIFO links): the client gives identifier X back (idle expiry -> UDP_CLOSE(X)) and
# hands X to a new association strictly later in stream order (UDP_OPEN(X)); the server must accept that UDP_OPEN
# whether the two frames come in one read of the tunnel or in two.

def system_udp_reuse_case(rng, maxc):
    """UDP associations take (nearly) all of the maxc identifiers and reach the server; some sources stay active, the
    others go idle past the 30-second horizon; new sources arrive: the client's sweep sends UDP_CLOSE for the idle
    ones and the allocator hands their identifiers to the new sources; the server consumes the frames in ONE read or
    split at a random point; every association the server then holds gets a unique reply; everything is delivered."""
    srcs = [("10.0.0.%d" % i, 4000 + i) for i in range(1, 9)]
    R = rng.choice([("8.8.8.8", 53), ("1.1.1.1", 123), ("fd00::53", 65535)])
    r = SystemRun(maxc, method="T")
    c = s = rng.choice([0, 100, 1000000])
    n0 = min(4, rng.randint(max(1, maxc - 1), maxc))
    for i in range(n0):
        if not r.stuck:
            r.accept_ev(("U", c, srcs[i], R, b"old-%d" % i))
    if not r.stuck:
        r.server_io(s, len(r.up), [], [])
    for i in range(n0):
        if not r.stuck and rng.random() < 0.3:
            r.accept_ev(("U", c + 20, srcs[i], R, b"still-active-%d" % i))
    if not r.stuck and rng.random() < 0.3:
        r.server_io(s + 20, len(r.up), [], [])
    gap = rng.choice([29, 30, 31, 31, 32, 45])
    for j in range(rng.randint(1, maxc + 2)):
        if not r.stuck:
            r.accept_ev(("U", c + gap, srcs[4 + rng.randrange(4)], R, b"new-%d" % j))
    if not r.stuck and rng.random() < 0.35:
        r.server_io(s + gap, rng.randint(0, len(r.up)), [], [])            # the tunnel delivers a prefix first
    if not r.stuck:
        r.server_io(s + gap + 1, len(r.up), [], [])
    for n, sk in enumerate(sorted(r.usock.values())):
        if not r.stuck:
            r.server_io(s + gap + 2, 0, [sk], [("f", b"uniq-reuse-%d" % n, R)])
    while r.down and not r.stuck:
        r.deliver()
    return r


REUSE_WHAT = ("c06_udp_identifier_not_freed_before_reuse: 'the peer frees an identifier before it sees its re-use' - server "
              "received UDP_CLOSE(X) then UDP_OPEN(X) %s: identifier X not freed before its re-use - %s")


def udp_reuse_verdict(r):
    """wire-only oracle on the server side of a composed run: a UDP_OPEN(X) that follows the UDP_CLOSE(X) of X's
    previous association in stream order must be accepted (the server has freed X by then): server.main does not
    end in that iteration, a remote socket is created for it and the UDP_DATA(X) that follow in the same read are
    sent from that socket.  returns ([(what, detail)], number of re-uses seen, of which close and open in one read)"""
    v, closed, opened, seen, same = [], set(), set(), 0, 0
    for i, (now, frames, ready, io) in enumerate(r.sevs):
        st = r.srv_steps[i] if i < len(r.srv_steps) else None
        ended = st is None or not st.startswith("OK ")
        outs = [] if ended else parse_outs(st)
        ks = [int(o[1]) for o in outs if o[0] == "K"]
        n_open = sum(1 for f in frames if f[1] == "O")
        closed_here, ki = set(), 0
        for j, f in enumerate(frames):
            ch, key = f[0], f[1]
            if key == "C":
                if ch in opened:
                    opened.discard(ch)
                    closed.add(ch)
                    closed_here.add(ch)
            elif key == "O":
                k_idx, ki = ki, ki + 1
                if ch in opened:
                    continue                       # not a conforming re-use (never produced by the real client)
                opened.add(ch)
                if ch not in closed:
                    continue                       # first use of the identifier
                closed.discard(ch)
                seen += 1
                one = ch in closed_here
                same += 1 if one else 0
                where = "in one read" if one else "in two reads"
                head = ("server received UDP_CLOSE(%d) then UDP_OPEN(%d) %s (iteration %d, frames %s): identifier not freed "
                        "before its re-use - " % (ch, ch, where, i, ",".join("%s(%d)" % (g[1], g[0]) for g in frames)))
                if ended:
                    how = r.srv_steps[-1] if r.srv_steps else "nothing"
                    v.append((REUSE_WHAT % (where, "server ended with Fatal('UDP connection channel X already open') (SystemExit out of server.main)"
                                            if how == "FATAL" else "server.main ended with an exception"),
                              head + "server.main ended with %s%s" % (how, " (SystemExit of Fatal: server.py udp_open 'UDP connection "
                                                                       "channel %d already open')" % ch if how == "FATAL" else "")))
                    return v, seen, same
                if len(ks) != n_open:
                    v.append((REUSE_WHAT % (where, "the new flow was not opened (no remote socket created)"),
                              head + "the server created %d remote sockets for the %d UDP_OPEN frames of the read: the new flow "
                                     "was not opened" % (len(ks), n_open)))
                    continue
                sk = ks[k_idx]
                for g in frames[j + 1:]:
                    if g[0] == ch and g[1] == "C":
                        break
                    if g[0] == ch and g[1] == "D" and udp_body_ok(g[2]):
                        body = g[2].split(b",", 2)[2]
                        if not any(o[0] == "T" and int(o[1]) == sk and o[3] == hx(body) for o in outs):
                            v.append((REUSE_WHAT % (where, "the new flow's datagrams were dropped"),
                                      head + "the new flow's datagram %r was not sent from its remote socket %d (dropped)" % (body, sk)))
        if ended:
            break
    return v, seen, same


def run_c06_reuse(ctx):
    rng, quick = ctx.rng, ctx.quick()
    for i in range(80 if quick else 2000):
        maxc = rng.choice([1, 1, 2, 2, 3, 4])
        r = system_udp_reuse_case(rng, maxc)
        v, seen, same = udp_reuse_verdict(r)
        ctx.count("system_runs")
        ctx.count("system_runs_udp_reuse")
        ctx.count("system_udp_identifier_reuses_seen_by_server", seen)
        ctx.count("system_udp_close_and_reopen_in_one_read", same)
        ctx.count("system_datagrams_delivered", r.delivered)
        if r.stuck:
            ctx.count("system_runs_stuck")
        ctx.case(("system", "udp_reuse", repr(r.ops)), nontrivial=seen > 0,
                 sample={"side": "system", "kind": "udp_reuse", "max_channel": r.maxc, "reuses": seen, "in_one_read": same,
                         "delivered": r.delivered, "log": r.log[-4:]})
        for what, detail in v:
            ctx.violation(what, dict(system_rep(r), detail=detail))
        if r.udp_cross and r.udp_hyp_ok:
            ctx.violation("c06_udp_reply_delivered_to_another_source", dict(system_rep(r), detail=r.udp_cross[0]))
        if r.stuck and not v:
            ctx.violation("c06_dgram_raised: a step of the real code raised on a well-formed run of UDP associations",
                          dict(system_rep(r), detail=r.stuck))


def replay_flows(prop, rp):
    if rp.get("replay", {}).get("oracle") == "system":
        r = system_replay(rp["replay"]["system"])
        v = [x for x in system_verdict(r) if prop != "C06" or x[0] != "expired_query_still_waited_on"]
        if prop == "C06":
            v += udp_reuse_verdict(r)[0]
            if r.stuck and not v:
                v.append(("raised", r.stuck))
        print("system run ->", r.log[-1] if r.log else "", v)
        return bool(v)
    sc = rp.get("replay", {}).get("script")
    if not sc or sc.get("side") != "client":
        return None
    m, mc, fam, evs = des_client(sc)
    steps, tr = run_flow_script(m, mc, fam, evs)
    v = flow_violations(prop, tr) + crash_of_valid_script(m, evs, steps)
    print("client script ->", steps[-1] if steps else "", v)
    return bool(v)


# ======================================================================
# C08 on the datagram flows: socket faults of one flow, persistent or transient, on either end

SERVER_FAULT_KINDS = ["dns_connect", "dns_send", "dns_recv", "udp_sendto", "udp_recvfrom"]
# "a late message for a flow already closed / a flow being closed": the END of a flow (the client's UDP_CLOSE, the
# 30-second deadline of a query, the first answer of a query) falls into the SAME select round in which that flow's own
# socket is ready (a reply is pending, or its recvfrom/recv fails with the errno given).  errno None = a reply is read.
SERVER_COINCIDENCE_KINDS = ["udp_close_ready", "udp_close_ready_with_others", "udp_close_reopen_ready",
                            "udp_close_then_ready", "dns_deadline_ready", "dns_answer_and_deadline"]
FAULT_OPS = {"dns_connect": ["connect"], "dns_send": ["send"], "dns_recv": ["recv"], "udp_sendto": ["sendto"],
             "udp_recvfrom": ["recvfrom"]}


class ServerFaultCase:
    """A conforming peer drives the REAL server.main loop (run_server): a healthy UDP association H (identifier 1) and a
    healthy DNS query (identifier 2) are opened first; then 1..3 victim flows on fresh identifiers meet socket faults
    (kind x errno x persistent|transient; persistent = EVERY attempt of the faulted operation fails, for as many
    iterations as the code keeps trying; transient = one attempt fails, the next succeeds) while H keeps sending; at the
    end H sends and receives, the old query is answered and a NEW query is asked and answered.
    Oracle on the real code alone: no iteration raises / ends the loop, and every probe is observed on the fake
    sockets / the tunnel exactly as injected."""

    def __init__(self, rng, faults):
        self.rng, self.faults = rng, faults
        self.sysns = [] if rng.random() < 0.5 else rng.sample(V4, rng.randint(1, 2))
        self.to_ns = (rng.choice(V4), 53) if not self.sysns and rng.random() < 0.7 else None
        self.evs, self.steps, self.bad = [], [], []
        self.t = rng.choice([0, 100, 1000000])
        self.probes = 0

    def ns(self):
        return [("n", self.rng.randint(0, 3))] if self.to_ns is None else []

    def it(self, frames, ready, io, dt=1):
        """append one iteration, re-run the real loop on the whole script, return the new step (None if it stopped)"""
        self.t += dt
        self.evs.append((self.t, frames, ready, io))
        self.steps = run_server(self.to_ns, self.sysns, self.evs)
        if len(self.steps) < len(self.evs) or not self.steps[len(self.evs) - 1].startswith("OK "):
            return None
        return self.steps[len(self.evs) - 1]

    def dns_socks(self, st, ch):
        for h in st.split(" | ")[1].split(" ")[0][2:].split(","):
            t = h.split(".")
            if t[0] == "D" and int(t[1]) == ch:
                return [] if t[3] == "~" else [int(x) for x in t[3].split("+")]
        return []

    def udp_sock(self, st, ch):
        for h in st.split(" | ")[1].split(" ")[0][2:].split(","):
            t = h.split(".")
            if t[0] == "U" and int(t[1]) == ch:
                return int(t[2])
        return None

    def expect(self, st, token, what):
        self.probes += 1
        if st is not None and token not in st.split(" | ")[0][3:].split(","):
            self.bad.append(("other_flow_broken", "iteration %d: %s: expected %s, real code did %s"
                             % (len(self.evs) - 1, what, token, st.split(" | ")[0][:300])))

    def h_send(self, tag, extra_frames=(), extra_io=()):
        dst = ("192.0.2.9", 4500)
        pay = b"h-" + tag
        st = self.it([(1, "D", ("%s,%d," % dst).encode() + pay, 0)] + list(extra_frames), [], [("k",)] + list(extra_io))
        self.expect(st, "T:%d:%s:%s:1" % (self.hsock, addr_s(dst), hx(pay)), "datagram of the healthy association")
        return st

    def build(self):
        rng = self.rng
        st = self.it([(1, "O", b"2", 0), (1, "D", b"192.0.2.9,4500,h-first", 0), (2, "Q", b"healthy-query", 0)], [],
                     [("k",)] + self.ns() + [("k",), ("k",)])
        if st is None:
            return self.finish()
        self.hsock = self.udp_sock(st, 1)
        self.qsocks = self.dns_socks(st, 2)
        self.expect(st, "S:%d:%s:1" % (self.qsocks[0] if self.qsocks else -1, hx(b"healthy-query")), "healthy query sent")
        for j, (kind, e, persistent) in enumerate(self.faults):
            ch = 10 + j
            rule = ("P", e, FAULT_OPS.get(kind, []))
            if kind in ("dns_connect", "dns_send"):
                if persistent:
                    io = [rule]
                else:
                    io = self.ns() + ([("e", e)] if kind == "dns_connect" else [("k",), ("e", e)]) + self.ns() + [("k",), ("k",)]
                st = self.h_send(b"during-%d" % j, [(ch, "Q", b"victim-%d" % j, 0)], io)
            elif kind == "dns_recv":
                st = self.h_send(b"before-%d" % j, [(ch, "Q", b"victim-%d" % j, 0)], self.ns() + [("k",), ("k",)])
                for _ in range(4 if persistent else 1):
                    socks = self.dns_socks(st, ch) if st else []
                    if not socks:
                        break
                    st = self.it([], socks[-1:], [rule] if persistent else [("e", e)] + self.ns() + [("k",), ("k",)])
            elif kind == "udp_sendto":
                hdr = b"198.51.100.7,7,"
                if persistent:
                    st = self.h_send(b"during-%d" % j, [(ch, "O", b"2", 0), (ch, "D", hdr + b"v0", 0), (ch, "D", hdr + b"v1", 0)], [rule])
                    st = st and self.it([(ch, "D", hdr + b"v2", 0)], [], [rule])
                else:
                    st = self.h_send(b"during-%d" % j, [(ch, "O", b"2", 0), (ch, "D", hdr + b"v0", 0), (ch, "D", hdr + b"v1", 0)],
                                     [("e", e), ("k",)])
            elif kind in SERVER_COINCIDENCE_KINDS:
                st = self.coincidence(j, kind, e)
            else:
                st = self.h_send(b"before-%d" % j, [(ch, "O", b"2", 0), (ch, "D", b"198.51.100.7,7,v0", 0)], [("k",)])
                for _ in range(3 if persistent else 1):
                    vs = self.udp_sock(st, ch) if st else None
                    if vs is None:
                        break
                    st = self.it([], [vs], [rule] if persistent else [("e", e)])
                if st and rng.random() < 0.5:
                    st = self.it([(ch, "C", b"", 0)], [], [])
            if st is None:
                return self.finish()
        # probes: everything that was healthy still works, and a new flow can be opened
        st = self.h_send(b"after", [(3, "Q", b"query-after", 0)], self.ns() + [("k",), ("k",)])
        if st is None:
            return self.finish()
        new = self.dns_socks(st, 3)
        self.expect(st, "S:%d:%s:1" % (new[0] if new else -1, hx(b"query-after")), "a query asked after the fault is sent")
        st = self.it([], [self.hsock], [("f", b"h-reply", ("192.0.2.9", 4500))])
        self.expect(st, "F:1:%d:%s" % (CMD["D"], hx(b"192.0.2.9,4500,h-reply")), "reply for the healthy association relayed")
        if st is not None and self.qsocks:
            st = self.it([], self.qsocks[:1], [("d", b"healthy-answer")])
            self.expect(st, "F:2:%d:%s" % (CMD["R"], hx(b"healthy-answer")), "answer of the healthy query relayed")
        if st is not None and new:
            st = self.it([], new[:1], [("d", b"answer-after")])
            self.expect(st, "F:3:%d:%s" % (CMD["R"], hx(b"answer-after")), "answer of the query asked after the fault relayed")
        return self.finish()

    def coincidence(self, j, kind, e):
        """the end of victim flow j and the readiness of its own socket in one select round (see SERVER_COINCIDENCE_KINDS)"""
        ch = 10 + j
        peer = ("198.51.100.7", 7)
        pending = ("e", e) if e is not None else ("f", b"late-reply-%d" % j, peer)
        if kind.startswith("udp"):
            st = self.h_send(b"before-%d" % j, [(ch, "O", b"2", 0), (ch, "D", b"198.51.100.7,7,v0", 0)], [("k",)])
            vs = self.udp_sock(st, ch) if st else None
            if vs is None:
                return st
            if kind == "udp_close_ready":
                st = self.it([(ch, "C", b"", 0)], [vs], [pending])
            elif kind == "udp_close_ready_with_others":
                # the healthy association's socket is ready in the same round; it was created first, so it is served first
                st = self.it([(1, "D", b"192.0.2.9,4500,h-same-round", 0), (ch, "C", b"", 0)], sorted([self.hsock, vs]),
                             [("k",), ("f", b"h-same-round-reply", ("192.0.2.9", 4500)), pending])
                self.expect(st, "F:1:%d:%s" % (CMD["D"], hx(b"192.0.2.9,4500,h-same-round-reply")),
                            "reply for the healthy association in the round that closes the victim")
            elif kind == "udp_close_reopen_ready":
                # UDP_CLOSE and a new UDP_OPEN of the identifier in two consecutive rounds, the old socket ready in both
                st = self.it([(ch, "C", b"", 0)], [vs], [pending])
                st = st and self.it([(ch, "O", b"2", 0), (ch, "D", b"198.51.100.7,7,v-again", 0)], [vs], [("k",), pending])
                st = st and self.it([(ch, "C", b"", 0)], [], [])
            else:
                st = self.it([(ch, "C", b"", 0)], [], [])
                st = st and self.it([], [vs], [pending])
            return st
        # DNS: the victim's query is asked, then 31 s pass (every query asked so far is past its deadline, also the
        # healthy one, whose answer is therefore not probed any more)
        st = self.h_send(b"before-%d" % j, [(ch, "Q", b"victim-%d" % j, 0)], self.ns() + [("k",), ("k",)])
        socks = self.dns_socks(st, ch) if st else []
        if not socks:
            return st
        self.qsocks = []
        reply = ("e", e) if e is not None else ("d", b"late-answer-%d" % j)
        if kind == "dns_deadline_ready":
            st = self.it([], socks[:1], [reply] + self.ns() + [("k",), ("k",)], dt=31)
        else:
            st = self.it([], socks[:1], [reply] + self.ns() + [("k",), ("k",)], dt=30)
            st = st and self.it([], socks[:1], [reply], dt=1)
        return st and self.it([], socks[:1], [reply])

    def finish(self):
        for i, st in enumerate(self.steps):
            if not st.startswith("OK "):
                self.bad.insert(0, ("server_raised", "iteration %d -> %s (peer conforming; injected: %s)"
                                    % (i, st, ", ".join(fault_name(k, e, p) for k, e, p in self.faults))))
        if len(self.steps) < len(self.evs) and not any(not s.startswith("OK ") for s in self.steps):
            self.bad.insert(0, ("server_raised", "the loop stopped after iteration %d" % (len(self.steps) - 1)))
        return self


def fault_name(k, e, p):
    if k in SERVER_COINCIDENCE_KINDS:
        return "%s (%s pending)" % (k, "a reply" if e is None else errname(e))
    return "%s %s %s" % (k, errname(e), "persistent" if p else "transient")


def server_fault_oracle(to_ns, sysns, evs, steps):
    """for replay: the failing script is re-run; the loop must survive every iteration"""
    return [("server_raised", "iteration %d -> %s" % (i, st)) for i, st in enumerate(steps) if not st.startswith("OK ")]


def run_c08_dgram(ctx):
    rng, quick = ctx.rng, ctx.quick()
    # ---- server: every fault kind x every errno, persistent and transient, alone; then random sequences
    plans = [[(k, e, p)] for k in SERVER_FAULT_KINDS for e in ERRNO_ALL for p in (True, False)]
    # the end of a flow and the readiness of its own socket in one select round: every kind x {reply pending, 5 errnos}
    co_errs = [None, errno.ECONNREFUSED, errno.EHOSTUNREACH, errno.EAGAIN, errno.EPERM, errno.ENOBUFS]
    plans += [[(k, e, False)] for k in SERVER_COINCIDENCE_KINDS for e in co_errs]

    def rand_fault():
        if rng.random() < 0.4:
            return (rng.choice(SERVER_COINCIDENCE_KINDS), rng.choice(co_errs + [None, None]), False)
        return (rng.choice(SERVER_FAULT_KINDS), rng.choice(ERRNO_ALL), rng.random() < 0.5)
    for _ in range(80 if quick else 3000):
        plans.append([rand_fault() for _ in range(rng.randint(2, 3))])
    for faults in plans:
        c = ServerFaultCase(rng, faults).build()
        ctx.count("dgram_server_fault_cases")
        ctx.count("dgram_server_iterations", len(c.evs))
        ctx.count("dgram_server_probes_checked", c.probes)
        for k, e, p in faults:
            if k in SERVER_COINCIDENCE_KINDS:
                ctx.count("dgram_server_coincidence_%s_%s" % (k, "reply_pending" if e is None else "error_pending"))
            else:
                ctx.count("dgram_server_fault_%s_%s" % (k, "persistent" if p else "transient"))
            if e is not None:
                ctx.count("dgram_fault_errno_%s" % errname(e))
        ctx.case(("dgram-server", repr(faults), repr(c.evs)), nontrivial=True,
                 sample={"side": "dgram-server", "faults": [fault_name(k, e, p) for k, e, p in faults],
                         "iterations": len(c.evs), "probes": c.probes, "last_step": c.steps[-1][:140] if c.steps else ""})
        for what, detail in c.bad:
            ctx.violation("c08_dgram_" + what, {"script": ser_server(c.to_ns, c.sysns, c.evs), "detail": detail,
                                               "faults": [fault_name(k, e, p) for k, e, p in faults], "oracle": "server-faults"})
    # ---- client: the delivery of replies to one source fails (bind / sendto of the reply socket), every errno
    plans = [{"mode": mode, "errno": e, "stage": stage} for mode in ("persistent", "transient") for e in ERRNO_ALL for stage in (0, 1)]
    for i in range(len(plans) * (2 if quick else 40)):
        fault = plans[i % len(plans)]
        profile = ["expiry", "fanout", "wrap"][i % 3]
        m, mc, fam, evs, steps, tr, hits = gen_flow_script(rng, profile, quick, fault)
        ctx.count("dgram_client_fault_cases")
        ctx.count("dgram_client_events", len(evs))
        ctx.count("dgram_client_faults_injected", hits)
        if hits:
            ctx.count("dgram_client_fault_%s_%s" % (fault["mode"], ["bind", "sendto"][fault["stage"]] if m == "T" else "sendto"))
            ctx.count("dgram_fault_errno_%s" % errname(fault["errno"]), hits)
        ctx.count("dgram_client_replies_checked_on_other_flows",
                  tr.n.get("dns_replies_for_pending_query", 0) + tr.n.get("udp_replies_for_open_association", 0))
        viol = flow_violations("C08", tr) + [("c08_dgram_client_" + w, d) for w, d in crash_of_valid_script(m, evs, steps)]
        ctx.case(("dgram-client", profile, repr(evs)), nontrivial=hits > 0,
                 sample={"side": "dgram-client", "fault": dict(fault, errno=errname(fault["errno"])), "faults_injected": hits,
                         "method": m, "max_channel": mc, "events": len(evs)})
        for what, detail in viol:
            ctx.violation(what, {"script": ser_client(m, mc, fam, evs), "detail": detail, "oracle": "flows",
                                 "fault": dict(fault, errno=errname(fault["errno"]))})


def replay_c08_dgram(rp):
    r = rp.get("replay", {})
    sc = r.get("script")
    if not sc:
        return None
    if sc.get("side") == "server":
        t, s, evs = des_server(sc)
        steps = run_server(t, s, evs)
        v = server_fault_oracle(t, s, evs, steps)
        print("server script ->", steps[-1] if steps else "", v)
        return bool(v) or (r.get("oracle") == "server-faults" and "expected" in str(r.get("detail")) and _probe_again(r, steps))
    return replay_flows("C08", rp)


def _probe_again(r, steps):
    """an 'other_flow_broken' replay: the expected token is quoted in the stored detail"""
    import re as _re
    m = _re.search(r"iteration (\d+): .*expected (\S+), real", r.get("detail", ""))
    if not m or int(m.group(1)) >= len(steps):
        return True
    return m.group(2) not in steps[int(m.group(1))].split(" | ")[0][3:].split(",")


# ======================================================================
# C05 on the datagram path: the "ip,port," header of EVERY UDP_DATA message is the destination of THAT datagram

C05_V4 = ["1.2.3.4", "4.3.2.1", "0.0.0.1", "255.255.255.255", "10.0.0.1", "1.0.0.10", "192.168.7.9", "127.0.0.1"]
C05_V6 = ["::1", "1::", "fd00::1", "2001:db8::53", "::ffff:1.2.3.4", "ffff:ffff:ffff:ffff:ffff:ffff:ffff:ffff",
          "2001:db8:0:1::1", "2001:db8:1::1"]
C05_PORTS = [0, 1, 53, 13568, 255, 256, 0x1234, 0x3412, 65535, 65280, 4500, 38161]      # p and its byte-swapped twin


def c05_destinations(rng, v6):
    """2..5 distinct destinations of one source: same host / different port (incl. byte-swapped twins), different
    host / same port, both different"""
    ips = C05_V6 if v6 else C05_V4
    out = []
    ip, port = rng.choice(ips), rng.choice(C05_PORTS)
    out.append((ip, port))
    for _ in range(rng.randint(1, 4)):
        r = rng.random()
        if r < 0.35:
            d = (ip, ((port & 0xff) << 8 | port >> 8) if port not in (0, 65535) and rng.random() < 0.6 else rng.choice(C05_PORTS))
        elif r < 0.65:
            d = (rng.choice(ips), port)
        else:
            d = (rng.choice(ips), rng.choice(C05_PORTS + [rng.randint(0, 65535)]))
        if d not in out:
            out.append(d)
    if len(out) < 2:
        out.append((ips[(ips.index(ip) + 1) % len(ips)], port))
    return out


def gen_c05_script(rng, quick):
    v6 = rng.random() < 0.5
    family = 10 if v6 else 2
    nsrc = rng.randint(1, 3)
    srcs = [((rng.choice(C05_V6[2:4]), 40000 + k, 0, 0) if v6 else (rng.choice(C05_V4[4:7]), 40000 + k)) for k in range(nsrc)]
    dests = [c05_destinations(rng, v6) for _ in srcs]
    now = rng.choice([0, 1000, 1000000])
    evs = []
    for k in range(rng.randint(3, 10 if quick else 24)):
        i = rng.randrange(nsrc)
        now += rng.choice([0, 0, 1, 5, 5, 29, 30, 31, 45])
        evs.append(("U", now, srcs[i], rng.choice(dests[i]), b"d%d" % k + rand_payload(rng, False)))
    return "T", rng.choice([65535, 65535, 8, 2]), family, evs


def c05_handmade():
    A, B = ("10.0.0.5", 40001), ("10.0.0.6", 40002)
    A6 = ("fd00::5", 40003, 0, 0)
    out = [("T", 65535, 2, [("U", 10, A, ("1.2.3.4", 53), b"a1"), ("U", 11, A, ("4.3.2.1", 53), b"a2"), ("U", 12, B, ("1.2.3.4", 53), b"b1"),
                            ("U", 13, A, ("1.2.3.4", 13568), b"a3"), ("U", 14, A, ("1.2.3.4", 53), b"a4"), ("U", 50, A, ("4.3.2.1", 0), b"a5"),
                            ("U", 51, B, ("255.255.255.255", 65535), b"b2"), ("U", 90, A, ("1.2.3.4", 53), b"a6 fresh association")]),
           ("T", 65535, 10, [("U", 10, A6, ("2001:db8::53", 53), b"x1"), ("U", 11, A6, ("::ffff:1.2.3.4", 53), b"x2"),
                             ("U", 12, A6, ("2001:db8::53", 13568), b"x3,with,commas"), ("U", 13, A6, ("2001:db8::53", 53), b"x4"),
                             ("U", 14, A6, ("ffff:ffff:ffff:ffff:ffff:ffff:ffff:ffff", 65535), b""), ("U", 15, A6, ("::1", 0), b"\0")])]
    return out


def c05_oracle(method, maxc, family, evs, steps):
    """on the wire: every captured datagram with a destination produces exactly one UDP_DATA message whose header names
    that datagram's destination (compared as packed address + port) and whose payload is the datagram's"""
    af = real_socket.AF_INET6 if family == 10 else real_socket.AF_INET
    bad = []
    n = 0
    for i, ev in enumerate(evs):
        if i >= len(steps):
            break
        st = steps[i]
        if not st.startswith("OK "):
            bad.append(("c05_dgram_raised", "step %d %r -> %s" % (i, ev[:4], st)))
            break
        if ev[0] != "U" or ev[3] is None:
            continue
        datas = [unhx(o[3]) for o in parse_outs(st) if o[0] == "F" and int(o[2]) == CMD["D"]]
        frames = [o for o in parse_outs(st) if o[0] == "F" and int(o[2]) in (CMD["D"], CMD["O"])]
        if not frames and maxc < 10:
            continue                  # no identifier free: the datagram is dropped (C08's business)
        n += 1
        want = (real_socket.inet_pton(af, ev[3][0]), ev[3][1], ev[4][:4096])
        got = []
        for d in datas:
            p = d.split(b",", 2)
            try:
                got.append((real_socket.inet_pton(af, p[0].decode("ascii")), int(p[1]), p[2]))
            except Exception:
                got.append(("unparsable", d[:60]))
        if got != [want]:
            bad.append(("c05_udp_destination_differs", "step %d: datagram of %r to %s port %d was put on the tunnel as %s"
                        % (i, tuple(ev[2][:2]), ev[3][0], ev[3][1],
                           [d.split(b",", 2)[:2] if b"," in d else d[:40] for d in datas] or "nothing")))
    return bad, n


def c05_server_oracle(family, evs, steps):
    """end to end: the frames the real client produced, fed to the real server.main loop: every sendto goes to the
    destination of the corresponding captured datagram"""
    frames, dsts = [], []
    for ev, st in zip(evs, steps):
        if not st.startswith("OK "):
            break
        for o in parse_outs(st):
            if o[0] == "F" and int(o[2]) in KEY_OF_CMD:
                frames.append((int(o[1]), KEY_OF_CMD[int(o[2])], unhx(o[3]), 0))
                if int(o[2]) == CMD["D"]:
                    dsts.append(ev)
    if not frames:
        return [], 0
    ssteps = run_server(None, [], [(0, frames, [], [])])
    if not ssteps or not ssteps[0].startswith("OK "):
        return [("c05_dgram_server_raised", "the server loop stopped on the client's own frames: %r" % ssteps[:1])], 0
    ts = [o for o in parse_outs(ssteps[0]) if o[0] == "T"]
    bad = []
    for ev, o in zip(dsts, ts):
        if o[2] != "%s@%d" % (hx(ev[3][0]), ev[3][1]) or unhx(o[3]) != ev[4][:4096]:
            bad.append(("c05_udp_server_sendto_differs", "datagram of %r to %s port %d left the server as sendto(%s)"
                        % (tuple(ev[2][:2]), ev[3][0], ev[3][1], o[2])))
    if len(ts) != len(dsts):
        bad.append(("c05_udp_server_sendto_differs", "%d UDP_DATA messages, %d sendto calls" % (len(dsts), len(ts))))
    return bad, len(ts)


def run_c05_dgram(ctx):
    rng, quick = ctx.rng, ctx.quick()
    cases = [c + ("handmade",) for c in c05_handmade()]
    for _ in range(300 if quick else 6000):
        cases.append(gen_c05_script(rng, quick) + ("random",))
    for m, mc, fam, evs, kind in cases:
        steps = run_client(m, mc, fam, evs)
        bad, n = c05_oracle(m, mc, fam, evs, steps)
        bad2, n2 = c05_server_oracle(fam, evs, steps) if not bad else ([], 0)
        per_src = {}
        for ev in evs:
            per_src.setdefault(tuple(ev[2][:2]), set()).add(tuple(ev[3][:2]))
        ctx.count("dgram_scripts_%s_v%d" % (kind, 6 if fam == 10 else 4))
        ctx.count("dgram_datagrams_checked_on_the_wire", n)
        ctx.count("dgram_datagrams_checked_at_server_sendto", n2)
        ctx.count("dgram_sources_with_2plus_destinations", sum(1 for v in per_src.values() if len(v) >= 2))
        ctx.count("dgram_destination_changes", sum(1 for a, b in zip(evs, evs[1:]) if a[2] == b[2] and a[3] != b[3]))
        ctx.case(("dgram", repr(evs)), nontrivial=n > 1,
                 sample={"side": "dgram-client", "family": fam, "max_channel": mc,
                         "datagrams": [[list(e[2][:2]), list(e[3])] for e in evs[:6]]})
        for what, detail in bad + bad2:
            ctx.violation(what, {"script": ser_client(m, mc, fam, evs), "detail": detail, "oracle": "udp-destinations"})


def replay_c05_dgram(rp):
    sc = rp.get("replay", {}).get("script")
    m, mc, fam, evs = des_client(sc)
    steps = run_client(m, mc, fam, evs)
    bad, n = c05_oracle(m, mc, fam, evs, steps)
    bad2, n2 = c05_server_oracle(fam, evs, steps) if not bad else ([], 0)
    print("datagrams checked: %d on the wire, %d at the server ->" % (n, n2), bad + bad2)
    return bool(bad + bad2)


# ======================================================================
# C11: a reply comes back byte-identical whatever --latency-buffer-size is (implementation-only: the model's
# BUFSIZE is the literal 4096 of server.py; the buffer size is not a parameter of Model/Dgram.v)

LBS_VALUES = [0, 1, 512, 1024, 4095, 4096, 32768]


def reply_size_case(lbs, size, v6, seed):
    """one association, one request, one reply of `size` bytes from the remote host, through the real server.main
    (latency_buffer_size=lbs) and back through the real client (udp_done / tproxy.send_udp).
    Returns (verdict, detail, replayable dict)"""
    rnd = __import__("random").Random(seed)
    reply = bytes(rnd.randrange(256) for _ in range(min(size, 64))) * (size // 64 + 1)
    reply = reply[:size]
    src = ("fd00::5", 40001, 0, 0) if v6 else ("10.0.0.5", 40001)
    dst = ("2001:db8::53", 4500) if v6 else ("192.0.2.9", 4500)
    family = 10 if v6 else 2
    rep = {"lbs": lbs, "size": size, "v6": v6, "seed": seed, "oracle": "reply-size"}
    sess = ClientSession("T", 65535, family)
    try:
        st = sess.step(("U", 100, src, dst, b"request"))
        frames = [(int(o[1]), KEY_OF_CMD[int(o[2])], unhx(o[3]), 0) for o in parse_outs(st) if o[0] == "F"]
        nbytes = sum(8 + len(f[2]) for f in frames)
        rounds = 1 if lbs >= nbytes or lbs == 0 else -(-nbytes // lbs)
        evs = [(100, frames, [], [("k",)])] + [(100, [], [], [])] * rounds
        evs.append((101, [], [0], [("f", reply, dst)]))
        steps = run_server(None, [], evs, lbs=lbs)
        if len(steps) < len(evs) or not steps[-1].startswith("OK "):
            return "server_stopped", "server.main(latency_buffer_size=%d): %r" % (lbs, steps[-1:]), rep
        sent = [o for s in steps for o in parse_outs(s) if o[0] == "T"]
        if len(sent) != 1 or unhx(sent[0][3]) != b"request":
            return "request_lost", "request not forwarded exactly once: %r" % sent, rep
        back = [o for o in parse_outs(steps[-1]) if o[0] == "F" and int(o[2]) == CMD["D"]]
        delivered = []
        for o in back:
            st = sess.step(("F", int(o[1]), "D", unhx(o[3]), None))
            delivered += [g for g in (parse_outs(st) or []) if g[0] == "G"]
    finally:
        sess.close()
    want_from, want_to = "%s@%d" % (hx(dst[0]), dst[1]), addr_s(src)
    if len(delivered) != 1 or delivered[0][1] != want_from or delivered[0][2] != want_to:
        return "not_one_datagram", "reply of %d bytes, latency buffer %d: delivered %r" % (size, lbs, [g[:3] for g in delivered]), rep
    got = unhx(delivered[0][3])
    if size <= 4096:
        ok = got == reply
    else:
        ok = got == reply or got == reply[:4096]     # the reference reads 4096 bytes: longer replies are outside the property
    if not ok:
        return "payload_differs", ("reply of %d bytes with --latency-buffer-size %d reached the source as %d bytes%s"
                                   % (size, lbs, len(got), "" if got != reply[:len(got)] else " (a prefix: truncated)")), rep
    return "ok_" + ("identical" if got == reply else "first_4096"), "", rep


def run_c11_reply_sizes(ctx):
    rng, quick = ctx.rng, ctx.quick()
    for lbs in LBS_VALUES:
        sizes = sorted(set([0, 1, 2, 511, 512, 513, 1023, 1024, 1025, 4094, 4095, 4096, 4097, 5000]
                           + [s for s in (lbs - 1, lbs, lbs + 1) if 0 <= s <= 5000]
                           + [rng.randint(0, 4096) for _ in range(3 if quick else 40)]))
        for size in sizes:
            v6 = rng.random() < 0.4
            verdict, detail, rep = reply_size_case(lbs, size, v6, rng.randrange(10 ** 6))
            ctx.count("reply_size_cases")
            ctx.count("reply_size_lbs_%d" % lbs)
            ctx.count("reply_size_%s" % ("above_4096_" + verdict if size > 4096 else verdict))
            ctx.case(("reply-size", lbs, size, v6), nontrivial=size > 0,
                     sample={"side": "reply-size", "latency_buffer_size": lbs, "reply_bytes": size, "verdict": verdict})
            if lbs == 0 and verdict == "server_stopped":
                # server.main(latency_buffer_size=0) raises UnboundLocalError before its first select (conditional
                # `import ... as ssnet`): DESIGN 9.4 "observations recorded but not registered"; the client sends 0
                # only for --latency-buffer-size 0.  Counted, not judged here.
                ctx.count("reply_size_lbs_0_server_does_not_start_observed")
                continue
            if not verdict.startswith("ok_"):
                ctx.violation("c11_reply_" + verdict, dict(rep, detail=detail))


def replay_c11_reply_size(rp):
    r = rp.get("replay", {})
    verdict, detail, _ = reply_size_case(r["lbs"], r["size"], r["v6"], r["seed"])
    print("reply-size case ->", verdict, detail)
    return not verdict.startswith("ok_")


# ======================================================================
# where C10 / C11 start: client._main registers the listeners (real MultiListener.add_handler, real runonce)

class MainStop(BaseException):
    pass


def run_client_main(case):
    """Drives the REAL client._main: fake ssh.connect (scripted server stream: sync string + ROUTES, later the replies),
    a firewall-client stub whose start() succeeds, REAL client.MultiListener objects for TCP / UDP / DNS whose v6 / v4
    sockets are created by the real MultiListener.bind through a fake socket.socket, the REAL ssnet.runonce with a
    scripted select().  case = {"method": "T"|"B", "udp": bool, "dns": bool, "v6": bool, "v4": bool, "events": [...]}
      events: ["dns", fam, src, dst|None, payloadhex] | ["udp", fam, src, dst, payloadhex] | ["tcp", fam, src, dst]
              | ["reply", index of the event answered, payloadhex]            (fam = 4 | 6)
    Returns {"status", "start": fw.start calls, "reg": {listener socket label: number of handlers holding it},
             "events": [{"frames": [(ch, cmd, data)] written to the tunnel, "dgrams": [...], "unregistered": bool}]}"""
    import sshuttle.client as client
    import sshuttle.ssnet as ssnet
    import sshuttle.helpers as helpers
    import sshuttle.methods as methods
    import sshuttle.methods.tproxy as tproxy
    AF6, AF4 = real_socket.AF_INET6, real_socket.AF_INET

    class W:
        pass
    world = W()
    world.now, world.dgrams, world.label, world.lsocks, world.wire = 100, [], "?", {}, bytearray()

    class TSock(FakeTcpSock):
        """an accepted connection: silent (its Proxy is woken together with the tunnel and finds nothing to read)"""

        def recv(self, n):
            raise BlockingIOError(errno.EAGAIN, "no data")

        def send(self, b):
            return len(b)

    class LSock:
        """a listening socket (non-blocking: reading with nothing queued fails with EAGAIN)"""

        def __init__(self, family, typ=0, proto=0):
            self.family, self.type = family, typ
            self.label = world.label + ("6" if family == AF6 else "4")
            self.q = []
            self.id = len(world.lsocks)
            world.lsocks[self.label] = self

        def __repr__(self):
            return "<%s>" % self.label

        def fileno(self):
            return 200 + self.id

        def bind(self, a):
            self.bound = a

        def setsockopt(self, *a):
            pass

        def listen(self, n):
            pass

        def setblocking(self, b):
            pass

        def _take(self):
            if not self.q:
                raise BlockingIOError(errno.EAGAIN, "nothing queued on %s" % self.label)
            return self.q.pop(0)

        def accept(self):
            src, dst = self._take()
            return TSock(self.family, dst), src

        def recvfrom(self, n):
            src, dst, data = self._take()
            return data[:n], src

        def recvmsg(self, n, anc=0, flags=0):
            src, dst, data = self._take()
            return kernel_recvmsg(data, _cmsg_for(dst), src, n, anc)

        def sendto(self, data, dst):
            world.dgrams.append(("via:" + self.label, addr_s(dst), bytes(data)))

    class Sender:
        """the transparent socket tproxy.send_udp creates"""

        def __init__(self, family, typ=0, proto=0):
            self.family, self.bound = family, None

        def setsockopt(self, *a):
            pass

        def bind(self, a):
            self.bound = a

        def sendto(self, data, dst):
            world.dgrams.append(("from:" + addr_s(self.bound), addr_s(dst), bytes(data)))

        def close(self):
            pass

    class RecW:
        def fileno(self):
            return 1

        def write(self, b):
            world.wire += bytes(b)
            return len(b)

        def flush(self):
            pass

    class Proc:
        pid = 4242

        def poll(self):
            return None

    class FW:
        def __init__(self, meth):
            self.method, self.auto_nets, self.starts = meth, [], 0

        def start(self):
            self.starts += 1

        def sethostip(self, *a):
            pass

    rfile, wfile = FakeR(), RecW()
    rfile.chunks = [b"\0\0SSHUTTLE0001" + struct.pack("!ccHHH", b"S", b"S", 0, ssnet.CMD_ROUTES, 0)]
    evs = case["events"]
    res = {"status": None, "start": 0, "reg": None, "events": []}
    state = {"i": -1, "rounds": 0, "mark": 0, "cur": None}

    def frames_since(mark):
        out, b = [], bytes(world.wire[mark:])
        while len(b) >= 8:
            s1, s2, ch, cmd, ln = struct.unpack("!ccHHH", b[:8])
            out.append((ch, cmd, b[8:8 + ln]))
            b = b[8 + ln:]
        return out

    def close_event():
        if state["cur"] is not None:
            state["cur"]["frames"] = frames_since(state["mark"])
            state["cur"]["dgrams"] = list(world.dgrams)
            res["events"].append(state["cur"])
        state["mark"] = len(world.wire)
        world.dgrams = []

    def fake_select(r, w, x, timeout=None):
        if timeout == 0:
            return ([rfile] if rfile.chunks else [], [wfile], [])
        state["rounds"] += 1
        if state["rounds"] > 40 * (len(evs) + 2):
            res["status"] = "LIVELOCK"
            raise MainStop()
        if rfile.chunks or wfile in w:                      # the tunnel has something to read or to write first
            return ([rfile] if rfile.chunks else [], [wfile] if wfile in w else [], [])
        close_event()
        state["i"] += 1
        if state["i"] >= len(evs):
            raise MainStop()
        ev = evs[state["i"]]
        state["cur"] = {"unregistered": False}
        for s in world.lsocks.values():
            s.q[:] = []
        if ev[0] == "reply":
            asked = res["events"][ev[1]]["frames"] if ev[1] < len(res["events"]) else []
            kind = evs[ev[1]][0]
            want = {"dns": CMD["Q"], "udp": CMD["D"]}[kind]
            chans = [f[0] for f in asked if f[1] == want]
            if not chans:
                state["cur"]["skipped"] = True
                return ([], [], [])
            if kind == "dns":
                body, cmd = unhx(ev[2]), CMD["R"]
            else:
                d = evs[ev[1]][3]
                body, cmd = ("%s,%d," % (d[0], d[1])).encode() + unhx(ev[2]), CMD["D"]
            rfile.chunks.append(struct.pack("!ccHHH", b"S", b"S", chans[0], cmd, len(body)) + body)
            return ([rfile], [], [])
        sock = world.lsocks.get(ev[0] + ("6" if ev[1] == 6 else "4"))
        if sock is None:
            state["cur"]["skipped"] = True
            return ([], [], [])
        src, dst = tuple(ev[2]), (tuple(ev[3]) if ev[3] else None)
        sock.q.append((src, dst) if ev[0] == "tcp" else (src, dst, unhx(ev[4])))
        if sock not in r:
            state["cur"]["unregistered"] = True              # nobody waits on this listener socket: the item stays unread
            return ([], [], [])
        return ([sock], [], [])

    real_runonce = ssnet.runonce

    def runonce(handlers, mux):
        if res["reg"] is None:
            res["reg"] = {}
            for lab, s in world.lsocks.items():
                res["reg"][lab] = sum(1 for h in handlers if h is not mux and s in getattr(h, "socks", []))
        world.handlers = handlers
        return real_runonce(handlers, mux)

    meth = tproxy.Method("tproxy") if case["method"] == "T" else methods.BaseMethod("nat")
    fw = FW(meth)
    saved = (client.ssh, client.time, client.log, client.islocal, client.socket, tproxy.socket, ssnet.select, ssnet.runonce,
             ssnet.set_non_blocking_io, ssnet.log, helpers.log, ssnet.MAX_CHANNEL)
    try:
        client.ssh = Shim(client.ssh, connect=lambda *a, **k: (Proc(), rfile, wfile))
        client.time = clock_shim(world)
        client.log = ssnet.log = helpers.log = lambda s: None
        client.islocal = lambda ip, fam: False
        client.socket = Shim(real_socket, socket=LSock)
        tproxy.socket = Shim(real_socket, socket=Sender)
        ssnet.select = Shim(real_select, select=fake_select)
        ssnet.runonce = runonce
        ssnet.set_non_blocking_io = lambda fd: None
        client.dnsreqs.clear()
        client.udp_by_src.clear()
        a6 = ("::1", 12300, 0, 0) if case.get("v6", True) else None
        a4 = ("127.0.0.1", 12300) if case.get("v4", True) else None
        listeners = {}
        for lab, typ, on in (("tcp", real_socket.SOCK_STREAM, True), ("udp", real_socket.SOCK_DGRAM, case["udp"]),
                             ("dns", real_socket.SOCK_DGRAM, case["dns"])):
            if on:
                world.label = lab
                listeners[lab] = client.MultiListener(typ)
                listeners[lab].bind(a6, a4)
            else:
                listeners[lab] = None
        try:
            client._main(listeners["tcp"], listeners["udp"], fw, None, None, None, False, 32768, listeners["dns"],
                         None, False, False, False, None, False, None)
            res["status"] = "RETURNED"
        except MainStop:
            res["status"] = res["status"] or "stopped"
        except helpers.Fatal as e:
            res["status"] = "FATAL " + str(e)[:80]
        except Exception as e:
            res["status"] = "CRASH %s %s" % (exc_name(e), str(e)[:80])
        if res["status"] != "stopped" and state["cur"] is not None:
            close_event()
    finally:
        getattr(world, "handlers", [])[:] = []
        (client.ssh, client.time, client.log, client.islocal, client.socket, tproxy.socket, ssnet.select, ssnet.runonce,
         ssnet.set_non_blocking_io, ssnet.log, helpers.log, ssnet.MAX_CHANNEL) = saved
        client.dnsreqs.clear()
        client.udp_by_src.clear()
    res["start"] = fw.starts
    return res


def main_oracle(prop, case, res):
    """on the wire (the bytes the real Mux wrote) and on the fake sockets.  C10 judges the DNS and TCP listeners,
    C11 the UDP and TCP listeners; both judge start-up, registration and 'nothing raises'"""
    bad = []
    mine = {"C10": ("dns", "tcp"), "C11": ("udp", "tcp")}[prop]
    tag = prop.lower() + "_main_"
    evs = case["events"]
    if res["status"] != "stopped":
        bad.append((tag + "raised", "client._main ended with %s after %d of %d events" % (res["status"], len(res["events"]), len(evs))))
    if res["start"] != 1:
        bad.append((tag + "startup", "fw.start() was called %d times after the ROUTES message" % res["start"]))
    for lab, n in sorted((res["reg"] or {}).items()):
        if n != 1 and lab[:3] in mine:
            bad.append((tag + lab[:3] + "_listener_registration", "listener socket %s is held by %d handlers" % (lab, n)))
    udp_seen = {}
    for i, ev in enumerate(evs):
        if i >= len(res["events"]):
            break
        got = res["events"][i]
        frames, dgrams = got["frames"], got["dgrams"]
        kind = ev[0] if ev[0] != "reply" else evs[ev[1]][0]
        if ev[0] == "udp" and not got.get("skipped"):
            first = tuple(ev[2]) not in udp_seen
            udp_seen[tuple(ev[2])] = True
        if kind not in mine or got.get("skipped"):
            continue
        fam = {4: 2, 6: 10}.get(ev[1]) if ev[0] != "reply" else None
        if ev[0] == "dns":
            ok = len(frames) == 1 and frames[0][1] == CMD["Q"] and frames[0][2] == unhx(ev[4]) and not dgrams
            want = "exactly one DNS_REQ with the datagram's payload"
        elif ev[0] == "udp":
            hdr = ("%s,%d," % (ev[3][0], ev[3][1])).encode() + unhx(ev[4])
            body = [(f[1], f[2]) for f in frames]
            exp = ([(CMD["O"], b"%d" % fam)] if first else []) + [(CMD["D"], hdr)]
            ok = body == exp and len(set(f[0] for f in frames)) == 1 and not dgrams
            want = ("UDP_OPEN + " if first else "") + "one UDP_DATA with the captured destination %s port %d" % (ev[3][0], ev[3][1])
        elif ev[0] == "tcp":
            ok = len(frames) == 1 and frames[0][1] == CMD["TCPCONNECT"] and \
                frames[0][2] == b"%d,%s,%d" % (fam, ev[3][0].encode(), ev[3][1]) and not dgrams
            want = "exactly one TCP_CONNECT for %s port %d" % (ev[3][0], ev[3][1])
        else:
            q = evs[ev[1]]
            asker = addr_s(tuple(q[2]))
            if q[0] == "dns" and case["method"] == "B":
                exp = [("via:dns%d" % q[1], asker, unhx(ev[2]))]
            else:
                exp = [("from:" + addr_s(tuple(q[3])), asker, unhx(ev[2]))]
            ok = dgrams == exp and not frames
            want = "one datagram %r" % (exp[0][:2],)
        if not ok:
            bad.append((tag + kind + "_listener", "event %d %r%s: expected %s; on the tunnel: %s; datagrams: %s"
                        % (i, ev[:4], " (no handler waits on that listener socket)" if got.get("unregistered") else "", want,
                           [(f[0], hex(f[1]), f[2][:40]) for f in frames] or "nothing", [d[:2] for d in dgrams] or "none")))
    return bad


def gen_main_case(rng, method, udp, dns, v6=True, v4=True):
    fams = ([6] if v6 else []) + ([4] if v4 else [])
    A = {4: [("10.0.0.5", 40001), ("10.0.0.6", 40002)],
         6: rng.choice([[("fd00::5", 40001, 0, 0), ("fd00::6", 40002, 0, 0)], [("fe80::53:1", 40000, 0, 2), ("fe80::53:1", 40000, 0, 3)],
                        [("fe80::53:1", 40000, 7, 3), ("fe80::53:1", 40000, 0, 3)]])}

    def pay(tag):
        r = rng.random()
        return hx(b"" if r < 0.15 else b"x" if r < 0.3 else tag)
    D = {4: [("192.0.2.7", 53), ("8.8.8.8", 4500), ("1.2.3.4", 13568)], 6: [("2001:db8::53", 53), ("fd00::9", 4500)]}
    evs = []
    n = 0
    for fam in fams:
        if dns:
            for src in A[fam][:rng.randint(1, 2)]:
                evs.append(["dns", fam, list(src), list(rng.choice(D[fam])[:1]) + [53] if method == "T" else None, pay(b"query-%d" % n)])
                n += 1
        if udp:
            src = rng.choice(A[fam])
            for d in rng.sample(D[fam], 2):
                evs.append(["udp", fam, list(src), list(d), pay(b"dgram,%d" % n)])
                n += 1
        evs.append(["tcp", fam, list(A[fam][0][:2]) if fam == 4 else list(A[fam][0]), list(rng.choice(D[fam]))])
    rng.shuffle(evs)
    # every query / datagram is answered, in random order, after it was sent
    out, pending = [], []
    for ev in evs:
        out.append(ev)
        if ev[0] in ("dns", "udp"):
            pending.append(len(out) - 1)
        while pending and rng.random() < 0.4:
            k = pending.pop(rng.randrange(len(pending)))
            out.append(["reply", k, pay(b"answer-to-%d" % k)])
    for k in pending:
        out.append(["reply", k, pay(b"answer-to-%d" % k)])
    return {"method": method, "udp": udp, "dns": dns, "v6": v6, "v4": v4, "events": out}


def run_main_cases(ctx, prop):
    rng, quick = ctx.rng, ctx.quick()
    shapes = [("T", True, True, True, True), ("B", False, True, True, True), ("T", True, False, True, True),
              ("T", False, True, True, True), ("B", False, False, True, True), ("T", False, False, True, True),
              ("T", True, True, False, True), ("T", True, True, True, False), ("B", False, True, False, True),
              ("B", False, True, True, False)]
    cases = [gen_main_case(rng, *sh) for sh in shapes for _ in range(3 if quick else 40)]
    for case in cases:
        res = run_client_main(case)
        ctx.count("main_runs")
        ctx.count("main_runs_method_%s_udp_%s_dns_%s" % (case["method"], "on" if case["udp"] else "off", "on" if case["dns"] else "off"))
        ctx.count("main_runs_sockets_%s" % ("v6+v4" if case["v6"] and case["v4"] else "v6" if case["v6"] else "v4"))
        for ev in case["events"]:
            ctx.count("main_events_%s%s" % (ev[0], "_v%d" % ev[1] if ev[0] != "reply" else ""))
        ctx.case(("main", json_key(case)), nontrivial=len(res["events"]) > 1,
                 sample={"side": "client._main", "method": case["method"], "udp_listener": case["udp"], "dns_listener": case["dns"],
                         "events": len(case["events"]), "status": res["status"], "registered": res["reg"]})
        for what, detail in main_oracle(prop, case, res):
            ctx.violation(what, {"main_case": case, "detail": detail, "oracle": "client-main"})


def json_key(case):
    import json as _json
    return _json.dumps(case, sort_keys=True)


def replay_main(prop, rp):
    case = rp["replay"]["main_case"]
    res = run_client_main(case)
    v = main_oracle(prop, case, res)
    print("client._main ->", res["status"], res["reg"], v)
    return bool(v)


# ======================================================================
# C10: "otherwise a system name server of the remote host" while the remote host's /etc/resolv.conf CHANGES during the
# life of one server process (DHCP renewal, VPN up/down, an admin's edit, the file absent or empty for a while).
# The real server.main / DnsProxy.try_send / helpers.get_random_nameserver / helpers.resolvconf_nameservers run; only
# the file boundary (`open` as the helpers module sees it) is scripted.  Oracle, from the property text alone: every
# attempt (connect on a resolver socket) goes to port 53 of a server that the file lists AT THAT MOMENT (127.0.0.1
# when it lists none, helpers.get_random_nameserver's documented fallback); with a configured resolver (--to-ns)
# every attempt goes to that resolver whatever the file says.

class ResolvFile:
    """the remote host's /etc/resolv.conf over one server process.  text None = the file does not exist.
    rewrites: ["i", n, text] = rewritten just before iteration n of the main loop; ["a", n, text] = rewritten right after
    the n-th attempt (0-based, counted over the whole process) was made, i.e. before a retry / the next query reads it."""

    def __init__(self, init, rewrites, shuffle_seed=0):
        self.text = init
        self.rewrites = [list(r) for r in rewrites]
        self.shuffle_seed = shuffle_seed
        self.attempts = 0
        self.reads = 0
        self.seen = []

    def _set(self, text):
        if text != self.text:
            self.seen.append(self.text)
            self.text = text

    def at_iteration(self, i):
        for k, n, t in self.rewrites:
            if k == "i" and n == i:
                self._set(t)

    def after_attempt(self):
        for k, n, t in self.rewrites:
            if k == "a" and n == self.attempts:
                self._set(t)
        self.attempts += 1

    def open(self, path, *a, **kw):
        if path == "/etc/resolv.conf":
            self.reads += 1
            if self.text is None:
                raise FileNotFoundError(2, "No such file or directory", path)
            return real_io.StringIO(self.text)
        if str(path).endswith("resolv.conf"):
            raise FileNotFoundError(2, "No such file or directory", path)     # no systemd-resolved on the scripted host
        return open(path, *a, **kw)

    def ser(self):
        return {"init": self.text if not self.seen else self.seen[0], "rewrites": self.rewrites, "shuffle_seed": self.shuffle_seed}


def spec_nameservers(text):
    """resolv.conf(5): the addresses of the `nameserver` lines, in file order (keyword matched without regard to case, any
    blanks between the words, further words on the line ignored; a line starting with # or ; is a comment)"""
    out = []
    for line in (text or "").split("\n"):
        w = line.lower().split()
        if len(w) >= 2 and w[0] == "nameserver":
            out.append(w[1])
    return out


def resolv_oracle(to_ns, evs, steps, trace):
    bad = []
    for a in trace:
        ip, port = a["target"][0], a["target"][1]
        where = "iteration %d, attempt #%d of this server process" % (a["step"], a["attempt"])
        if to_ns:
            if (ip, port) != (to_ns[0], to_ns[1] or 53):
                bad.append(("c10_target_configured: a resolver is configured (--to-ns) but a DNS attempt was sent elsewhere",
                            "%s: sent to %s port %d, configured resolver is %s port %d" % (where, ip, port, to_ns[0], to_ns[1] or 53)))
            continue
        cur = spec_nameservers(a["text"])
        now_s = ("lists %s" % ", ".join(cur)) if cur else \
            ("does not exist, so only 127.0.0.1 qualifies" if a["text"] is None else "lists no name server, so only 127.0.0.1 qualifies")
        if port != 53:
            bad.append(("c10_target_port: a DNS attempt to a system name server was not sent to port 53",
                        "%s: sent to %s port %d" % (where, ip, port)))
        if str(ip).lower() in (cur or ["127.0.0.1"]):
            continue
        old = [t for t in a["seen"] if str(ip).lower() in (spec_nameservers(t) or ["127.0.0.1"])]
        if old:
            bad.append(("c10_target_stale: a DNS attempt was sent to an address that is not a name server of the remote host at that "
                        "moment: /etc/resolv.conf named it (or, being empty, implied 127.0.0.1) at an earlier attempt of the same "
                        "server process, but the file has been rewritten since and the attempt ignored its current contents",
                        "%s: DNS attempt sent to %s port %d which is not a name server of the remote host at that moment "
                        "(resolv.conf now %s; it named %s %d rewrite(s) ago; the file had been opened %d time(s) for %d attempt(s))"
                        % (where, ip, port, now_s, ip, len(a["seen"]) - a["seen"].index(old[-1]), a["reads"], a["attempt"] + 1)))
        else:
            bad.append(("c10_target_not_a_system_name_server: a DNS attempt was sent to an address that /etc/resolv.conf of the remote "
                        "host does not name at that moment (nor did it earlier)",
                        "%s: DNS attempt sent to %s port %d; resolv.conf now %s" % (where, ip, port, now_s)))
    # every query of these (well-formed) histories is attempted at least once, in the iteration that receives it
    for i, (ev, st) in enumerate(zip(evs, steps)):
        nq = sum(1 for f in ev[1] if f[1] == "Q")
        na = sum(1 for a in trace if a["step"] == i)
        if st.startswith("OK ") and na < nq:
            bad.append(("c10_query_not_forwarded: a captured DNS query was not sent to any resolver",
                        "iteration %d: %d queries, %d attempts" % (i, nq, na)))
    return bad


RESOLV_JUNK = ["# nameserver 10.66.66.1", ";nameserver 10.66.66.2", "nameserver", "nameserver\t ", "search example.com corp.example",
               "options ndots:2 timeout:1", "domain example.net", "", "#nameserver 10.66.66.3", "nameservers 10.66.66.4",
               "name server 10.66.66.5", "sortlist 10.66.66.6/255.255.255.0", "  # generated by NetworkManager", "nameserver# 10.66.66.7"]
RESOLV_POOL = ["192.0.2.1", "198.51.100.7", "10.9.9.9", "10.0.0.1", "172.16.5.53", "203.0.113.200",
               "2001:db8::53", "fd00:9::1", "fe80::1", "2001:DB8:0:1::A", "::1", "127.0.0.53"]


def resolv_text(rng, servers, plain=False):
    """a resolv.conf naming exactly `servers` (None -> file absent), dressed with comments / malformed lines"""
    if servers is None:
        return None
    lines = []
    for s in servers:
        if plain:
            lines.append("nameserver %s" % s)
            continue
        kw = rng.choice(["nameserver", "nameserver", "NameServer", "NAMESERVER"])
        sep = rng.choice([" ", " ", "\t", "   "])
        tail = rng.choice(["", "", "", " # primary", " 10.66.66.8", "\t; old"])
        lines.append(rng.choice(["", "", " ", "\t"]) + kw + sep + s + tail)
    if not plain:
        for _ in range(rng.randint(0, 4)):
            lines.insert(rng.randint(0, len(lines)), rng.choice(RESOLV_JUNK))
    nl = "\n" if plain or rng.random() < 0.85 else "\r\n"
    return nl.join(lines) + (nl if lines and rng.random() < 0.9 else "")


def _attempt_io(rng, p_ok=0.6, other_ok=True):
    """environment's answers for one try_send: returns (io items, number of attempts made, sockets kept)"""
    io, n, kept = [], 0, []
    for _ in range(3):
        n += 1
        r = rng.random()
        if r < p_ok:
            io += [("k",), ("k",)]
            kept.append(n - 1)
            break
        net = r < 0.93 or not other_ok
        bad = ("e", rng.choice(NET_ERRS if net else OTHER_ERRS))
        io += [bad] if rng.random() < 0.5 else [("k",), bad]
        if not net:
            break
    return io, n, kept


def gen_resolv_history(rng, quick):
    """one server process: queries (with retries on network errors, replies, receive errors) while resolv.conf is rewritten
    between iterations and between the attempts of one query"""
    to_ns = (rng.choice(RESOLV_POOL), rng.choice([53, 0, 5353])) if rng.random() < 0.15 else None

    def new_set(prev):
        r = rng.random()
        if r < 0.12:
            return []
        if r < 0.17:
            return None
        pool = [x for x in RESOLV_POOL if x.lower() not in [p.lower() for p in (prev or [])]] if rng.random() < 0.85 else RESOLV_POOL
        return rng.sample(pool, rng.choice([1, 1, 1, 2, 3]))
    cur = new_set(None)
    init = resolv_text(rng, cur)
    rewrites, evs = [], []
    now = rng.choice([0, 100, 1000000])
    attempts = 0
    live = []                     # (sock id, channel) of attempts that were sent: a reply / receive error may come
    tries = {}
    ch = 0
    for i in range(rng.randint(2, 5 if quick else 9)):
        now += rng.choice([0, 1, 1, 2, 5])
        if i and rng.random() < 0.6:
            cur = new_set(cur)
            rewrites.append(["i", i, resolv_text(rng, cur)])
        frames, io, ready = [], [], []
        for _ in range(rng.choice([0, 1, 1, 1, 2])):
            ch += 1
            frames.append((ch, "Q", rand_payload(rng, False), 0))
            aio, n, kept = _attempt_io(rng)
            for j in range(n - 1):              # the file may change between the attempts of this one query
                if rng.random() < 0.6:
                    cur = new_set(cur)
                    rewrites.append(["a", attempts + j, resolv_text(rng, cur)])
            io += aio
            tries[ch] = n
            live += [(attempts + k, ch) for k in kept]
            attempts += n
        if live and rng.random() < 0.5:
            sid, c = live.pop(rng.randrange(len(live)))
            ready = [sid]
            if rng.random() < 0.5 or tries[c] >= 3:
                io.append(("d", rand_payload(rng, False)))
            else:                                # receive error -> DnsProxy.callback retries through try_send
                io.append(("e", rng.choice(NET_ERRS)))
                left = 3 - tries[c]
                aio, n, kept = _attempt_io(rng, 0.7, False)
                n = min(n, left)
                io += aio
                tries[c] += n
                live += [(attempts + k, c) for k in kept if k < n]
                attempts += n
        evs.append((now, frames, ready, io))
    return to_ns, ResolvFile(init, rewrites, rng.randrange(1 << 30)), evs


def handmade_resolv_histories():
    E = errno
    A, B, C6 = "nameserver 192.0.2.1\n", "nameserver 198.51.100.7\n", "# vpn up\nnameserver 2001:db8::53\nnameserver fd00:9::1\n"
    q = lambda ch, d=b"q": (ch, "Q", d, 0)
    H = []
    # rewritten between two queries
    H.append((None, A, [["i", 1, B]], [(10, [q(1)], [], []), (11, [q(2, b"q2")], [], []), (12, [], [0, 1], [("d", b"r1"), ("d", b"r2")])]))
    # rewritten between attempt 1 and attempt 2 of ONE query (connect refused; send refused)
    H.append((None, A, [["a", 0, B]], [(10, [q(1)], [], [("e", E.ECONNREFUSED), ("k",), ("k",)])]))
    H.append((None, A, [["a", 0, B], ["a", 1, C6]], [(10, [q(1)], [], [("k",), ("e", E.ENETUNREACH), ("e", E.EHOSTUNREACH), ("k",), ("k",)])]))
    # rewritten while a query waits; its receive error makes the server retry
    H.append((None, A, [["i", 1, C6]], [(10, [q(1)], [], []), (12, [], [0], [("e", E.ECONNREFUSED), ("k",), ("k",)]), (13, [], [1], [("d", b"ans")])]))
    # the list becomes empty / the file disappears: 127.0.0.1 from then on; and the other way round
    H.append((None, A, [["i", 1, "# nothing\nsearch example.com\n"]], [(10, [q(1)], [], []), (11, [q(2)], [], [])]))
    H.append((None, A, [["i", 1, None]], [(10, [q(1)], [], []), (11, [q(2)], [], [])]))
    H.append((None, "", [["i", 1, C6]], [(10, [q(1)], [], []), (11, [q(2)], [], []), (12, [q(3)], [], [])]))
    H.append((None, None, [["i", 1, A], ["i", 2, ""]], [(10, [q(1)], [], []), (11, [q(2)], [], []), (12, [q(3)], [], [])]))
    H.append((None, "", [["a", 0, B]], [(10, [q(1)], [], [("e", E.ECONNREFUSED)])]))
    # comment / malformed lines next to accepted spellings; IPv4 -> IPv6
    odd = "# nameserver 10.66.66.1\n;nameserver 10.66.66.2\nnameserver\nnameservers 10.66.66.4\n\tNameServer\t10.9.9.9 10.66.66.8 # two words\n" \
          "search a.example\nNAMESERVER 2001:DB8:0:1::A\r\noptions ndots:1"
    H.append((None, A, [["i", 1, odd], ["i", 3, A]], [(10, [q(1)], [], []), (11, [q(2)], [], []), (12, [q(3)], [], []), (13, [q(4)], [], [])]))
    # configured resolver: the file is irrelevant, however it changes
    H.append((("10.0.0.53", 0), A, [["i", 1, B], ["a", 1, None]], [(10, [q(1)], [], []), (11, [q(2)], [], [("e", E.ETIMEDOUT), ("k",), ("k",)])]))
    return [(t, ResolvFile(init, rw, 7), evs) for t, init, rw, evs in H]


def run_resolv_history(to_ns, rf, evs):
    fresh = ResolvFile(rf.ser()["init"], rf.rewrites, rf.shuffle_seed)
    trace, ops = [], []
    steps = run_server(to_ns, [], evs, resolv=fresh, trace=trace, ops=ops)
    return steps, trace, ops


def resolv_verdict(prop, to_ns, evs, steps, trace, ops=()):
    targets = sorted(set(str(a["target"][0]) for a in trace)) or ["127.0.0.1"]
    other = [(w, d) for w, d in oracle_server(prop, to_ns, [] if to_ns else targets, evs, steps) if w != "c10_target" or "attempts" in d]
    return resolv_oracle(to_ns, evs, steps, trace) + other + attempt_oracle(ops)[0]


def run_c10_resolv(ctx):
    rng, quick = ctx.rng, ctx.quick()
    cases = [(t, rf, evs, "handmade") for t, rf, evs in handmade_resolv_histories()]
    for _ in range(150 if quick else 3000):
        cases.append(gen_resolv_history(rng, quick) + ("random",))
    for to_ns, rf, evs, kind in cases:
        steps, trace, ops = run_resolv_history(to_ns, rf, evs)
        viol = resolv_verdict("C10", to_ns, evs, steps, trace, ops)
        ctx.count("resolvconf_histories_%s" % kind)
        ctx.count("resolvconf_attempts", len(trace))
        ctx.count("resolvconf_attempts_after_a_rewrite", sum(1 for a in trace if a["seen"]))
        ctx.count("resolvconf_retries_after_a_rewrite_within_one_query",
                  sum(1 for a, b in zip(trace, trace[1:]) if not a["ok"] and a["step"] == b["step"] and a["text"] != b["text"]))
        ctx.count("resolvconf_attempts_with_empty_or_absent_file", sum(1 for a in trace if not spec_nameservers(a["text"])))
        ctx.count("resolvconf_attempts_ipv6", sum(1 for a in trace if ":" in str(a["target"][0])))
        if to_ns:
            ctx.count("resolvconf_histories_with_configured_resolver")
        ctx.count("resolvconf_end_" + (steps[-1].split(" ")[0] if steps and not steps[-1].startswith("OK") else "OK"))
        ser = {"oracle": "resolv-conf", "to_ns": list(to_ns) if to_ns else None, "resolv": rf.ser(),
               "events": ser_server(to_ns, [], evs)["events"]}
        ctx.case(("resolv", json_key(ser)), nontrivial=len(trace) > 0,
                 sample={"side": "server+resolv.conf", "to_ns": to_ns, "rewrites": len(rf.rewrites), "attempts": len(trace)})
        for what, detail in viol:
            ctx.violation(what, dict(ser, detail=detail))


def replay_c10_resolv(prop, rp):
    r = rp["replay"]
    to_ns, _, evs = des_server({"to_ns": r["to_ns"], "sysns": [], "events": r["events"]})
    rf = ResolvFile(r["resolv"]["init"], r["resolv"]["rewrites"], r["resolv"].get("shuffle_seed", 0))
    steps, trace, ops = run_resolv_history(to_ns, rf, evs)
    v = resolv_verdict(prop, to_ns, evs, steps, trace, ops)
    for a in trace:
        print("  iteration %d attempt #%d -> %s port %s   (resolv.conf names %s; opened %d times so far)"
              % (a["step"], a["attempt"], a["target"][0], a["target"][1], spec_nameservers(a["text"]) or "nothing", a["reads"]))
    print("resolv.conf history ->", steps[-1][:120] if steps else "", [d for w, d in v])
    return bool(v)
