"""C05 — the server is asked to reach the address and port the application dialled.

Correspondence: the real sshuttle.methods.original_dst, tproxy.recv_udp / get_tcp_dstip,
pf.Method.get_tcp_dstip + firewall.main + pf.Method.firewall_command + pf.query_nat,
client.onaccept_tcp / onaccept_udp and the new_channel / udp_req closures of server.main
are run on fake sockets whose getsockopt / recvmsg / getsockname return the MODEL's
kernel-layout bytes; the extracted Coq model (coq/Model/Addr.v) is run on the same cases.
Thorough tier: the modelled layouts are compared with what a real kernel returns in a
network namespace (REDIRECT + SO_ORIGINAL_DST v4/v6, TPROXY + IP(V6)_ORIGDSTADDR)."""
import io
import ipaddress
import json
import os
import socket
import struct
import subprocess
import sys

sys.path.insert(0, os.path.dirname(os.path.abspath(__file__)))
import dgram_common as dc  # noqa: E402

PROP = "C05"
RULE = ("addresses x ports x recovery mechanism: IPv4/IPv6 destinations = all-zero, all-ones, every single bit, byte palindromes, "
        "every zero-group mask of the 8 IPv6 groups (256 masks) with random non-zero fill, IPv4-mapped/-compatible forms, random; "
        "ports with distinct swapped bytes, 0, 1, 255, 256, 65535, random; mechanisms: SO_ORIGINAL_DST (v4, v6), cmsg (v4, v6, both "
        "endiannesses), getsockname, pf query dialogue (success/failure/garbage); plus malformed streams (truncated layouts, errno, "
        "mutated text, random bytes); CONNECT messages as clients of every platform send them (family number 2 for IPv4, "
        "10/30/28/24/23/26 = AF_INET6 of Linux/macOS/FreeBSD/OpenBSD+NetBSD/Windows/Solaris for IPv6) through the real connect_dst and "
        "SockWrapper.try_connect onto a recording socket; a case is non-trivial when it reaches a decoder with a well-formed or near-miss input; "
        "distinct by content hash; PLUS datagram sequences (dgram_common.run_c05_dgram, oracle on the real code only): 1-3 sources "
        "each sending to 2-5 destinations (same host / other port incl. byte-swapped twins 53/13568, 0x1234/0x3412, ports 0, 1, 255, 256, "
        "65535; other host / same port; both families), interleaved, with idle gaps around 30 s, through the real onaccept_udp + "
        "tproxy.recv_udp on kernel-layout control messages and a real Mux: the 'ip,port,' header of EVERY UDP_DATA message must name the "
        "destination of THAT datagram; the same frames through the real server.main: every sendto goes there; the listener of all "
        "datagram cases answers recvmsg() as the kernel does (control message cut to the control buffer the code offers, MSG_CTRUNC: "
        "set for every IPv6 datagram because struct sockaddr_in6 is 28 bytes and recv_udp offers CMSG_SPACE(24); flow labels and "
        "scope ids in the kernel's sockaddr_in6); on every run the fake is compared with the running kernel (loopback sockets, "
        "IP(V6)_RECVORIGDSTADDR, control buffers of 0..128 bytes, one and several messages) and the real recv_udp is run on real "
        "loopback datagrams of both families; PLUS pf sessions (run_pf_sessions, oracle on the real code only): ONE real helper process "
        "(the real firewall.main loop, HOST handling, rewrite_etc_hosts on a scratch file, pf firewall_command, query_nat) on ONE "
        "socketpair as its stdin and stdout, driven by the real FirewallClient.start / sethostip, pf get_tcp_dstip and "
        "client.onaccept_tcp through histories of 6-14 items in random order - diverted flows (both families, destinations and "
        "ports of the lists above, no state in the kernel, the proxy's own socket), HOST lines (names reported again with the same "
        "and with another address), a blank or unknown line as the last line: after STARTED nothing but QUERY_PF_NAT_SUCCESS/FAILURE "
        "lines appears on the helper's standard output, exactly one per query, in order, each answering its query, and every "
        "flow's CONNECT names the destination THAT flow dialled")
TRUSTED_BASE = [
    "modelled, not verified: kernel layouts struct sockaddr_in / sockaddr_in6 and the IP_ORIGDSTADDR / IPV6_ORIGDSTADDR control messages "
    "(Model/Addr.v sockaddr_in, sockaddr_in6) - compared with a real Linux kernel in a namespace in the thorough tier",
    "modelled, not verified: CPython 3.12 struct ('!2xH4s', '!2xH4x16s', '=HH'), bytes %-formatting, int(), str/bytes split/strip/startswith, "
    "ipaddress.IPv4Address/IPv6Address.__str__ (3.12: no dotted tail for ::ffff:a.b.c.d; 3.13 prints one), glibc inet_ntop/inet_pton "
    "(dotted tail for ::a.b.c.d / ::ffff:a.b.c.d), socket.htons, BufferedReader/BytesIO.readline([limit]) - all differential-tested on every run",
    "modelled, not verified: Linux put_cmsg (Model/Addr.v put_cmsgs = dgram_common.kernel_recvmsg): a control message that does not fit is "
    "cut to the room left and MSG_CTRUNC is set - compared with the running kernel on every run (82 loopback probes), skipped with a "
    "note if the sandbox refuses the sockets",
    "big-endian hosts are simulated by replacing tproxy's struct '=' by '>' and htons by the identity (no such host available)",
    "the server's outgoing socket is a recording object whose connect() validates the address with a numeric getaddrinfo restricted to "
    "the socket's family (what CPython's connect does before the system call) and then reports EINPROGRESS",
    "pf: DIOCNATLOOK is replaced by a fake ioctl on the FreeBSD structure layout; BSD inet_ntop differs from glibc for ::0.0.x.y (not validated)",
    "pf sessions: the helper is a child process of the check (sys.executable -c) whose stdin and stdout are one socketpair as FirewallClient "
    "arranges it; in the child setup_daemon is replaced by `lambda: (sys.stdin.buffer, sys.stdout.buffer)` (what the real one returns, without "
    "the root check and signal set-up), Method.setup_firewall / restore_firewall / is_supported and flush_systemd_dns_cache are skipped, "
    "HOSTSFILE is a scratch file, DIOCNATLOOK is answered from a table source -> original destination; the client side is a FirewallClient "
    "made with object.__new__ (no sudo/Popen logic) whose pfile is the other end of the socketpair behind a recorder; accepted sockets and the "
    "mux are recording objects; client.islocal answers True for 127.0.0.1 / ::1 only",
]
ASSUMPTIONS = [
    "getsockname() of an accepted socket names a local address (so the pf failure fallback trips the self-address guard)",
    "ipfw / windivert recovery paths and scoped IPv6 addresses (%iface) are not modelled (ipfw.recv_udp is run on decoder-level control-message lists under an implementation-side oracle: level AND type identify the address item)",
    "PEP 515 underscores accepted by int() are not modelled (never produced by the printers)",
    "the helper's line reader is readline(limit) with limit regenerated from /repo (Gen/Consts.fw_readline_limit); the pf theorems "
    "hold for no limit or any limit >= 128 (c05_pf_reader_of_code re-checks this against the current code on every run)",
]

AF_INET, AF_INET6 = 2, 10
ENOPROTOOPT, EINVAL = 92, 22


def hx(b):
    if isinstance(b, str):
        b = b.encode("latin-1")
    return b.hex() if b else "-"


def unhx(s):
    return b"" if s == "-" else bytes.fromhex(s)


def pton(fam, text):
    """inet_pton that answers None instead of raising (oracle side)"""
    try:
        return socket.inet_pton(fam, text if isinstance(text, str) else text.decode("ascii"))
    except Exception:
        return None


def exc_name(e):
    import sshuttle.helpers as helpers
    if isinstance(e, helpers.Fatal):
        return "FATAL"
    if isinstance(e, struct.error):
        return "CRASH StructError"
    if isinstance(e, UnicodeDecodeError) or isinstance(e, UnicodeEncodeError):
        return "CRASH UnicodeDecodeError"
    if isinstance(e, ValueError):
        return "CRASH ValueError"
    if isinstance(e, UnboundLocalError):
        return "CRASH UnboundLocalError"
    if isinstance(e, OverflowError):
        return "CRASH OverflowError"
    if isinstance(e, TypeError):
        return "CRASH TypeError"
    if isinstance(e, OSError):
        return "CRASH OSError:%s" % (e.args[0] if e.args else "?")
    return "CRASH " + type(e).__name__


# --------------------------------------------------------------------------
# generators

def ports(rng, k):
    base = [0, 1, 255, 256, 258, 513, 0x1f90, 0x901f, 0x1234, 0x3412, 65280, 65534, 65535, 12300]
    return base + [rng.randrange(65536) for _ in range(k)]


def v4_addrs(rng, k):
    out = [bytes(4), b"\xff" * 4]
    out += [(1 << i).to_bytes(4, "big") for i in range(32)]
    out += [bytes([1, 2, 2, 1]), bytes([1, 2, 3, 4]), bytes([10, 1, 2, 3]), bytes([127, 0, 0, 1]),
            bytes([0, 0, 0, 1]), bytes([1, 0, 0, 0]), bytes([100, 10, 9, 99]), bytes([255, 0, 255, 0]),
            bytes([9, 10, 99, 100]), bytes([199, 200, 249, 250])]
    out += [bytes(rng.randrange(256) for _ in range(4)) for _ in range(k)]
    return out


def v6_of_groups(gs):
    return b"".join(struct.pack("!H", g) for g in gs)


def v6_addrs(rng, k, masks_fill=1):
    out = [bytes(16), b"\xff" * 16]
    out += [(1 << i).to_bytes(16, "big") for i in range(128)]
    # every zero-group mask, non-zero groups random (1..0xffff), incl. short and long hex
    for mask in range(256):
        for _ in range(masks_fill):
            gs = [0 if mask >> i & 1 else rng.choice([1, 0xf, 0x10, 0xff, 0x100, 0xfff, 0x1000, 0xffff, rng.randrange(1, 65536)])
                  for i in range(8)]
            out.append(v6_of_groups(gs))
    # mapped / compatible / near-misses for the dotted tail
    for tail in ([1, 2, 3, 4], [0, 0, 0, 1], [0, 0, 0, 0], [255, 255, 255, 255], [0, 1, 0, 0], [10, 0, 0, 200]):
        t = bytes(tail)
        out.append(bytes(10) + b"\xff\xff" + t)
        out.append(bytes(12) + t)
        out.append(bytes(10) + b"\xff\xfe" + t)
        out.append(bytes(8) + b"\x00\x01\xff\xff" + t)
        out.append(b"\x00\x01" + bytes(8) + b"\xff\xff" + t)
        out.append(bytes(10) + b"\x00\x01" + t)
    out += [socket.inet_pton(socket.AF_INET6, s) for s in
            ("2001:db8::1", "fe80::1", "::1", "1::", "1:0:0:2:0:0:0:3", "1:0:0:0:2:0:0:3", "0:0:1:0:0:1:0:0",
             "1:2:3:4:5:6:7:8", "0:2:3:4:5:6:7:0", "ff02::1:ff00:0", "a:b:c:d:e:f:0:0", "0:0:c:d:e:f:0:0")]
    out += [bytes(rng.randrange(256) for _ in range(16)) for _ in range(k)]
    # sparse random: many zero bytes
    out += [bytes(rng.choice([0, 0, 0, rng.randrange(256)]) for _ in range(16)) for _ in range(k)]
    return out


# --------------------------------------------------------------------------
# fakes

class FakeSock:
    def __init__(self, family, gso=None, sockname=None, peer=None):
        self.family = family
        self.gso = gso              # bytes or int errno
        self.sockname = sockname
        self.peer = peer            # tuple or int errno
        self.closed = False
        self.gso_calls = []

    def getsockopt(self, level, opt, buflen):
        self.gso_calls.append((level, opt, buflen))
        if isinstance(self.gso, int):
            raise OSError(self.gso, "fake")
        return self.gso[:buflen]

    def getsockname(self):
        return self.sockname

    def getpeername(self):
        if isinstance(self.peer, int):
            raise OSError(self.peer, "fake")
        return self.peer

    def close(self):
        self.closed = True

    def setsockopt(self, *a):
        pass


class FakeListener:
    """msg = (payload, control messages).  kernel=True: the control messages are what the KERNEL holds for the datagram
    (in full); recvmsg stores them into the control buffer the caller offers exactly as Linux put_cmsg does - cut to the
    room left, MSG_CTRUNC (dgram_common.kernel_recvmsg, compared with the running kernel on every run).  kernel=False:
    the list is handed over as it is with flags 0 (decoder-level cases only: lists no kernel produces for the buffer
    recv_udp offers - unrelated messages in front, arbitrary bytes)."""

    def __init__(self, family, sock=None, src=("192.0.2.9", 40000), msg=None, kernel=False):
        self.family = family
        self.sock = sock
        self.src = src
        self.msg = msg
        self.kernel = kernel
        self.anc_asked = None
        self.delivered = None

    def accept(self):
        return self.sock, self.src

    def recvmsg(self, bufsize, ancbufsize=0, flags=0):
        data, anc = self.msg
        self.anc_asked = ancbufsize
        if self.kernel:
            self.delivered = dc.kernel_recvmsg(data, anc, self.src, bufsize, ancbufsize)
        else:
            self.delivered = (data, anc, 0, self.src)
        return self.delivered


class FakeMux:
    def __init__(self, chan):
        self.chan = chan
        self.sent = []
        self.channels = {}

    def next_channel(self):
        return self.chan

    def send(self, chan, cmd, data):
        self.sent.append((chan, cmd, bytes(data)))


class Stub:
    def __init__(self, *a, **k):
        self.args = a
        self.ok = True


class World:
    """loads the real modules once and installs the simulated boundary"""

    def __init__(self):
        import sshuttle.helpers as helpers
        import sshuttle.methods as methods
        import sshuttle.methods.nat as nat
        import sshuttle.methods.tproxy as tproxy
        import sshuttle.methods.pf as pf
        import sshuttle.client as client
        import sshuttle.server as server
        import sshuttle.ssnet as ssnet
        import sshuttle.firewall as firewall
        self.helpers, self.methods, self.nat, self.tproxy, self.pf = helpers, methods, nat, tproxy, pf
        self.client, self.server, self.ssnet, self.firewall = client, server, ssnet, firewall
        helpers.verbose = 0
        # client boundary
        self.islocal_answer = False
        self.islocal_calls = []

        def islocal(ip, family):
            # the scripted answer is about the DESTINATION; asking about the peer's source address
            # (FakeListener.src) gets the opposite answer, so a guard that tests the wrong address shows
            self.islocal_calls.append((ip, family))
            if ip == "192.0.2.9":
                return not self.islocal_answer
            return self.islocal_answer
        client.islocal = islocal
        client.log = lambda s: None
        client.MuxWrapper = Stub
        client.SockWrapper = Stub
        client.Proxy = Stub
        # server boundary: run the real server.main up to its loop with a stub Mux to obtain the real closures
        self.connects = []
        self.udp_sends = []
        world = self

        class StubMux:
            ok = False

            def __init__(self, r, w):
                self.channels = {}
                world.smux = self

            def send(self, *a):
                pass

        # server.main binds `ssnet` as a LOCAL name (its `import sshuttle.ssnet as ssnet` under
        # `if latency_buffer_size:`), so the closures see the real module: patch connect_dst there
        self.real_connect_dst = ssnet.connect_dst

        def connect_dst(family, ip, port):
            world.connects.append((family, ip, port))
            return Stub()
        ssnet.connect_dst = connect_dst

        class UdpStub(Stub):
            def send(self, dst, data):
                world.udp_sends.append((dst, bytes(data)))

        class SysShim:
            platform = sys.platform

            class stdout:
                @staticmethod
                def write(s):
                    pass

                @staticmethod
                def flush():
                    pass

            @staticmethod
            def exit(n):
                raise SystemExit(n)

            @staticmethod
            def exc_info():
                return sys.exc_info()

        class IoShim:
            @staticmethod
            def FileIO(fd, mode="r"):
                return None
        server.Mux, server.UdpProxy = StubMux, UdpStub
        server.sys, server.io, server.Proxy, server.MuxWrapper = SysShim, IoShim, Stub, Stub
        server.main(False, 32768, False, None, False)
        # the closures keep referring to module globals (ssnet shim, stubs): leave them installed
        self.new_channel = self.smux.new_channel
        self.udp_open = self.smux.got_udp_open
        # methods
        self.m_nat = nat.Method("nat")
        self.m_tproxy = tproxy.Method("tproxy")
        self.m_pf = pf.Method("pf")
        self.m_pf.is_supported = lambda: True
        # helper boundary
        firewall.flush_systemd_dns_cache = lambda: None
        firewall.rewrite_etc_hosts = lambda *a: None
        firewall.restore_etc_hosts = lambda *a: None
        firewall.HOSTSFILE = "/nonexistent/verif-hosts"
        firewall.get_method = lambda name: self.m_pf
        self.nat_answer = None
        self.nat_queries = []

        def fake_ioctl(fd, req, buf):
            from ctypes import addressof
            pnl = pf.pf.pfioc_natlook.from_address(addressof(buf))
            ln = 4 if pnl.af == AF_INET else 16
            q = (pnl.af, pnl.proto, bytes(pnl.saddr.addr8[:ln]), socket.ntohs(pnl.sxport),
                 bytes(pnl.daddr.addr8[:ln]), socket.ntohs(pnl.dxport))
            self.nat_queries.append(q)
            ans = self.nat_answer
            if ans[0] == "S":
                raw = ans[1] if pnl.af == AF_INET else ans[2]     # the kernel answers in the query's family
                for i, b in enumerate(raw):
                    pnl.rdaddr.addr8[i] = b
                pnl.rdxport = socket.htons(ans[3])
                return 0
            raise IOError(ans[1])
        pf.ioctl = fake_ioctl
        pf.pf_get_dev = lambda: 7

    # ---- helper process: real firewall.main on a byte stream
    def run_helper(self, stdin_bytes):
        """returns (events, reply_text): events as the driver prints them"""
        pf, firewall = self.pf, self.firewall
        pre = b"ROUTES\nNSLIST\nPORTS 0,0,0,0\nGO 0 - - 0x01 4242\n"
        stdin = io.BytesIO(pre + stdin_bytes)
        stdout = io.BytesIO()
        firewall.setup_daemon = lambda: (stdin, stdout)
        out = io.StringIO()

        class SysShim:
            stdout = out
            platform = sys.platform

            @staticmethod
            def exc_info():
                return sys.exc_info()
        old_sys = pf.sys
        pf.sys = SysShim
        self.nat_queries = []
        end = "EOF"
        try:
            try:
                firewall.main("pf", False)
            except self.helpers.Fatal as e:
                end = "NOTCMD" if "expected command" in str(e) else "FATAL %s" % e
            except Exception as e:
                end = "CRASH:" + exc_name(e).split(" ", 1)[1]
        finally:
            pf.sys = old_sys
        return end, out.getvalue()


def helper_events(world, stdin_bytes, answer):
    """canonical event list of the real helper for this stdin"""
    world.nat_answer = answer
    end, text = world.run_helper(stdin_bytes)
    lines = text.split("\n")
    assert lines[-1] == ""
    lines = lines[:-1]
    ev = []
    qi = 0
    for ln in lines:
        raw = (ln + "\n").encode("latin-1")
        # a reply produced by a look-up that reached the kernel carries that query
        reached = not (ln.startswith("QUERY_PF_NAT_FAILURE illegal IP") or ln.startswith("QUERY_PF_NAT_FAILURE [Errno 97]"))
        if reached and qi < len(world.nat_queries):
            q = world.nat_queries[qi]
            qi += 1
            qs = "%d,%d,%s,%d,%s,%d" % (q[0], q[1], hx(q[2]), q[3], hx(q[4]), q[5])
        else:
            qs = "-"
        ev.append("R:%s:%s" % (qs, hx(raw)))
    ev.append(end)
    return ";".join(ev)


def ans_str(a):
    return "S:%s:%s:%d" % (hx(a[1]), hx(a[2]), a[3]) if a[0] == "S" else "F:%s" % hx(a[1].encode())


class PFile:
    """the client's end of the pipe to the helper: a request written is answered by the real helper"""

    def __init__(self, world, answer):
        self.world, self.answer = world, answer
        self.written = b""
        self.end = None

    def write(self, b):
        self.written += bytes(b)

    def flush(self):
        pass

    def readline(self):
        self.world.nat_answer = self.answer
        self.end, text = self.world.run_helper(self.written)
        self.written = b""
        return text.split("\n")[0].encode("latin-1") + b"\n" if text else b""


class FW:
    pass


def be_patch(tproxy):
    """simulate a big-endian host at tproxy's boundary"""
    class StructShim:
        @staticmethod
        def unpack(fmt, data):
            return struct.unpack(fmt.replace("=", ">"), data)

    class SocketShim:
        def __getattr__(self, name):
            return getattr(socket, name)

        @staticmethod
        def htons(x):
            if not 0 <= x <= 65535:
                raise OverflowError
            return x
    old = (tproxy.struct, tproxy.socket)
    tproxy.struct, tproxy.socket = StructShim, SocketShim()
    return old


def conn_str(c):
    fam, ip, port = c
    return "%s %s %d" % ("4" if fam == socket.AF_INET else "6", hx(ip), port)


def run_accept(world, method, sock, chan, islocal):
    """real client.onaccept_tcp; returns (kind, chan, payload)"""
    world.islocal_answer = islocal
    mux = FakeMux(chan)
    world.client.onaccept_tcp(FakeListener(sock.family, sock), method, mux, [])
    if mux.sent:
        (c, cmd, data), = mux.sent
        assert cmd == world.ssnet.CMD_TCP_CONNECT
        return "CONNECT %d %s" % (c, hx(data)), data
    if sock.closed:
        return ("DROP" if chan else "DROP_OR_NOCHAN"), None
    return "NOTHING", None


def run_new_channel(world, data):
    world.connects[:] = []
    try:
        world.new_channel(5, data)
    except Exception as e:
        return exc_name(e)
    (c,) = world.connects
    return "OK " + conn_str(c)


# AF_INET is 2 on every platform; the number a CLIENT puts on the wire for IPv6 is its own platform's AF_INET6
AF_INET6_ON_THE_WIRE = [("linux", 10), ("macos", 30), ("freebsd", 28), ("openbsd-netbsd", 24), ("windows", 23), ("solaris", 26)]


class OutSock:
    """stands for the socket the server creates for the outgoing connection: records the family it was created
    with and the connect() call; validates the address the way CPython/libc do for a socket of that family
    (numeric getaddrinfo restricted to the socket's family - no name service, no network), then reports EINPROGRESS"""

    def __init__(self, log, family, *a):
        self.log, self.family = log, family
        log["sockets"].append(int(family))

    def setblocking(self, flag):
        pass

    def fileno(self):
        return 77

    def setsockopt(self, *a):
        pass

    def getsockopt(self, *a):
        return 0

    def connect(self, addr):
        ip, port = addr[0], addr[1]
        res = socket.getaddrinfo(ip, port, self.family, socket.SOCK_STREAM, 0, socket.AI_NUMERICHOST | socket.AI_NUMERICSERV)
        sa = res[0][4]
        self.log["connects"].append([int(self.family), ip, port, hx(socket.inet_pton(res[0][0], sa[0].split("%")[0]))])
        raise OSError(115, "Operation now in progress")

    def close(self):
        pass

    def shutdown(self, how):
        pass


def observe_connect(world, data):
    """real server new_channel -> real ssnet.connect_dst -> real SockWrapper.try_connect on an OutSock.
    Returns {"exception": name or None, "sockets": [family...], "connects": [[family, ip, port, resolved-address-hex]...]}"""
    ssnet = world.ssnet
    log = {"exception": None, "sockets": [], "connects": []}

    class SocketShim:
        def __getattr__(self, name):
            return getattr(socket, name)

        @staticmethod
        def socket(family=-1, *a, **k):
            return OutSock(log, family)
    stub, old_socket = ssnet.connect_dst, ssnet.socket
    ssnet.connect_dst, ssnet.socket = world.real_connect_dst, SocketShim()
    try:
        try:
            world.new_channel(6, data)
        except Exception as e:
            log["exception"] = "%s: %s" % (type(e).__name__, e)
    finally:
        ssnet.connect_dst, ssnet.socket = stub, old_socket
    return log


def connect_failures(log, is_v6, text, port, packed):
    """the property on what the server did for one CONNECT: one socket of the family of the dialled address, one
    connect() to exactly the dialled text and port, which a socket of that family resolves to the dialled address"""
    want_fam = int(socket.AF_INET6 if is_v6 else socket.AF_INET)
    if log["exception"]:
        return ["the server dies on the CONNECT message of a client whose platform numbers the address family differently"
                if log["sockets"] and log["sockets"] != [want_fam] else
                "the server dies on a well-formed CONNECT message"]
    if log["sockets"] != [want_fam]:
        return ["the server opens a socket of the wrong address family for the dialled destination"]
    if len(log["connects"]) != 1 or log["connects"][0][:3] != [want_fam, text, port] or log["connects"][0][3] != hx(packed):
        return ["the server connects to something else than the dialled address and port"]
    return []


def run_udp_req(world, data):
    world.udp_sends[:] = []
    world.smux.channels.clear()
    # the closure's udphandlers dict persists across calls: use a fresh channel each time
    world._udp_chan = getattr(world, "_udp_chan", 100) + 1
    chan = world._udp_chan
    world.udp_open(chan, b"2")
    try:
        world.smux.channels[chan](world.ssnet.CMD_UDP_DATA, data)
    except Exception as e:
        return exc_name(e)
    ((dst, payload),) = world.udp_sends
    return "OK %s %d %s" % (hx(dst[0]), dst[1], hx(payload))


def batch(ctx, what, lines, impls, descs, nontrivial=None, sample_every=0, oracle=None):
    outs = ctx.run_driver(lines)
    for i, (ln, im, o, d) in enumerate(zip(lines, impls, outs, descs)):
        nt = True if nontrivial is None else nontrivial[i]
        smp = {"kind": what, "input": ln[:160], "result": im[:120]} if sample_every and i % sample_every == 1 else None
        ctx.case((what, d), nontrivial=nt, sample=smp)
        if im != o:
            holds = oracle(i) if oracle else None
            ctx.disagree(what, ln[:600], im[:600], o[:600], holds)
    return outs


# --------------------------------------------------------------------------
# pf sessions: ONE real helper process (the real firewall.main loop) on ONE control channel, serving everything that loop
# serves - HOST lines (names reported again, with the same or another address), QUERY_PF_NAT lines, and (as the last line
# of a session) a blank or an unknown line - while the real client side (FirewallClient.start / sethostip,
# pf.Method.get_tcp_dstip, client.onaccept_tcp) reads the replies from that same channel.
#
# Oracle (from the property text: "the destination the client sends to the server equals the address and port the
# application originally addressed ... pf state query through the helper ... replies of the pf query dialogue
# success/failure"): the helper's standard output IS the reply channel of the dialogue, so after STARTED nothing but
# QUERY_PF_NAT_SUCCESS / QUERY_PF_NAT_FAILURE lines may ever appear on it, exactly one per query and in the order of the
# queries, each answering ITS query; and for every flow of the history the CONNECT request on the mux names the
# destination that flow dialled (no state in the kernel / the proxy's own listening socket: dropped, nothing sent).

PF_HELPER_SCRIPT = r'''
import ctypes, errno, json, os, socket, sys
sys.path.insert(0, os.environ["C05_TREE"])
import sshuttle.firewall as fw
import sshuttle.helpers as helpers
import sshuttle.methods.pf as pfmod
table = dict(((f, s, p), (d, q)) for f, s, p, d, q in json.loads(os.environ["C05_NAT_TABLE"]))
# boundary: no root check / signal set-up (C04 runs the real setup_daemon), the same stream objects it returns;
# rule loading and the resolver-cache flush are skipped; /etc/hosts is a scratch file; DIOCNATLOOK is answered from a
# table "source address, source port -> destination before translation" as the kernel's state table would
fw.setup_daemon = lambda: (sys.stdin.buffer, sys.stdout.buffer)
fw.flush_systemd_dns_cache = lambda: None
fw.HOSTSFILE = os.environ["C05_HOSTS"]
pfmod.Method.is_supported = lambda self: True
pfmod.Method.setup_firewall = lambda self, *a: None
pfmod.Method.restore_firewall = lambda self, *a: None
pfmod.pf_get_dev = lambda: 7


def natlook(fd, request, buf):
    pnl = pfmod.pf.pfioc_natlook.from_address(ctypes.addressof(buf))
    n = 4 if pnl.af == socket.AF_INET else 16
    src = bytes(bytearray(pnl.saddr.addr8[:n])).hex()
    key = (pnl.af, src, socket.ntohs(pnl.sxport))
    if request != pfmod.pf.DIOCNATLOOK or key not in table:
        raise IOError(errno.ENOENT, os.strerror(errno.ENOENT))
    dst, dport = table[key]
    raw = bytes.fromhex(dst)
    ctypes.memmove(ctypes.addressof(pnl.rdaddr), raw, len(raw))
    pnl.rdxport = socket.htons(dport)
    return 0


pfmod.ioctl = natlook
try:
    fw.main("pf", False)
except helpers.Fatal as e:
    sys.stderr.write("helper ended: Fatal: %s\n" % (e,))
    sys.stdout.flush()
    sys.exit(3)
'''

PF_OK = (b"QUERY_PF_NAT_SUCCESS ", b"QUERY_PF_NAT_FAILURE ")


class RecPFile:
    """the client's end of the control channel (FirewallClient.pfile): passes everything through, keeps what was read"""

    def __init__(self, f):
        self.f = f
        self.read = []
        self.timed_out = False

    def write(self, b):
        return self.f.write(b)

    def flush(self):
        return self.f.flush()

    def readline(self, *a):
        try:
            ln = self.f.readline(*a)
        except socket.timeout:
            self.timed_out = True
            ln = b""
        self.read.append(bytes(ln))
        return ln

    def close(self):
        self.f.close()


def pf_flow_text(it):
    return "%s port %d" % (it[4], it[5]) if it[4] is not None else "(no state in the kernel)"


def run_pf_session(world, history, proxy_port=12300, timeout=20):
    """history: list of ["F", family, source ip, source port, dialled ip or None (no state in the kernel), dialled port]
    | ["H", name, ipv4 text] | ["J", hex of a raw line written on the channel (session ends there)].
    Returns {"failures": [(kind, text)...], "trace": [...]}; failures empty = the property holds on this history."""
    import shutil
    import tempfile
    client, ssnet = world.client, world.ssnet
    fams = {AF_INET: socket.AF_INET, AF_INET6: socket.AF_INET6}
    lo = {AF_INET: "127.0.0.1", AF_INET6: "::1"}
    table = []
    for it in history:
        if it[0] == "F" and it[4] is not None:
            table.append([int(fams[it[1]]), socket.inet_pton(fams[it[1]], it[2]).hex(), it[3],
                          socket.inet_pton(fams[it[1]], it[4]).hex(), it[5]])
    scratch = tempfile.mkdtemp(prefix="c05pf-")
    failures, trace = [], []
    proc = s2 = None
    old_islocal = client.islocal
    client.islocal = lambda ip, family: ip in ("127.0.0.1", "::1")
    try:
        hosts = os.path.join(scratch, "hosts")
        with open(hosts, "w") as f:
            f.write("127.0.0.1 localhost\n")
        env = dict(os.environ)
        env["C05_TREE"] = os.path.dirname(os.path.dirname(os.path.abspath(world.firewall.__file__)))
        env["C05_HOSTS"] = hosts
        env["C05_NAT_TABLE"] = json.dumps(table)
        # the plumbing of FirewallClient.__init__: one bidirectional socket is the helper's stdin AND stdout
        s1, s2 = socket.socketpair()
        errlog = open(os.path.join(scratch, "stderr"), "w+")
        proc = subprocess.Popen([sys.executable, "-c", PF_HELPER_SCRIPT], stdin=s1, stdout=s1, stderr=errlog, env=env)
        s1.close()
        s2.settimeout(timeout)
        fc = object.__new__(client.FirewallClient)
        fc.auto_nets = []
        fc.p = proc
        fc.argv = ["<pf helper of the C05 check>"]
        fc.pfile = RecPFile(s2.makefile("rwb"))
        line = fc.pfile.readline()
        if line != b"READY pf\n":
            errlog.seek(0)
            raise RuntimeError("pf helper did not start: %r / %s" % (line, errlog.read()[-600:]))
        method = world.pf.Method("pf")
        method.set_firewall(fc)
        fc.method = method
        fc.setup([(socket.AF_INET, "0.0.0.0", 0, 0, 0), (socket.AF_INET6, "::", 0, 0, 0)], [], [],
                 proxy_port, proxy_port, 0, 0, False, None, None, "0x01")
        fc.start()                                  # ROUTES / NSLIST / PORTS / GO ... STARTED
        # client.py keeps its DNS / UDP tables in module globals: entries left by earlier parts of this check would be
        # expired against THIS session's multiplexer by onaccept_tcp's sweep once they are 30 s old (thorough tier)
        client.dnsreqs.clear()
        client.udp_by_src.clear()
        flows = []                                  # (item, reply line read, outcome)
        for n, it in enumerate(history):
            if it[0] == "H":
                fc.sethostip(it[1].encode("ascii"), it[2].encode("ascii"))
                trace.append("HOST %s,%s" % (it[1], it[2]))
            elif it[0] == "J":
                fc.pfile.write(unhx(it[1]))
                fc.pfile.flush()
                trace.append("line %r" % unhx(it[1]))
                break
            else:
                fam = it[1]
                tail = (0, 0) if fam == AF_INET6 else ()
                peer = (it[2], it[3]) + tail
                sock = FakeSock(fam, None, (lo[fam], proxy_port) + tail, peer)
                mux = FakeMux(1 + n)
                before = len(fc.pfile.read)
                try:
                    client.onaccept_tcp(FakeListener(fam, sock, src=peer), method, mux, [])
                    raised = None
                except Exception as e:
                    raised = "%s: %s" % (type(e).__name__, e)
                got = fc.pfile.read[before:]
                sent = [d.decode("latin-1") for (c, cmd, d) in mux.sent if cmd == ssnet.CMD_TCP_CONNECT]
                other = [cmd for (c, cmd, d) in mux.sent if cmd != ssnet.CMD_TCP_CONNECT]
                flows.append((n, it, got, sent, other, sock.closed, raised))
                trace.append("flow from %s port %d dialled %s: read %r, CONNECT %r%s%s"
                             % (it[2], it[3], pf_flow_text(it), got, sent, ", socket closed" if sock.closed else "",
                                ", raised " + raised if raised else ""))
                if fc.pfile.timed_out:
                    failures.append(("no-reply", "the pf helper did not answer a QUERY_PF_NAT within %d s" % timeout))
                    break
        # end of the session: close our sending side, collect whatever the helper still has for us
        rest = []
        if not fc.pfile.timed_out:
            try:
                fc.pfile.flush()
                s2.shutdown(socket.SHUT_WR)
                while True:
                    ln = fc.pfile.f.readline()
                    if not ln:
                        break
                    rest.append(bytes(ln))
            except (OSError, ValueError) as e:
                trace.append("draining the channel: %r" % (e,))
        try:
            proc.wait(timeout=10)
        except subprocess.TimeoutExpired:
            proc.kill()
            proc.wait()
        trace.append("helper exit status %r, left on the channel at the end: %r" % (proc.returncode, rest))
        # ---- oracle
        lines = [ln for (_, _, got, _, _, _, _) in flows for ln in got if ln] + rest
        stray = [ln for ln in lines if not ln.startswith(PF_OK) or not ln.endswith(b"\n")]
        wrong, lost, misdirected = [], [], False
        for (n, it, got, sent, other, closed, raised) in flows:
            fam = it[1]
            who = "step %d: the flow from %s port %d dialled %s" % (n + 1, it[2], it[3], pf_flow_text(it))
            dropped_ok = it[4] is None or (it[5] == proxy_port and it[4] == lo[fam])
            if raised:
                wrong.append("%s: the client raised %s" % (who, raised))
                continue
            # the reply this flow read must answer ITS query
            if len(got) != 1:
                wrong.append("%s read %d lines for one query" % (who, len(got)))
            elif it[4] is None:
                if not got[0].startswith(PF_OK[1]) and got[0] not in stray:
                    wrong.append("%s was answered %r" % (who, got[0]))
            elif got[0] not in stray:
                ok = False
                if got[0].startswith(PF_OK[0]) and got[0].endswith(b"\n"):
                    f2 = got[0][len(PF_OK[0]):-1].split(b",")
                    ok = (len(f2) == 2 and pton(fams[fam], f2[0].decode("latin-1")) == socket.inet_pton(fams[fam], it[4])
                          and f2[1] == b"%d" % it[5])
                if not ok:
                    wrong.append("%s was answered %r (the reply of another query)" % (who, got[0]))
            # what the server is asked to reach
            if dropped_ok:
                if sent or other:
                    wrong.append("%s but the server was asked to reach %s" % (who, ", ".join(sent) or other))
                    misdirected = True
                continue
            good = False
            if len(sent) == 1 and not other:
                f3 = sent[0].split(",")
                good = (len(f3) == 3 and f3[0] == "%d" % fam and pton(fams[fam], f3[1]) == socket.inet_pton(fams[fam], it[4])
                        and f3[2] == "%d" % it[5])
            if not good:
                if not sent:
                    lost.append("%s was %s, nothing was sent to the server"
                                % (who, "dropped (\"that's my address\")" if closed else "not forwarded"))
                else:
                    wrong.append("%s but the server was asked to reach %s" % (who, ", ".join(sent)))
                    misdirected = True
        nq = len(flows)
        if stray:
            failures.append(("stray-line", "the pf helper wrote a line that is neither STARTED nor a QUERY_PF_NAT reply on its "
                             "standard output, which is the reply channel of the QUERY_PF_NAT dialogue: %r" % stray[0]))
        if len(lines) != nq and not any(k == "no-reply" for k, _ in failures):
            failures.append(("reply-count", "%d queries were sent but %d lines came back on the reply channel (exactly one "
                             "reply per query is required)" % (nq, len(lines))))
        if wrong:
            failures.append(("wrong-destination" if misdirected else "wrong-reply",
                             "; ".join(wrong[:3]) + ("; and %d more" % (len(wrong) - 3) if len(wrong) > 3 else "")))
        if lost:
            failures.append(("dropped", "; ".join(lost[:2]) + ("; and %d more" % (len(lost) - 2) if len(lost) > 2 else "")))
    finally:
        client.islocal = old_islocal
        if proc is not None and proc.poll() is None:
            proc.kill()
            proc.wait()
        if s2 is not None:
            s2.close()
        shutil.rmtree(scratch, ignore_errors=True)
    return {"failures": failures, "trace": trace}


def pf_session_what(failures):
    order = {"stray-line": 0, "no-reply": 1, "wrong-destination": 2, "wrong-reply": 3, "dropped": 4, "reply-count": 5}
    fs = sorted(failures, key=lambda f: order.get(f[0], 9))
    return "pf session (real firewall.main helper and real client on one control channel): " + "; ".join(t for _, t in fs)


def gen_pf_history(rng, A4, A6, PORTS, proxy_port):
    names = ["db", "web-1", "a.b.example", "x_y"]
    ips = ["10.1.1.7", "10.1.1.8", "192.168.0.1", "0.0.0.0"]
    hist = []
    used = set()
    for _ in range(rng.randrange(6, 15)):
        k = rng.random()
        if k < 0.42:
            hist.append(["H", rng.choice(names[:3] if rng.random() < 0.8 else names), rng.choice(ips)])
            continue
        fam = rng.choice([AF_INET, AF_INET6])
        sfam = socket.AF_INET if fam == AF_INET else socket.AF_INET6
        while True:
            src = (socket.inet_ntop(sfam, rng.choice(A4[34:] if fam == AF_INET else A6[130:])), rng.randrange(1024, 65536))
            if src not in used and src[0] not in ("127.0.0.1", "::1"):
                used.add(src)
                break
        kind = rng.random()
        if kind < 0.08:
            dst = [None, 0]
        elif kind < 0.14:
            dst = ["127.0.0.1" if fam == AF_INET else "::1", proxy_port]
        else:
            a = rng.choice(A4 if fam == AF_INET else A6)
            dst = [socket.inet_ntop(sfam, a), rng.choice(PORTS)]
            if dst[0] in ("127.0.0.1", "::1") and dst[1] == proxy_port:
                dst[1] = proxy_port + 1
        hist.append(["F", fam, src[0], src[1], dst[0], dst[1]])
    if rng.random() < 0.25:
        hist.append(["J", hx(rng.choice([b"\n", b"   \n", b"NOSUCH command\n", b"QUERY_PF_NAT\n", b"HOSTS a,1.2.3.4\n", b"host a,1.2.3.4\n"]))])
    return hist


def shrink_pf_history(world, hist, proxy_port, kinds):
    """one greedy pass: drop every item whose removal keeps a failure of the same kinds"""
    cur = list(hist)
    i = len(cur) - 1
    budget = 40
    while i >= 0 and budget > 0:
        cand = cur[:i] + cur[i + 1:]
        budget -= 1
        try:
            res = run_pf_session(world, cand, proxy_port)
        except Exception:
            res = {"failures": []}
        if {k for k, _ in res["failures"]} >= kinds:
            cur = cand
        i -= 1
    return cur


def run_pf_sessions(ctx, world, A4, A6, PORTS):
    rng = ctx.rng
    proxy_port = 12300
    scripted = [
        # flow; a host is reported, and reported again with another address; three more flows (the last one IPv6, port 65535)
        [["F", AF_INET, "10.9.9.9", 40001, "10.1.1.1", 80], ["H", "db", "10.1.1.7"], ["H", "db", "10.1.1.8"],
         ["F", AF_INET, "10.9.9.9", 40002, "10.2.2.2", 443], ["F", AF_INET, "10.9.9.9", 40003, "10.3.3.3", 8080],
         ["F", AF_INET6, "fd00::9", 40004, "2001:db8:1:2:3:4:5:6", 65535]],
        # the same name with the same address again, another name, no state, the proxy's own socket, an unknown line at the end
        [["H", "db", "10.1.1.7"], ["F", AF_INET6, "fd00::9", 1024, "::ffff:1.2.3.4", 0x3412], ["H", "db", "10.1.1.7"],
         ["H", "web-1", "10.1.1.7"], ["F", AF_INET, "10.9.9.9", 40002, None, 0], ["F", AF_INET, "10.9.9.8", 40002, "127.0.0.1", proxy_port],
         ["F", AF_INET, "10.9.9.8", 40003, "127.0.0.1", proxy_port + 1], ["H", "web-1", "0.0.0.0"],
         ["F", AF_INET6, "fd00::a", 65535, "::1", 0x1234], ["J", hx(b"NOSUCH command\n")]],
    ]
    n_random = 24 if ctx.quick() else 300
    hists = scripted + [gen_pf_history(rng, A4, A6, PORTS, proxy_port) for _ in range(n_random)]
    failing = {}                    # kinds of failure -> first history that shows exactly these
    for si, hist in enumerate(hists):
        res = run_pf_session(world, hist, proxy_port)
        nf = sum(1 for it in hist if it[0] == "F")
        hs = [it for it in hist if it[0] == "H"]
        moved = sum(1 for i, it in enumerate(hs) if any(p[1] == it[1] and p[2] != it[2] for p in hs[:i]))
        ctx.count("pf_session")
        ctx.count("pf_session_flows", nf)
        ctx.count("pf_session_host_lines", len(hs))
        ctx.count("pf_session_host_reported_again_with_another_address", moved)
        ctx.count("pf_session_ended_by_blank_or_unknown_line", 1 if hist and hist[-1][0] == "J" else 0)
        for i, it in enumerate(hist):
            ctx.case(("pf-session", si, i, tuple(it)), nontrivial=True,
                     sample={"kind": "pf session", "history": hist, "trace": res["trace"]} if (si == 0 and i == 0) else None)
        if not res["failures"]:
            continue
        kinds = {k for k, _ in res["failures"]}
        ctx.count("pf_session_failing")
        failing.setdefault(frozenset(kinds), (hist, res))
    # one report per kind of failure; a history that shows more (a flow sent to ANOTHER flow's destination) stands for the
    # ones that show a part of it (only the stray line)
    for kinds, (hist, res) in sorted(failing.items(), key=lambda kv: sorted(kv[0])):
        if any(kinds < other for other in failing):
            continue
        small = shrink_pf_history(world, hist, proxy_port, kinds)
        res2 = run_pf_session(world, small, proxy_port)
        if not res2["failures"]:
            small, res2 = hist, res
        ctx.violation(pf_session_what(res2["failures"]),
                      {"oracle": "pf-session", "proxy_port": proxy_port, "history": small, "trace": res2["trace"]})


# --------------------------------------------------------------------------

def correspondence(ctx):
    # ---- datagram sequences: one source, several destinations (every datagram carries ITS destination).
    # Run first: World() below replaces server.Mux / server.UdpProxy / client.Proxy by stubs for the rest of the process,
    # and this part drives the unpatched server.main loop.
    dc.run_c05_dgram(ctx)
    world = World()
    rng = ctx.rng
    quick = ctx.quick()
    K = 40 if quick else 1500
    A4 = v4_addrs(rng, K)
    A6 = v6_addrs(rng, K, masks_fill=1 if quick else 6)
    PORTS = ports(rng, 20 if quick else 300)
    ctx.count("v4_addresses", len(A4))
    ctx.count("v6_addresses", len(A6))

    def port_for(i):
        return PORTS[i % len(PORTS)]

    # ---- C: text codecs against ipaddress / glibc ---------------------------------
    lines, impls, descs = [], [], []
    for a in A4:
        lines.append("FMT4 " + hx(a)); impls.append(hx(str(ipaddress.IPv4Address(a)))); descs.append(("fmt4", a))
        if socket.inet_ntop(socket.AF_INET, a) != str(ipaddress.IPv4Address(a)):
            ctx.violation("inet_ntop and ipaddress disagree on an IPv4 address", {"addr": hx(a)})
    for a in A6:
        lines.append("FMT6 " + hx(a)); impls.append(hx(str(ipaddress.IPv6Address(a)))); descs.append(("fmt6", a))
        lines.append("FMT6N " + hx(a)); impls.append(hx(socket.inet_ntop(socket.AF_INET6, a))); descs.append(("fmt6n", a))
    batch(ctx, "text-format", lines, impls, descs, sample_every=211)
    # parsers: formatted texts, their mutants, and hand-written near misses
    texts = set()
    for a in A4:
        texts.add(socket.inet_ntop(socket.AF_INET, a))
    for a in A6:
        texts.add(str(ipaddress.IPv6Address(a)))
        texts.add(socket.inet_ntop(socket.AF_INET6, a))
        texts.add(ipaddress.IPv6Address(a).exploded)
        texts.add(str(ipaddress.IPv6Address(a)).upper())
    texts |= {"1:2:3:4:5:6:7::", "::1:2:3:4:5:6:7", "1:2:3:4:5:6:7:8::", "1::2::3", ":1::2", "1::2:", "::01234", "::1.2.3.04",
              "::1.2.3", "::1.2.3.4.5", "1.2.3.4", "::1.2.3.4:5", "1:2:3:4:5:6:7:1.2.3.4", "1:2:3:4:5:6:1.2.3.4", "::G", "::1 ",
              "::FFFF:1.2.3.256", "1:2:3:4:5:6:7", "1::1.2.3.4", "::12345", "::1.2.3.", "::.1.2.3", "::1..2.3", ":: 1", "::0x1",
              "1:::2", ":::", "::1:", "1:2:3:4:5::6:7:8", "", ":", "::", "1", "1.2.3", "1.2.3.4.5", "01.2.3.4", "1.2.3.256", "1.2.3.-4",
              "1.2.3.4 ", " 1.2.3.4", "1..3.4", "0.0.0.0", "00.0.0.0", "255.255.255.255", "1.2.3.0004", "1.2.3.+4", "1.2.3.4\n",
              "1:2:3:4:5:6:7:8:9", "1:2:3:4:5:6:1.2.3.4.5", "1:2:3:4:5:1.2.3.4", "::1.2.3.4:", "1.2.3.4::", "::ffff:1.2.3.4",
              "::ffff:01.2.3.4", "0:0:0:0:0:0:0:0", "::0:0:0:0:0:0:0", "0::0:0:0:0:0:0:0", "1:2:3:4:5:6:7::8", "1::2:3:4:5:6:7:8"}
    base = sorted(texts)
    nmut = 300 if quick else 8000
    alphabet = "0123456789abcdefABCDEF:.,% gx-+\n"
    for _ in range(nmut):
        t = rng.choice(base)
        k = rng.randrange(4)
        pos = rng.randrange(len(t) + 1)
        if k == 0 and t:
            pos = min(pos, len(t) - 1)
            t = t[:pos] + t[pos + 1:]
        elif k == 1:
            t = t[:pos] + rng.choice(alphabet) + t[pos:]
        elif k == 2 and t:
            pos = min(pos, len(t) - 1)
            t = t[:pos] + rng.choice(alphabet) + t[pos + 1:]
        else:
            t = t[:pos] + rng.choice([":", "::", ".", "0", "ffff:"]) + t[pos:]
        texts.add(t)
    lines, impls, descs, nts = [], [], [], []
    for t in sorted(texts):
        tb = t.encode()
        for cmd, fam in (("P4", socket.AF_INET), ("P6", socket.AF_INET6)):
            try:
                r = hx(socket.inet_pton(fam, t))
            except (OSError, ValueError):
                r = "NONE"
            if fam == socket.AF_INET6 and "%" not in t:
                try:
                    r2 = hx(ipaddress.IPv6Address(t).packed)
                except ValueError:
                    r2 = "NONE"
                if r2 != r:
                    ctx.count("ipaddress_vs_inet_pton_differ")
                    if ctx.distribution["ipaddress_vs_inet_pton_differ"] <= 5:
                        ctx.notes.append("ipaddress and inet_pton differ on %r: %s / %s" % (t, r2, r))
            lines.append("%s %s" % (cmd, hx(tb))); impls.append(r); descs.append((cmd, t)); nts.append(r != "NONE" or ":" in t or "." in t)
            ctx.count("parse_accept" if r != "NONE" else "parse_reject")
    batch(ctx, "text-parse", lines, impls, descs, nts, sample_every=397)
    # oracle on the implementation side alone: parse(format a) = a, no comma
    for a in A6:
        for t in (str(ipaddress.IPv6Address(a)), socket.inet_ntop(socket.AF_INET6, a)):
            if pton(socket.AF_INET6, t) != a or "," in t:
                ctx.violation("IPv6 text does not round-trip", {"addr": hx(a), "text": t})
    # int()
    ints = ["0", "1", "8080", "65535", "65536", "-1", "+7", " 12", "12 ", "12\n", "\t12\r\n", "1 2", "", " ", "-", "+", "--1", "0x10",
            "007", "1_0", "12a", "99999999999999999999", "-0", "1.0", "\x1f12", "12\x0b", "12\x0c", "12\x1c", "٣"]
    ints += [str(p) for p in PORTS[:40]]
    lines, impls, descs = [], [], []
    for t in ints:
        tb = t.encode("utf-8")
        if "_" in t:
            ctx.count("int_underscore_outside_model")
            continue
        rs = []
        for f in (lambda: int(tb), lambda: int(tb.decode("ascii"))):
            try:
                rs.append(str(f()))
            except (ValueError, UnicodeDecodeError):
                rs.append("NONE")
        if any(c >= 128 for c in tb):
            continue
        if rs[0] != rs[1]:
            ctx.notes.append("int(bytes) and int(str) differ on %r" % t)
        lines.append("INT " + hx(tb)); impls.append(rs[0]); descs.append(("int", t))
    batch(ctx, "int", lines, impls, descs)

    # ---- A: kernel layout -> original_dst -> onaccept_tcp -> new_channel -------------------
    cases = []   # (fam, a, p, flow, scope)
    for i, a in enumerate(A4):
        for p in ([port_for(i)] if (quick and i > 40) else PORTS[:14] if i < 3 else [port_for(i), port_for(i * 7 + 3)]):
            cases.append((AF_INET, a, p, b"", b""))
    for i, a in enumerate(A6):
        fl = bytes(4) if i % 5 else bytes(rng.randrange(256) for _ in range(4))
        sc = bytes(4) if i % 7 else bytes(rng.randrange(256) for _ in range(4))
        for p in (PORTS[:14] if i < 3 else [port_for(i)]):
            cases.append((AF_INET6, a, p, fl, sc))
    lay = ctx.run_driver([("SA4 LE %s %d" % (hx(a), p)) if fam == AF_INET else ("SA6 LE %s %d %s %s" % (hx(a), p, hx(fl), hx(sc)))
                          for fam, a, p, fl, sc in cases])
    lines, impls, descs = [], [], []
    e_lines, e_impls, e_descs = [], [], []
    LPORT = 12300
    for (fam, a, p, fl, sc), layout in zip(cases, lay):
        raw = unhx(layout)
        want_len = 16 if fam == AF_INET else 28
        if len(raw) != want_len:
            ctx.disagree("layout length", (fam, hx(a), p), want_len, len(raw))
        if fam == AF_INET6 and len(lines) % 2:
            # what Linux really hands back for getsockopt(41, 80, 64): 28 bytes + 36 bytes of stale buffer
            raw += bytes(rng.randrange(256) for _ in range(36))
            layout = hx(raw)
        sn = ("127.0.0.1", LPORT) if fam == AF_INET else ("::1", LPORT, 0, 0)
        sock = FakeSock(fam, raw, sn)
        try:
            ip, port = world.methods.original_dst(sock)
            r = "OK %s %d" % (hx(ip), port)
            # property on the implementation alone
            if pton(socket.AF_INET if fam == AF_INET else socket.AF_INET6, ip) != a or port != p or "," in ip:
                ctx.violation("original_dst does not return the destination in the kernel's sockaddr",
                              {"family": fam, "addr": hx(a), "port": p, "layout": layout, "got": [ip, port]})
        except Exception as e:
            r = exc_name(e)
            ctx.violation("original_dst failed on a well-formed sockaddr", {"family": fam, "addr": hx(a), "port": p, "layout": layout, "got": r})
        lines.append("ODST %d G:%s %s %d" % (fam, layout, hx(sn[0]), LPORT)); impls.append(r); descs.append(("odst", fam, a, p))
        ctx.count("original_dst_v%d" % (4 if fam == AF_INET else 6))
        # end to end through the real onaccept_tcp (nat method) and the real new_channel
        isl = (len(e_lines) % 3 == 0)
        sock = FakeSock(fam, raw, sn)
        acc, payload = run_accept(world, world.m_nat, sock, 7, isl)
        if payload is None:
            er = "OK NONE"
            if not (p == LPORT and isl):
                ctx.violation("a connection that is not to the proxy's own address was dropped", {"family": fam, "addr": hx(a), "port": p})
        else:
            er = run_new_channel(world, payload)
            if p == LPORT and isl:
                ctx.violation("a connection to the proxy's own listening address was forwarded", {"family": fam, "addr": hx(a), "port": p})
            elif er.startswith("OK "):
                f2, ip2, p2 = world.connects[0]
                okfam = (f2 == socket.AF_INET) == (fam == AF_INET)
                if not okfam or pton(f2, ip2) != a or p2 != p:
                    ctx.violation("connect_dst received a different destination than the kernel reported",
                                  {"family": fam, "addr": hx(a), "port": p, "payload": hx(payload), "connect_dst": [int(f2), ip2, p2]})
            else:
                ctx.violation("server could not decode the CONNECT payload", {"payload": hx(payload), "got": er})
        e_lines.append("E2ENAT %d %d G:%s %s %d 7" % (1 if isl else 0, fam, layout, hx(sn[0]), LPORT)); e_impls.append(er)
        e_descs.append(("e2e", fam, a, p, isl))
    # the guard port itself, both islocal answers
    for fam, a in ((AF_INET, bytes([127, 0, 0, 1])), (AF_INET, bytes([10, 1, 2, 3])), (AF_INET6, bytes(15) + b"\x01"), (AF_INET6, A6[200])):
        for p in (LPORT, LPORT + 1, 0x0c30, 0x300c):
            for isl in (False, True):
                layout = ctx.run_driver([("SA4 LE %s %d" % (hx(a), p)) if fam == AF_INET else
                                         ("SA6 LE %s %d 00000000 00000000" % (hx(a), p))])[0]
                raw = unhx(layout)
                sn = ("127.0.0.1", LPORT) if fam == AF_INET else ("::1", LPORT, 0, 0)
                acc, payload = run_accept(world, world.m_nat, FakeSock(fam, raw, sn), 3, isl)
                er = "OK NONE" if payload is None else run_new_channel(world, payload)
                if (payload is None) != (p == LPORT and isl):
                    ctx.violation("self-address guard: dropped iff (port = listening port and address local) does not hold",
                                  {"family": fam, "addr": hx(a), "port": p, "listen_port": LPORT, "islocal": isl, "dropped": payload is None})
                e_lines.append("E2ENAT %d %d G:%s %s %d 3" % (1 if isl else 0, fam, layout, hx(sn[0]), LPORT)); e_impls.append(er)
                e_descs.append(("guard", fam, a, p, isl))
                ctx.count("guard_cases")
    # the guard with the REAL helpers.islocal: whatever the kernel answers to its bind() probe of the proxy's own
    # address, a connection to the proxy's own listening socket is never forwarded (implementation-only oracle)
    import errno as _errno
    import sshuttle.helpers as _helpers
    real_socket_mod = _helpers.socket

    class _ProbeSock(object):
        def __init__(self, outcome):
            self.outcome = outcome

        def bind(self, addr):
            if self.outcome is not None:
                raise OSError(self.outcome, os.strerror(self.outcome))

        def close(self):
            pass

    class _SockProxy(object):
        outcome = None

        def __getattr__(self, k):
            return getattr(real_socket_mod, k)

        def socket(self, *a, **k):
            return _ProbeSock(self.outcome)

    proxy = _SockProxy()
    stub_islocal = world.client.islocal
    _helpers.socket = proxy
    world.client.islocal = _helpers.islocal
    try:
        for fam, a, sn in ((AF_INET, bytes([127, 0, 0, 1]), ("127.0.0.1", LPORT)),
                           (AF_INET6, bytes(15) + b"\x01", ("::1", LPORT, 0, 0))):
            for outcome in (None, _errno.EADDRINUSE, _errno.ENOBUFS, _errno.EACCES, _errno.EINVAL, _errno.ENOMEM):
                proxy.outcome = outcome
                layout = ctx.run_driver([("SA4 LE %s %d" % (hx(a), LPORT)) if fam == AF_INET else
                                         ("SA6 LE %s %d 00000000 00000000" % (hx(a), LPORT))])[0]
                try:
                    acc, payload = run_accept(world, world.m_nat, FakeSock(fam, unhx(layout), sn), 3, False)
                except OSError:
                    acc, payload = "RAISED", None
                ctx.case(("guard-real-islocal", fam, outcome), nontrivial=True)
                ctx.count("guard_real_islocal_cases")
                if payload is not None:
                    ctx.violation("a connection to the proxy's own listening socket was forwarded to the server "
                                  "(self-address guard with the real islocal)",
                                  {"family": fam, "addr": hx(a), "port": LPORT,
                                   "bind_probe_answer": "ok" if outcome is None else _errno.errorcode.get(outcome, str(outcome)),
                                   "payload": hx(payload)})
    finally:
        _helpers.socket = real_socket_mod
        world.client.islocal = stub_islocal
    batch(ctx, "original_dst", lines, impls, descs, sample_every=301)
    batch(ctx, "end-to-end nat", e_lines, e_impls, e_descs, sample_every=401)

    # malformed: truncated / oversized buffers, errno, other families
    lines, impls, descs, nts = [], [], [], []
    for fam in (AF_INET, AF_INET6, 1, 0):
        for n in list(range(0, 30)) + [64]:
            raw = bytes(rng.randrange(256) for _ in range(n))
            sn = ("10.9.8.7", 4321)
            sock = FakeSock(fam, raw, sn)
            try:
                ip, port = world.methods.original_dst(sock)[:2]
                r = "OK %s %d" % (hx(ip), port)
            except Exception as e:
                r = exc_name(e)
            # the fake honours buflen like the kernel: model sees what the call returns
            seen = raw[:16] if fam == AF_INET else raw[:64]
            lines.append("ODST %d G:%s %s %d" % (fam, hx(seen), hx(sn[0]), sn[1])); impls.append(r); descs.append(("odst-mal", fam, raw))
            nts.append(fam in (AF_INET, AF_INET6))
            ctx.count("original_dst_malformed")
        for errno_ in (ENOPROTOOPT, 1, 22, 95):
            sn = ("10.9.8.7", 4321)
            sock = FakeSock(fam, errno_, sn)
            try:
                ip, port = world.methods.original_dst(sock)[:2]
                r = "OK %s %d" % (hx(ip), port)
            except Exception as e:
                r = exc_name(e)
            lines.append("ODST %d E:%d %s %d" % (fam, errno_, hx(sn[0]), sn[1])); impls.append(r); descs.append(("odst-err", fam, errno_))
            nts.append(True)
            ctx.count("original_dst_errno")
    batch(ctx, "original_dst malformed", lines, impls, descs, nts)
    # which option the real code asks for (observable at the getsockopt boundary)
    s4, s6 = FakeSock(AF_INET, bytes(16), None), FakeSock(AF_INET6, bytes(28), None)
    world.methods.original_dst(s4); world.methods.original_dst(s6)
    if s4.gso_calls != [(0, 80, 16)] or s6.gso_calls != [(41, 80, 64)]:
        ctx.disagree("getsockopt arguments", "SOL_IP/SOL_IPV6, SO_ORIGINAL_DST", [s4.gso_calls, s6.gso_calls], [[(0, 80, 16)], [(41, 80, 64)]])

    # ---- B: tproxy cmsg decoding -> onaccept_udp -> udp_req --------------------------------
    for endian in ("LE", "BE"):
        old = be_patch(world.tproxy) if endian == "BE" else None
        if endian == "LE" and sys.byteorder != "little":
            ctx.notes.append("host is big-endian: LE cases skipped")
            continue
        try:
            ucases = []
            for i, a in enumerate(A4):
                ucases.append((AF_INET, a, port_for(i + 5)))
            for i, a in enumerate(A6):
                if quick and i % 2 and i > 300:
                    continue
                ucases.append((AF_INET6, a, port_for(i + 3)))
            for p in PORTS[:14]:
                ucases.append((AF_INET, A4[40], p))
                ucases.append((AF_INET6, A6[150], p))
            # the messages as the KERNEL holds them: struct sockaddr_in (16 bytes) / the whole struct sockaddr_in6 (28 bytes,
            # with the flow label of the packet and - link-local destinations - the interface as scope id)
            FLOWS = ["00000000", "00000000", "000fffff", "00012345", "60000000"]
            SCOPES = ["00000000", "00000000", "02000000", "00000002", "ffffffff"]
            lay = ctx.run_driver([("SA4 %s %s %d" % (endian, hx(a), p)) if fam == AF_INET else
                                  ("SA6 %s %s %d %s %s" % (endian, hx(a), p, FLOWS[j % 5], SCOPES[(j // 5) % 5]))
                                  for j, (fam, a, p) in enumerate(ucases)])
            hdr_n, al_n = socket.CMSG_LEN(0), socket.CMSG_SPACE(1) - socket.CMSG_LEN(0)
            lines, impls, descs = [], [], []
            u_lines, u_impls, u_descs = [], [], []
            asked = set()
            for j, ((fam, a, p), layout) in enumerate(zip(ucases, lay)):
                raw = unhx(layout)
                lvl, typ = (0, 20) if fam == AF_INET else (41, 74)
                anc = [(lvl, typ, raw)]
                # 3 of 4 cases: a kernel-like socket (the message is cut to the control buffer recv_udp offers and MSG_CTRUNC
                # is reported: for EVERY IPv6 datagram, Props/C05.v c05_cmsg6_kernel_always_ctrunc).  1 of 4: decoder level,
                # unrelated control messages in front (c05_cmsg4 / c05_cmsg6 with a non-empty `pre`), handed over as they are
                kern = j % 4 != 0
                if not kern:
                    if fam == AF_INET6 and j % 8:
                        raw = raw[:24]
                    anc = [(1, 2, b"\x00" * 12), (0, 8, b"\x01\x00\x00\x00"), (lvl, typ, raw)]
                payload = bytes(rng.randrange(256) for _ in range(rng.choice([0, 1, 5, 40]))) if j % 3 else b"a,b,,c,"
                lst = FakeListener(fam, msg=(payload, anc), kernel=kern)
                how = "kernel-like socket" if kern else "decoder level"
                rep = {"endian": endian, "family": fam, "addr": hx(a), "port": p, "cmsg": hx(raw), "kernel_like_socket": kern}
                try:
                    src, dst, data = world.tproxy.recv_udp(lst, 4096)
                    r = "OK NONE" if dst is None else "OK %s %d" % (hx(dst[0]), dst[1])
                    if dst is None or pton(socket.AF_INET if fam == AF_INET else socket.AF_INET6, dst[0]) != a \
                            or dst[1] != p or "," in dst[0] or data != payload:
                        ctx.violation("tproxy.recv_udp does not return the destination in the control message (%s host, %s)" % (endian, how),
                                      dict(rep, got=repr(dst), delivered_by_recvmsg=repr(lst.delivered[1:3])))
                except Exception as e:
                    r = exc_name(e)
                    ctx.violation("tproxy.recv_udp failed on a well-formed control message (%s host, %s)" % (endian, how), dict(rep, got=r))
                ancs = " ".join("%d:%d:%s" % (l, t, hx(d)) for l, t, d in anc)
                if kern:
                    asked.add(lst.anc_asked)
                    ct = 1 if lst.delivered and lst.delivered[2] & socket.MSG_CTRUNC else 0
                    lines.append("KCMSG %s %d %d %d %s" % (endian, hdr_n, al_n, lst.anc_asked or 0, ancs)); impls.append("%s CTRUNC=%d" % (r, ct))
                    ctx.count("cmsg_kernel_like_v%d_%s_ctrunc%d" % (4 if fam == AF_INET else 6, endian, ct))
                    dlv = lst.delivered[1] if lst.delivered else []
                    ancs = " ".join("%d:%d:%s" % (l, t, hx(d)) for l, t, d in dlv)
                else:
                    lines.append("CMSG %s %s" % (endian, ancs)); impls.append(r)
                descs.append(("cmsg", endian, fam, a, p, len(raw), kern))
                ctx.count("cmsg_v%d_%s" % (4 if fam == AF_INET else 6, endian))
                # through the real onaccept_udp and the real server udp_req
                world.client.udp_by_src.clear()
                mux = FakeMux(11)
                world.client.onaccept_udp(FakeListener(fam, msg=(payload, anc), kernel=kern), world.m_tproxy, mux, [])
                datas = [d for c, cmd, d in mux.sent if cmd == world.ssnet.CMD_UDP_DATA]
                opens = [d for c, cmd, d in mux.sent if cmd == world.ssnet.CMD_UDP_OPEN]
                if len(datas) != 1 or opens != [b"%d" % fam]:
                    ctx.violation("onaccept_udp did not send exactly one UDP_OPEN + UDP_DATA for a captured datagram (%s)" % how,
                                  dict(rep, sent=repr(mux.sent)[:300]))
                    continue
                ur = run_udp_req(world, datas[0])
                if ur.startswith("OK "):
                    (dst2, pl2), = world.udp_sends
                    try:
                        back = pton(socket.AF_INET if fam == AF_INET else socket.AF_INET6, dst2[0].decode("ascii"))
                    except Exception:
                        back = None
                    if back != a or dst2[1] != p or pl2 != payload:
                        ctx.violation("server-side UDP destination/payload differs from the control message",
                                      {"endian": endian, "family": fam, "addr": hx(a), "port": p, "frame": hx(datas[0]), "got": repr((dst2, pl2))[:300]})
                else:
                    ctx.violation("server could not decode the UDP header", {"frame": hx(datas[0]), "got": ur})
                u_lines.append("E2EUDP %s %s %s" % (endian, hx(payload), ancs)); u_impls.append(ur); u_descs.append(("udp", endian, fam, a, p, payload))
            batch(ctx, "cmsg %s" % endian, lines, impls, descs, sample_every=307)
            # the control buffer the real code offers is the one the theorems speak about: CMSG_SPACE(ANC_DATA_ROOM)
            want_room = int(ctx.run_driver(["CSPACE %d %d 24" % (hdr_n, al_n)])[0])
            if asked != {want_room} or want_room != socket.CMSG_SPACE(24):
                ctx.disagree("control buffer offered by recv_udp", "recvmsg(4096, ancbufsize)", sorted(asked, key=repr), want_room)
            batch(ctx, "end-to-end udp %s" % endian, u_lines, u_impls, u_descs, sample_every=409)
            # malformed control messages
            lines, impls, descs = [], [], []
            for _ in range(150 if quick else 3000):
                fam = rng.choice([AF_INET, AF_INET6])
                lvl, typ = rng.choice([(0, 20), (41, 74), (0, 20), (41, 74), (0, 74), (41, 20), (1, 1)])
                n = rng.choice([0, 1, 3, 4, 5, 7, 8, 12, 15, 16, 23, 24, 27, 28, 40])
                raw = bytearray(rng.randrange(256) for _ in range(n))
                if n >= 2 and rng.random() < 0.7:
                    famv = rng.choice([AF_INET, AF_INET6, fam])
                    raw[0:2] = struct.pack("<H" if endian == "LE" else ">H", famv)
                anc = [(lvl, typ, bytes(raw))]
                if rng.random() < 0.3:
                    anc.append((0, 20, unhx(lay[0])))
                try:
                    src, dst, data = world.tproxy.recv_udp(FakeListener(fam, msg=(b"x", anc)), 4096)
                    r = "OK NONE" if dst is None else "OK %s %d" % (hx(dst[0]), dst[1])
                except Exception as e:
                    r = exc_name(e)
                lines.append("CMSG %s %s" % (endian, " ".join("%d:%d:%s" % (l, t, hx(d)) for l, t, d in anc))); impls.append(r)
                descs.append(("cmsg-mal", endian, lvl, typ, bytes(raw))); ctx.count("cmsg_malformed_" + ("OK_decoded" if r.startswith("OK ") and r != "OK NONE" else r.replace(" ", "_")))
            batch(ctx, "cmsg malformed %s" % endian, lines, impls, descs)
        finally:
            if old:
                world.tproxy.struct, world.tproxy.socket = old

    # ---- tproxy TCP: getsockname is the destination (CPython prints it with inet_ntop) -----
    lines, impls, descs = [], [], []
    for i, a in enumerate(A6[:: (3 if quick else 1)] + A4[::2]):
        fam = AF_INET if len(a) == 4 else AF_INET6
        p = port_for(i + 1)
        text = socket.inet_ntop(socket.AF_INET if fam == AF_INET else socket.AF_INET6, a)
        sn = (text, p) if fam == AF_INET else (text, p, 0, 0)
        isl = i % 4 == 0
        lport = p if i % 5 == 0 else 12300
        sock = FakeSock(fam, None, sn)
        # the listening port of a transparent socket is the destination port itself: getsockname()[1] == dstip[1]
        acc, payload = run_accept(world, world.m_tproxy, sock, 2, isl)
        er = "OK NONE" if payload is None else run_new_channel(world, payload)
        if payload is not None and er.startswith("OK "):
            f2, ip2, p2 = world.connects[0]
            if pton(f2, ip2) != a or p2 != p or ((f2 == socket.AF_INET) != (fam == AF_INET)):
                ctx.violation("tproxy: connect_dst received a different destination than getsockname reported",
                              {"family": fam, "addr": hx(a), "port": p, "payload": hx(payload)})
        lines.append("E2ETEXT %d %d %s %d %d 2" % (1 if isl else 0, fam, hx(text), p, p)); impls.append(er); descs.append(("tproxy-tcp", a, p, isl))
        ctx.count("tproxy_tcp")
    batch(ctx, "end-to-end tproxy tcp", lines, impls, descs, sample_every=203)

    # ---- D0: CONNECT messages as clients of EVERY platform send them (property oracle on the real server alone) --
    # client.py sends b'%d,%s,%d' % (sock.family, ip, port): family 2 for IPv4 everywhere, the client platform's own
    # AF_INET6 number for IPv6.  Whatever that number, the server has to reach the dialled address: a socket of the
    # family of the address text, connect() to exactly (text, port), no exception out of new_channel.
    cp = []
    for i, a in enumerate(A4[:: (3 if quick else 1)]):
        cp.append((False, socket.inet_ntop(socket.AF_INET, a), a, port_for(i + 2), "any", 2))
    for i, a in enumerate(A6[:: (5 if quick else 1)] + A6[386:422]):          # incl. the mapped / compatible / dotted-tail forms
        for t in sorted({str(ipaddress.IPv6Address(a)), socket.inet_ntop(socket.AF_INET6, a)}):
            for plat, num in (AF_INET6_ON_THE_WIRE if i % 4 == 0 or not quick else
                              [AF_INET6_ON_THE_WIRE[0], AF_INET6_ON_THE_WIRE[1 + i % 5]]):
                cp.append((True, t, a, port_for(i + 6), plat, num))
    for p in (1, 65535, 0x1f90, 0x901f):
        for plat, num in AF_INET6_ON_THE_WIRE:
            cp.append((True, "2001:db8::5", socket.inet_pton(socket.AF_INET6, "2001:db8::5"), p, plat, num))
            cp.append((True, "::ffff:102:304", socket.inet_pton(socket.AF_INET6, "::ffff:102:304"), p, plat, num))
    for is_v6, text, packed, port, plat, num in cp:
        payload = b"%d,%s,%d" % (num, text.encode("ascii"), port)
        log = observe_connect(world, payload)
        ctx.case(("connect-platform", payload), nontrivial=True,
                 sample={"kind": "CONNECT from a %s client" % plat, "payload": payload.decode(), "server": log} if ctx.evaluations % 173 == 0 else None)
        ctx.count("connect_from_%s_%s" % (plat, "v6" if is_v6 else "v4"))
        for f in connect_failures(log, is_v6, text, port, packed):
            ctx.violation(f, {"connect_payload": payload.decode("ascii"), "client_platform": plat, "family_number_on_the_wire": num,
                              "dialled": [text, port], "server_did": log})

    # ---- D/E: payload decoders on malformed input ------------------------------------------
    good = [b"2,10.1.2.3,8080", b"10,2001:db8::1,443", b"30,::ffff:1.2.3.4,65535", b"2,0.0.0.0,0"]
    datas = set(good)
    for _ in range(300 if quick else 6000):
        d = bytearray(rng.choice(good))
        k = rng.randrange(5)
        pos = rng.randrange(len(d) + 1)
        ins = rng.choice([b",", b" ", b"-", b"+", b"\n", b"x", b"\xff", b"0", b"", b"\t", b"\x1f", b",,"])
        if k == 0:
            d[pos:pos] = ins
        elif k == 1 and d:
            del d[min(pos, len(d) - 1)]
        elif k == 2 and d:
            d[min(pos, len(d) - 1):min(pos, len(d) - 1) + 1] = ins
        elif k == 3:
            d = bytearray(b",".join(rng.choice([b"2", b"10", b" 2", b"2 ", b"-2", b"", b"a", b"1.2.3.4", b"::1", b"80", b"99999999999999999999"])
                                    for _ in range(rng.randrange(1, 6))))
        else:
            d = bytearray(rng.randrange(256) for _ in range(rng.randrange(0, 12)))
        if b"_" not in d:
            datas.add(bytes(d))
    lines, impls, descs, nts = [], [], [], []
    for d in sorted(datas):
        lines.append("NEWCH " + hx(d)); impls.append(run_new_channel(world, d)); descs.append(("newch", d)); nts.append(d.count(b",") >= 2)
        ctx.count("new_channel_" + impls[-1].split(" ")[0] + ("_" + impls[-1].split(" ")[1] if impls[-1].startswith("CRASH") else ""))
        lines.append("UDPREQ " + hx(d)); impls.append(run_udp_req(world, d)); descs.append(("udpreq", d)); nts.append(d.count(b",") >= 2)
        ctx.count("udp_req_" + impls[-1].split(" ")[0] + ("_" + impls[-1].split(" ")[1] if impls[-1].startswith("CRASH") else ""))
    batch(ctx, "server decoders", lines, impls, descs, nts, sample_every=151)
    # client accept: channel exhaustion, guard; payload printer for arbitrary text
    lines, impls, descs = [], [], []
    for i in range(60 if quick else 600):
        fam = rng.choice([AF_INET, AF_INET6])
        text = rng.choice(base)
        if any(ord(c) > 127 for c in text) or " " in text or "\n" in text or not text:
            continue
        p = rng.choice(PORTS)
        lport = rng.choice([p, 12300])
        isl = rng.random() < 0.5
        chan = rng.choice([None, 0, 1, 65535, 7])
        sn = ("127.0.0.1", lport)
        sock = FakeSock(fam, None, (text, p))
        # method whose get_tcp_dstip returns the text verbatim, listening socket name separate
        class M:
            @staticmethod
            def get_tcp_dstip(s):
                return (text, p)
        sock.sockname = sn
        acc, payload = run_accept(world, M, sock, chan, isl)
        if acc == "DROP_OR_NOCHAN":
            acc = "DROP" if (p == lport and isl) else "NOCHAN"
        lines.append("ACC %d %s %d %d %d %s" % (fam, hx(text), p, lport, 1 if isl else 0, "-" if chan is None else chan)); impls.append(acc)
        descs.append(("acc", fam, text, p, lport, isl, chan)); ctx.count("accept_" + acc.split(" ")[0])
    batch(ctx, "onaccept_tcp", lines, impls, descs, sample_every=37)

    # ---- F: pf query dialogue ---------------------------------------------------------------
    fw = FW()
    world.m_pf.set_firewall(fw)
    lines, impls, descs = [], [], []
    r_lines, r_impls, r_descs = [], [], []
    pfc = []
    for i, a in enumerate(A6[:: (4 if quick else 1)]):
        peer = A6[(i * 13 + 5) % len(A6)]
        pfc.append((AF_INET6, a, peer, A6[(i * 29 + 1) % len(A6)]))
    for i, a in enumerate(A4[:: (2 if quick else 1)]):
        pfc.append((AF_INET, a, A4[(i * 7 + 3) % len(A4)], A4[(i * 11 + 2) % len(A4)]))
    longest = 0
    for i, (fam, rd, peer_a, proxy_a) in enumerate(pfc):
        sfam = socket.AF_INET if fam == AF_INET else socket.AF_INET6
        peer = (socket.inet_ntop(sfam, peer_a), port_for(i))
        proxy = (socket.inet_ntop(sfam, proxy_a), port_for(i + 9))
        rp = port_for(i + 4)
        kind = i % 7
        answer = ("S", rd if fam == AF_INET else bytes(4), rd if fam == AF_INET6 else bytes(16), rp) if kind != 3 else ("F", "[Errno 2] No such file or directory")
        peer_arg = peer if kind != 5 else rng.choice([EINVAL, 107])
        fw.pfile = PFile(world, answer)
        sock = FakeSock(fam, None, proxy if fam == AF_INET else proxy + (0, 0), peer_arg if (fam == AF_INET or isinstance(peer_arg, int)) else peer + (0, 0))
        try:
            ip, port = world.m_pf.get_tcp_dstip(sock)[:2]
            r = "OK %s %d" % (hx(ip), port)
        except Exception as e:
            r = exc_name(e)
        if fw.pfile.end not in (None, "EOF"):
            r = "FATAL" if fw.pfile.end.startswith(("NOTCMD", "FATAL")) else "CRASH " + fw.pfile.end.split(":", 1)[1]
        if kind not in (3, 5):
            good = r.startswith("OK ") and pton(sfam, unhx(r.split(" ")[1]).decode()) == rd and int(r.split(" ")[2]) == rp
            q = world.nat_queries
            goodq = len(q) == 1 and q[0] == (fam, 6, peer_a, peer[1], proxy_a, proxy[1])
            if not (good and goodq):
                ctx.violation("pf query dialogue does not return the translated destination / does not query the right state",
                              {"family": fam, "peer": list(peer), "proxy": list(proxy), "kernel_answer": [hx(rd), rp], "got": r, "queries": repr(q)})
        elif kind == 3:
            if r != "OK %s %d" % (hx(proxy[0]), proxy[1]):
                ctx.violation("pf failure does not fall back to the socket's own name", {"got": r, "proxy": list(proxy)})
        pstr = "P:%s:%d" % (hx(peer[0]), peer[1]) if not isinstance(peer_arg, int) else "E:%d" % peer_arg
        lines.append("PFGET 10 %d %s %s %s %d" % (fam, ans_str(answer), pstr, hx(proxy[0]), proxy[1])); impls.append(r)
        descs.append(("pfget", fam, rd, rp, peer, proxy, kind)); ctx.count("pf_dialogue_" + ("success" if kind not in (3, 5) else "failure" if kind == 3 else "peer_errno"))
        # request line length against the helper's 128-byte reader
        req = b"QUERY_PF_NAT %d,%d,%s,%d,%s,%d\n" % (fam, 6, peer[0].encode(), peer[1], proxy[0].encode(), proxy[1])
        longest = max(longest, len(req))
        r_lines.append("PFREQ %d %s %d %s %d" % (fam, hx(peer[0]), peer[1], hx(proxy[0]), proxy[1])); r_impls.append(hx(req)); r_descs.append(("pfreq", req))
    # worst case for the line length
    worst = b"\xff" * 16
    wt = socket.inet_ntop(socket.AF_INET6, worst)
    fw.pfile = PFile(world, ("S", bytes(4), worst, 65535))
    sock = FakeSock(AF_INET6, None, (wt, 65535, 0, 0), (wt, 65535, 0, 0))
    r = world.m_pf.get_tcp_dstip(sock)[:2]
    if r != (wt, 65535) or world.nat_queries != [(AF_INET6, 6, worst, 65535, worst, 65535)]:
        ctx.violation("longest IPv6 pf request is not answered correctly (128-byte reader?)", {"got": repr(r), "queries": repr(world.nat_queries)})
    ctx.extra["longest_pf_request_line_seen"] = max(longest, len(b"QUERY_PF_NAT 10,6,%s,65535,%s,65535\n" % (wt.encode(), wt.encode())))
    batch(ctx, "pf get_tcp_dstip", lines, impls, descs, sample_every=53)
    batch(ctx, "pf request line", r_lines, r_impls, r_descs)
    # helper on arbitrary stdin
    goodl = [b"QUERY_PF_NAT 2,6,10.0.0.5,40000,127.0.0.1,12300\n", b"QUERY_PF_NAT 10,6,fe80::1,40000,::1,12300\n",
             b"QUERY_PF_NAT 10,6,::ffff:1.2.3.4,1,1:2:3:4:5:6:7:8,65535\n"]
    streams = set(goodl)
    streams.add(goodl[0] + goodl[1])
    streams.add(b"QUERY_PF_NAT 10,6," + b"0" * 90 + b"1:2:3:4:5:6:7:8,40000,::1,12300\n")
    streams.add(b"QUERY_PF_NAT 10,6,ffff:ffff:ffff:ffff:ffff:ffff:ffff:ffff,65535,ffff:ffff:ffff:ffff:ffff:ffff:ffff:ffff,65535" + b" " * 30 + b"\n")
    streams.add(b"\n"); streams.add(b""); streams.add(b"   \n" + goodl[0]); streams.add(b"QUERY_PF_NAT \n"); streams.add(b"QUERY_PF_NAT\n")
    for _ in range(250 if quick else 5000):
        d = bytearray(rng.choice(goodl))
        k = rng.randrange(5)
        pos = rng.randrange(len(d) + 1)
        ins = rng.choice([b",", b" ", b"-", b"+", b"\n", b"x", b"\xff", b"0", b"", b"\t", b"\x1f", b",,", b"65536", b"\r"])
        if k == 0:
            d[pos:pos] = ins
        elif k == 1:
            del d[min(pos, len(d) - 1)]
        elif k == 2:
            d[min(pos, len(d) - 1):min(pos, len(d) - 1) + 1] = ins
        elif k == 3:
            d = bytearray(b"QUERY_PF_NAT " + b",".join(rng.choice([b"2", b"10", b"6", b" 2", b"-2", b"", b"a", b"1.2.3.4", b"::1", b"80", b"65536", b"1.2.3"])
                                                      for _ in range(rng.randrange(1, 8))) + b"\n")
        else:
            d[pos:pos] = b"9" * rng.choice([60, 80, 100])
        if b"_" in d.replace(b"QUERY_PF_NAT", b"") or d.lstrip().startswith(b"HOST ") or d.lstrip().startswith(b"GO "):
            continue
        streams.add(bytes(d))
    lines, impls, descs, nts = [], [], [], []
    for s in sorted(streams):
        for answer in (("S", bytes([10, 1, 2, 3]), A6[170], 8080), ("F", "[Errno 2] No such file or directory")):
            lines.append("HELPER 10 %s %s" % (ans_str(answer), hx(s))); impls.append(helper_events(world, s, answer)); descs.append(("helper", s, answer))
            nts.append(s.startswith(b"QUERY_PF_NAT "))
            ctx.count("helper_end_" + impls[-1].split(";")[-1].split(":")[0])
    batch(ctx, "pf helper", lines, impls, descs, nts, sample_every=171)
    # client-side reply decoding on arbitrary lines
    replies = {b"QUERY_PF_NAT_SUCCESS 10.1.2.3,8080\n", b"QUERY_PF_NAT_SUCCESS ::1,1\n", b"QUERY_PF_NAT_FAILURE x\n", b"", b"\n",
               b"QUERY_PF_NAT_SUCCESS 1.2.3.4\n", b"QUERY_PF_NAT_SUCCESS 1.2.3.4,5,6\n", b"QUERY_PF_NAT_SUCCESS 1.2.3.4,\n", b"QUERY_PF_NAT_SUCCESS ,7\n",
               b"QUERY_PF_NAT_SUCCESS 1.2.3.4, 7 \n", b"QUERY_PF_NAT_SUCCESS\xff 1,2\n", b"QUERY_PF_NAT_SUCCESS 1.2.3.4,-7\n", b"QUERY_PF_NAT_SUCCESS1.2.3.4,7\n"}
    for _ in range(100 if quick else 2000):
        d = bytearray(rng.choice(sorted(replies)))
        pos = rng.randrange(len(d) + 1)
        d[pos:pos] = rng.choice([b",", b" ", b"-", b"\n", b"x", b"\xff", b"0"])
        if b"_" not in bytes(d)[21:]:
            replies.add(bytes(d))
    lines, impls, descs = [], [], []
    for rl in sorted(replies):
        class OneLine:
            def write(self, b): pass
            def flush(self): pass
            def readline(self, rl=rl): return rl
        fw.pfile = OneLine()
        sock = FakeSock(AF_INET, None, ("127.0.0.1", 12300), ("10.0.0.5", 40000))
        try:
            ip, port = world.m_pf.get_tcp_dstip(sock)
            r = "OK %s %d" % (hx(ip), port)
        except Exception as e:
            r = exc_name(e)
        lines.append("PFREPLY %s %s %d" % (hx(rl), hx("127.0.0.1"), 12300)); impls.append(r); descs.append(("pfreply", rl))
        ctx.count("pf_reply_" + r.split(" ")[0])
    batch(ctx, "pf reply decode", lines, impls, descs)
    # whole sessions: one real helper process, one control channel, HOST lines / queries / junk interleaved
    run_pf_sessions(ctx, world, A4, A6, PORTS)

    # ---- every run: the running kernel on loopback sockets (no privilege, no namespace needed; skipped with a note when the
    # sandbox refuses): (i) the fake recvmsg of the cases above stores control messages exactly like the kernel, for every
    # buffer size around the boundaries, one and several messages; (ii) the real tproxy.recv_udp on real datagrams of both
    # families returns the address they were sent to
    kc = dc.kernel_cmsg_check()
    ctx.extra["kernel_control_buffer_check"] = {k: (v if k != "differences" else v[:4]) for k, v in kc.items()}
    ctx.count("kernel_control_buffer_cases", kc["cases"])
    for d in kc["differences"][:3]:
        ctx.disagree("fake recvmsg vs the running kernel (control-message truncation)", d, d["kernel"], d["fake"])
    if kc["available"] and kc["ctrunc_v6_at_space24"] is False:
        ctx.disagree("MSG_CTRUNC for sockaddr_in6 in CMSG_SPACE(24)", "loopback probe", "flag not set", "c05_cmsg6_kernel_always_ctrunc")
    # (iii) the BSD way (ipfw.recv_udp, IP_RECVDSTADDR: a bare in_addr, level IPPROTO_IP): decoder-level lists — the
    # address item alone, behind / in front of items of OTHER levels (also ones whose type number is IP_RECVDSTADDR's:
    # a control message is identified by level AND type), and no address item at all (round l, C05-l).  Oracle on the
    # real function: the destination is that of the first (IPPROTO_IP, IP_RECVDSTADDR) item, port 53; None without one
    import random as _random
    import sshuttle.methods.ipfw as _ipfw
    _r = _random.Random(ctx.seed ^ 0x1f05)
    for _i in range(200 if ctx.quick() else 5000):
        want, anc = None, []
        for _j in range(_r.randint(0, 3)):
            if _r.random() < 0.45:
                ip = "%d.%d.%d.%d" % tuple(_r.randint(0, 255) for _ in range(4))
                anc.append((socket.SOL_IP, _ipfw.IP_RECVDSTADDR, socket.inet_aton(ip) + bytes(_r.choice([0, 0, 4]))))
                want = want or (ip, 53)
            else:
                lvl = _r.choice([socket.SOL_SOCKET, 0xffff, socket.IPPROTO_IPV6, socket.IPPROTO_UDP])
                typ = _r.choice([_ipfw.IP_RECVDSTADDR, _ipfw.IP_RECVDSTADDR, 2, 20, 74])
                anc.append((lvl, typ, bytes(_r.randint(0, 255) for _ in range(_r.choice([4, 8, 16])))))
        lst_ = FakeListener(socket.AF_INET, msg=(b"payload", anc))
        try:
            got = _ipfw.recv_udp(lst_, 4096)
        except Exception as e:       # noqa
            got = ("raised", type(e).__name__, str(e))
        ctx.count("ipfw_recv_udp_decoder_cases")
        if tuple(got) != (lst_.src, want, b"payload"):
            ctx.violation("ipfw.recv_udp does not return the destination of the (IPPROTO_IP, IP_RECVDSTADDR) control "
                          "message (an item of another level, or none, was taken for the address)",
                          {"control_messages": [[l_, t_, d_.hex()] for l_, t_, d_ in anc], "want": want, "got": repr(got)})
    nk, badk, notesk = dc.kernel_recv_udp_check()
    ctx.count("kernel_recv_udp_loopback_datagrams", nk)
    for d in badk:
        ctx.violation("tproxy.recv_udp on a real loopback datagram (running kernel, IP%s_RECVORIGDSTADDR) does not return the "
                      "destination the datagram was sent to" % ("V6" if d["family"] == socket.AF_INET6 else ""),
                      dict(d, oracle="real-kernel-recv-udp"))
    for n_ in kc["notes"] + notesk:
        ctx.notes.append(n_)
    for k in range(nk):
        ctx.case(("kernel-loopback-recv-udp", k), nontrivial=True)

    # ---- thorough: the modelled layouts against a real kernel --------------------------------
    if not quick:
        kernel_validation(ctx, world)
    ctx.programs = ctx.evaluations


# --------------------------------------------------------------------------
NETNS_SCRIPT = r'''
import json, os, socket, struct, subprocess, sys, time
sys.path.insert(0, os.environ.get("VERIF_REPO", "/repo"))
import sshuttle.methods as methods
import sshuttle.methods.tproxy as tproxy
def sh(c):
    return subprocess.run(c, shell=True, stdout=subprocess.PIPE, stderr=subprocess.STDOUT, timeout=20)
out = {"tcp": [], "udp": [], "errors": []}
for c in ("ip link set lo up", "ip route add 10.0.0.0/8 dev lo", "ip -6 route add 2001:db8::/32 dev lo",
          "iptables -t nat -A OUTPUT -p tcp -d 10.0.0.0/8 -j REDIRECT --to-ports 12300",
          "ip6tables -t nat -A OUTPUT -p tcp -d 2001:db8::/32 -j REDIRECT --to-ports 12301",
          "ip rule add fwmark 1 lookup 100", "ip route add local default dev lo table 100",
          "ip -6 rule add fwmark 1 lookup 100", "ip -6 route add local default dev lo table 100",
          "iptables -t mangle -A OUTPUT -p udp -d 10.0.0.0/8 -j MARK --set-mark 1",
          "iptables -t mangle -A PREROUTING -p udp -d 10.0.0.0/8 -j TPROXY --on-port 12302 --on-ip 127.0.0.1 --tproxy-mark 1",
          "ip6tables -t mangle -A OUTPUT -p udp -d 2001:db8::/32 -j MARK --set-mark 1",
          "ip6tables -t mangle -A PREROUTING -p udp -d 2001:db8::/32 -j TPROXY --on-port 12303 --on-ip ::1 --tproxy-mark 1"):
    r = sh(c)
    if r.returncode:
        out["errors"].append([c, r.stdout.decode()[-200:]])
dests = json.loads(sys.argv[1])
def tcp(fam, bindaddr, port, dst, dport):
    l = socket.socket(fam, socket.SOCK_STREAM); l.setsockopt(socket.SOL_SOCKET, socket.SO_REUSEADDR, 1)
    l.bind((bindaddr, port)); l.listen(8); l.settimeout(3)
    c = socket.socket(fam, socket.SOCK_STREAM); c.settimeout(3)
    try:
        c.connect((dst, dport))
        s, peer = l.accept()
        if fam == socket.AF_INET:
            raw = s.getsockopt(socket.SOL_IP, 80, 16)
        else:
            raw = s.getsockopt(41, 80, 64)
        got = methods.original_dst(s)
        out["tcp"].append({"fam": int(fam), "dst": dst, "port": dport, "raw": raw.hex(), "got": [got[0], got[1]]})
        s.close()
    except Exception as e:
        out["errors"].append(["tcp %s %s" % (dst, dport), repr(e)])
    finally:
        c.close(); l.close()
def udp(fam, bindaddr, port, dst, dport):
    l = socket.socket(fam, socket.SOCK_DGRAM); l.setsockopt(socket.SOL_SOCKET, socket.SO_REUSEADDR, 1)
    try:
        l.setsockopt(socket.SOL_IP, tproxy.IP_TRANSPARENT, 1)
        if fam == socket.AF_INET:
            l.setsockopt(socket.SOL_IP, tproxy.IP_RECVORIGDSTADDR, 1)
        else:
            l.setsockopt(41, 75, 1)      # IPV6_TRANSPARENT
            l.setsockopt(tproxy.SOL_IPV6, tproxy.IPV6_RECVORIGDSTADDR, 1)
        l.bind((bindaddr, port)); l.settimeout(3)
        c = socket.socket(fam, socket.SOCK_DGRAM); c.settimeout(3)
        c.sendto(b"probe,1", (dst, dport))
        # look at the raw control message first (MSG_PEEK), then let the real code decode it
        data, anc, flags, src = l.recvmsg(4096, socket.CMSG_SPACE(24), socket.MSG_PEEK)
        rawanc = [[a, b, bytes(d).hex()] for a, b, d in anc]
        src2, dstip, data2 = tproxy.recv_udp(l, 4096)
        out["udp"].append({"fam": int(fam), "dst": dst, "port": dport, "anc": rawanc, "flags": flags, "got": list(dstip) if dstip else None,
                           "data": data2.hex()})
        c.close()
    except Exception as e:
        out["errors"].append(["udp %s %s" % (dst, dport), repr(e)])
    finally:
        l.close()
for d in dests:
    if d[0] == 4:
        tcp(socket.AF_INET, "127.0.0.1", 12300, d[1], d[2]); udp(socket.AF_INET, "127.0.0.1", 12302, d[1], d[2])
    else:
        tcp(socket.AF_INET6, "::1", 12301, d[1], d[2]); udp(socket.AF_INET6, "::1", 12303, d[1], d[2])
print("RESULT " + json.dumps(out))
'''


def kernel_validation(ctx, world):
    rng = ctx.rng
    dests = [[4, "10.1.2.3", 8080], [4, "10.255.0.1", 0x1234], [4, "10.0.0.200", 65535], [4, "10.9.8.7", 258], [4, "10.200.100.50", 1],
             [6, "2001:db8::1", 8080], [6, "2001:db8:0:1::ffff", 0x1234], [6, "2001:db8:a:b:c:d:e:f", 65535], [6, "2001:db8:0:0:1::", 513],
             [6, "2001:db8:ffff:ffff:ffff:ffff:ffff:ffff", 443]]
    for _ in range(6):
        dests.append([4, "10.%d.%d.%d" % (rng.randrange(256), rng.randrange(256), rng.randrange(1, 255)), rng.randrange(1, 65536)])
        dests.append([6, str(ipaddress.IPv6Address(bytes.fromhex("20010db8") + bytes(rng.randrange(256) for _ in range(12)))), rng.randrange(1, 65536)])
    work = os.path.join(os.path.dirname(os.path.dirname(os.path.dirname(os.path.abspath(__file__)))), ".work")
    os.makedirs(work, exist_ok=True)
    script = os.path.join(work, "c05_netns.%d.py" % os.getpid())
    with open(script, "w") as f:
        f.write(NETNS_SCRIPT)
    try:
        p = subprocess.run(["timeout", "-k", "5", "150", "unshare", "-n", sys.executable, script, json.dumps(dests)],
                           stdout=subprocess.PIPE, stderr=subprocess.PIPE, timeout=180)
    except Exception as e:
        ctx.notes.append("kernel validation could not run: %r" % (e,))
        return
    finally:
        try:
            os.unlink(script)
        except OSError:
            pass
    res = None
    for ln in p.stdout.decode().split("\n"):
        if ln.startswith("RESULT "):
            res = json.loads(ln[7:])
    if res is None:
        ctx.notes.append("kernel validation produced no result (rc=%s): %s" % (p.returncode, p.stderr.decode()[-400:]))
        ctx.extra["kernel_validation"] = "unavailable"
        return
    ctx.extra["kernel_validation"] = {"tcp": len(res["tcp"]), "udp": len(res["udp"]), "errors": res["errors"][:6]}
    endian = "LE" if sys.byteorder == "little" else "BE"
    for t in res["tcp"]:
        fam = AF_INET if t["fam"] == socket.AF_INET else AF_INET6
        a = socket.inet_pton(t["fam"], t["dst"])
        raw = bytes.fromhex(t["raw"])
        if fam == AF_INET:
            model = ctx.run_driver(["SA4 %s %s %d" % (endian, hx(a), t["port"])])[0]
        else:
            model = ctx.run_driver(["SA6 %s %s %d %s %s" % (endian, hx(a), t["port"], hx(raw[4:8]), hx(raw[24:28]))])[0]
        ctx.case(("kernel-tcp", t["dst"], t["port"]), sample={"kind": "real kernel SO_ORIGINAL_DST", "dst": t["dst"], "port": t["port"], "raw": t["raw"]})
        ctx.count("kernel_so_original_dst_v%d" % (4 if fam == AF_INET else 6))
        # IPv4: nf_getorigdst sets the length to 16.  IPv6: ipv6_getorigdst copies the 28-byte sockaddr_in6 and
        # leaves the length at the 64 the caller passed: bytes 28..63 are whatever was in CPython's buffer.
        if fam == AF_INET6:
            ctx.extra["kernel_so_original_dst6_len"] = len(raw)
        if model != (t["raw"] if fam == AF_INET else t["raw"][:56]) or (fam == AF_INET6 and len(raw) not in (28, 64)):
            ctx.disagree("kernel sockaddr layout (SO_ORIGINAL_DST)", t, t["raw"], model)
        if pton(t["fam"], t["got"][0]) != a or t["got"][1] != t["port"]:
            ctx.violation("original_dst on a real redirected connection does not return the dialled destination", t)
    for u in res["udp"]:
        fam = AF_INET if u["fam"] == socket.AF_INET else AF_INET6
        a = socket.inet_pton(u["fam"], u["dst"])
        want = (0, 20) if fam == AF_INET else (41, 74)
        anc = [x for x in u["anc"] if (x[0], x[1]) == want]
        ctx.case(("kernel-udp", u["dst"], u["port"]), sample={"kind": "real kernel ORIGDSTADDR cmsg", "dst": u["dst"], "port": u["port"], "anc": u["anc"]})
        ctx.count("kernel_origdstaddr_v%d" % (4 if fam == AF_INET else 6))
        if len(anc) != 1:
            ctx.disagree("kernel control message present", u, u["anc"], "one %r message" % (want,))
            continue
        raw = bytes.fromhex(anc[0][2])
        if fam == AF_INET:
            model = ctx.run_driver(["SA4 %s %s %d" % (endian, hx(a), u["port"])])[0]
        else:
            full = unhx(ctx.run_driver(["SA6 %s %s %d %s 00000000" % (endian, hx(a), u["port"], hx(raw[4:8]))])[0])
            model = hx(full[:len(raw)])
            ctx.extra["kernel_cmsg6_len"] = len(raw)
        if model != hx(raw):
            ctx.disagree("kernel control message layout (ORIGDSTADDR)", u, hx(raw), model)
        if u["got"] is None or pton(u["fam"], u["got"][0]) != a or u["got"][1] != u["port"]:
            ctx.violation("tproxy.recv_udp on a real TPROXY datagram does not return the dialled destination", u)
    if not res["tcp"]:
        ctx.notes.append("kernel validation: no TCP probe succeeded: %r" % res["errors"][:4])
    if not res["udp"]:
        ctx.notes.append("kernel validation: no UDP/TPROXY probe succeeded: %r" % res["errors"][:4])


def replay(ctx, rp):
    """re-run a stored failing input against the real code; returns True if it still fails"""
    r = rp.get("replay", {})
    if r.get("oracle") == "udp-destinations":
        return dc.replay_c05_dgram(rp)
    if r.get("oracle") == "real-kernel-recv-udp":
        n, bad, notes = dc.kernel_recv_udp_check()
        print("real loopback datagrams: %d checked ->" % n, bad, notes)
        return bool(bad)
    world = World()
    if r.get("oracle") == "pf-session":
        res = run_pf_session(world, r["history"], r.get("proxy_port", 12300))
        for t in res["trace"]:
            print("  ", t)
        print("property failures:", pf_session_what(res["failures"]) if res["failures"] else "none")
        return bool(res["failures"])
    if "connect_payload" in r:
        payload = r["connect_payload"].encode("ascii")
        text, port = r["dialled"]
        is_v6 = ":" in text
        log = observe_connect(world, payload)
        fails = connect_failures(log, is_v6, text, port, socket.inet_pton(socket.AF_INET6 if is_v6 else socket.AF_INET, text))
        print("CONNECT %r (%s client) -> server: %s" % (r["connect_payload"], r.get("client_platform"), json.dumps(log)))
        print("property failures:", fails)
        return bool(fails)
    if "layout" in r:
        fam = r["family"]
        a = unhx(r["addr"])
        sock = FakeSock(fam, unhx(r["layout"]), ("127.0.0.1", 1))
        try:
            ip, port = world.methods.original_dst(sock)[:2]
        except Exception as e:
            print("original_dst raised", repr(e))
            return True
        print("original_dst ->", ip, port)
        return pton(socket.AF_INET if fam == AF_INET else socket.AF_INET6, ip) != a or port != r["port"]
    if "cmsg" in r:
        fam = r["family"]
        a = unhx(r["addr"])
        old = be_patch(world.tproxy) if r.get("endian") == "BE" else None
        try:
            lvl, typ = (0, 20) if fam == AF_INET else (41, 74)
            try:
                lst = FakeListener(fam, msg=(b"x", [(lvl, typ, unhx(r["cmsg"]))]), kernel=bool(r.get("kernel_like_socket")))
                src, dst, data = world.tproxy.recv_udp(lst, 4096)
                print("recvmsg(4096, %r) delivered %r" % (lst.anc_asked, lst.delivered[1:3]))
            except Exception as e:
                print("recv_udp raised", repr(e))
                return True
            print("recv_udp ->", dst)
            return dst is None or pton(socket.AF_INET if fam == AF_INET else socket.AF_INET6, dst[0]) != a or dst[1] != r["port"]
        finally:
            if old:
                world.tproxy.struct, world.tproxy.socket = old
    if "payload" in r and "got" in r:
        got = run_new_channel(world, unhx(r["payload"]))
        print("new_channel ->", got)
        return not got.startswith("OK ")
    print("nothing replayable in", rp.get("kind"), "- re-run ./check C05")
    return False


if __name__ == "__main__":
    sys.path.insert(0, os.path.join(os.path.dirname(os.path.abspath(__file__)), ".."))
    import framework
    sys.exit(framework.main(sys.modules[__name__]))
