"""C18 — the remote end runs the client's own code with the client's options.

Correspondence (all against the REAL code in $VERIF_REPO, nothing copied):
  A  primitives: b'%d' / int(readline()) / bytes.strip() as used by empackage and assembler.py
  B  the real ssh.connect (Popen and socketpair replaced from outside; `zlib` replaced by a stand-in
     codec; the REAL get_module_source / empackage run: the generated module sources are real files in
     a scratch directory and only the lookup `importlib.util.find_spec`, as seen from sshuttle.ssh, is
     redirected to specs whose origin points there) -> the two wfile.write() payloads and the
     bootstrap one-liner are compared BYTE FOR BYTE with the model's connect_upload / boot_read_len on
     the bytes of those files; implementation-only oracle: the N of `stdin.read(N)` is the number of
     BYTES of the assembler file, and exactly those bytes are written first
  C  the REAL bootstrap: argv produced by the real ssh.connect is run in a fresh interpreter whose
     only addition is a sitecustomize prelude (audit hook logging every compile/exec, a finder that
     refuses to import sshuttle.* from disk, an exit hook dumping sshuttle.cmdline_options); the
     upload produced by the real ssh.connect is fed through a socket in many segmentations;
     module names / lengths / sha256 seen by the remote compile() are compared with what the client
     packaged and with the model's remote_run on the model's own upload (real zlib: contents after
     decompression are compared; stand-in zlib: the same bytes and the same cutting on both sides)
  D  the real client._main up to its first runonce, on the real ssh.connect with scripted socket
     I/O: order of pipe writes / queued frames / sync verification vs the model's client_startup; implementation-only
     oracle on every run: 'Connected to server.' <=> ssh alive and the 12 bytes after the second NUL of the server's output
     are exactly SSHUTTLE0001 (stream-level specification = extracted hs_spec, theorem c18_connected_iff_announced), incl.
     outputs that END after 0..11 bytes of the announcement / before the second NUL while ssh is still alive
  E  stdout of the really bootstrapped real server starts with the model's server_sync.
  F  -r given: the argv the REAL ssh.connect builds (rhostport, --python, --ssh-cmd, --no-cmd-delimiter, --remote-shell) is
     started for real on a stand-in `ssh`/`sshpass` whose remote side hands the joined command string to a REAL login
     shell (dash and bash) on hosts holding python3+python / one of them / a python3 whose -V fails / none; observed: which
     interpreter the shells start and with which argv (must be -c + the bootstrap program, unchanged); cmd / powershell
     command lines are split by spec-side readers; the remote command is compared byte for byte with the model's pycmd
     (Model/ShQuote.v) and the model's sh_words with shlex.split; half of part C's real-server runs go through this path.
  G  completeness of the uploaded program (implementation-only oracles, no model): for every combination of auto_hosts x seed
     hosts given/absent x auto_nets x latency control the upload written by the REAL ssh.connect is (static) read back and every
     import of sshuttle code found with `ast` in the uploaded sources and in the assembler -- function-level ones included -- must
     name an uploaded module (module-level ones: an EARLIER one), and (probe) is assembled by the REAL assembler in a fresh
     interpreter, the handshake is performed and the really running server is sent each kind of message the client opens a
     conversation with (CMD_PING, CMD_TCP_CONNECT to a closed port, CMD_DNS_REQ, CMD_UDP_OPEN/DATA/CLOSE, CMD_HOST_REQ with the
     seed hosts joined as client.py:823 does) each followed by a CMD_PING whose CMD_PONG must come back; it must have announced
     CMD_ROUTES, still be alive at the end and have printed no import failure.
  H  the client is a win32 one (part of C's case list): the REAL ssh.connect runs down its win32 branch -- sshuttle.ssh and
     sshuttle.helpers see sys.platform == 'win32', Popen (as sshuttle.ssh sees it) is a stand-in whose stdin is a RAW writer that
     takes 1 byte / at most 1000, 4096, 16383 bytes / a random part / everything but for one interrupted write / everything of
     what each write() offers and returns that number (io.RawIOBase.write on a pipe), whose stdout is a raw reader over a real
     pipe (full / short / 7-byte reads) -- so that the upload crosses the REAL helpers.SocketRWShim (its own socketpair and
     threads).  Implementation-only oracle: the bytes arriving on ssh's stdin are byte for byte the start-up upload (the two
     payloads connect wrote to the relay's socket file; the same two the non-win32 branch writes for the same table and
     options) for every segmentation of the pipe writes, within a watchdog limit; the server's announcement written to the
     stdout pipe is read back from connect's rfile; the bytes that ARRIVED, cut as the pipe took them, are then fed to the
     real bootstrap and go through every oracle of part C."""
import hashlib
import importlib.machinery
import importlib.util
import io
import json
import os
import random
import re
import select
import shutil
import socket
import subprocess
import sys
import tempfile
import threading
import time
import types

PROP = "C18"
RULE = ("module tables x option sets x segmentations: real and generated module sources (empty, 1 byte, ASCII code, arbitrary "
        "UTF-8, > 64 KiB incompressible, > 1 MiB; at least a quarter of the tables carry non-ASCII UTF-8 text in EVERY module and in "
        "the assembler source — the real assembler with comment lines of 2-, 3- and 4-byte characters inserted at a line boundary), option values among bool/int/None/resolver strings (plus out-of-fragment "
        "strings checked by the implementation-only oracle), uploads cut whole / 1-byte dribble / fixed 2..70000 / random / exactly "
        "at and one byte around every framing boundary, malformed uploads (truncated, bad length line, non-ASCII name, unknown "
        "parent, early blank name, trailing bytes); remote command lines: destination forms x --python (none, name, path with blanks) x "
        "--ssh-cmd forms x delimiter on/off x remote shell (posix/cmd/powershell) x verbosity x assembler length x remote host kinds "
        "(python3+python, python3 only, python only, python3 -V failing, none) x login shell (dash, bash); completeness of the uploaded program: "
        "auto_hosts x seed hosts (absent / empty because of -H / one or two names) x auto_nets x latency control, each both read back statically "
        "(imports vs uploaded modules) and assembled + probed with every message kind the client sends first on a channel; win32 client: shipped sources (with and without non-ASCII assembler) and generated tables (tiny .. > 1 MiB, both codecs) x what ssh's raw stdin pipe "
        "takes per write() behind the real helpers.SocketRWShim (everything / 1 byte / at most 1000, 4096, 16383 / a random part of each / one interrupted write) "
        "x how ssh's raw stdout pipe reads (full / short / 7 bytes), the arrived bytes cut exactly as the pipe took them; "
        "a case is non-trivial when at least one module body crosses a piece boundary "
        "or the stream is malformed; distinct by (table hash, options, cutting)")
TRUSTED_BASE = [
    "zlib: NOT verified — Section hypothesis `sync_flush_law` (decompressing compress(x)+flush(Z_SYNC_FLUSH) of the k-th chunk on the shared stream yields exactly x); exercised with real zlib in part C",
    "modelled, not verified: io.BufferedReader.read(n)/readline() (exactly n bytes / through the first newline unless EOF), bytes.strip(), int(bytes) for digit strings, b'%d', repr/exec of bool/int/None and of printable-ASCII strings without quote/backslash, str.rsplit('.',1), sys.modules lookup",
    "compile()/exec() of a module body and types.ModuleType are opaque: the model records (name, source bytes) at the point where assembler.py calls compile()",
    "harness: fake Popen / socketpair shim / stand-in zlib module / sitecustomize prelude in a scratch directory (the one-liner and assembler.py themselves run unmodified); "
    "module sources are files in a scratch directory found through a redirected importlib.util.find_spec (get_module_source, empackage and connect run unmodified); "
    "a non-ASCII assembler source is the real assembler.py plus comment lines",
    "remote command lines: stand-in ssh / sshpass / interpreter programs (sh scripts in a scratch directory: option parsing and the joining of command words as OpenSSH does it; "
    "the remote login shell and /bin/sh are the real dash and bash); cmd.exe and PowerShell word splitting are small spec-side readers in harness/props/c18.py (double quotes / backtick escapes only)",
    "completeness probe (part G): a spec-side reader of the upload stream (name line, length line, zlib chunk on one shared stream) and of the multiplexer framing "
    "('!ccHHH' header; command numbers, HDR_LEN and names are taken from the client's own sshuttle.ssnet), a datagram socket of the harness standing in for the "
    "name server / datagram peer and a bound, non-listening TCP port as the closed port, all on 127.0.0.1; `ast` for finding import statements "
    "(imports made through importlib / __import__ / exec of strings are not seen by the static oracle — the probe is the only witness for those)",
    "win32 client cases: `sys` as seen by sshuttle.ssh / sshuttle.helpers is a proxy answering platform == 'win32' (helpers' one also collects what the relay threads "
    "print to stderr); the ssh process is a stand-in Popen that honours stdin/stdout=PIPE and bufsize the way subprocess does (bufsize=0: raw files; otherwise "
    "io.BufferedWriter/Reader around them) -- its stdin is an io.RawIOBase whose write() takes a scripted 1..len(data) bytes and returns the count, its stdout an "
    "io.RawIOBase over a real os.pipe; helpers.SocketRWShim, its socketpair and its two threads are the real ones (the harness only remembers the instance, through "
    "the name sshuttle.ssh.SocketRWShim, to end and join the threads, and passes connect's write file through a recorder); the relay runs on this kernel's AF_UNIX "
    "socketpair, not on Windows' emulation; watchdog: 15 s without a byte arriving while bytes are missing, 180 s in all",
    "modelled, not verified: the POSIX shell's quoting rules (XCU 2.2) for the fragment blanks / single quotes / double quotes / backslash (Model/ShQuote.v sh_scan; compared with shlex.split and exercised against dash and bash on every run)",
]
ASSUMPTIONS = [
    "a blocking wfile.write() on the ssh socket transfers the whole buffer (ssh.connect ignores the return value); on a win32 client the socket is the relay's "
    "(helpers.SocketRWShim) and the same is assumed of it -- a case in which the kernel took less is counted and not judged",
    "win32 client: a write() on ssh's raw stdin pipe takes at least one byte and reports honestly how many (blocking pipe: never 0 / None, no error); "
    "ssh itself passes its stdin on unchanged",
    "get_module_source opens module files in text mode: byte identity holds for LF-terminated valid UTF-8 sources under a UTF-8 locale (CRLF would be normalised to LF)",
    "module sources are valid Python for the remote interpreter and execute without raising (otherwise the assembler stops at that module)",
    "module names passed to empackage are ASCII, newline-free, non-blank and unchanged by strip(); parents precede children",
    "ssh/sshd and the remote shell deliver the client's bytes unchanged and in order (8-bit clean pipe)",
    "completeness probe: the remote host can resolve/bind 127.0.0.1, fork, and has the tools list_routes / hostwatch call or tolerates their absence as the shipped code does; "
    "only the FIRST reaction to each message kind is observed (the CMD_PONG behind it; CMD_TCP_EOF/STOP_SENDING for the refused connection, the request reaching to_nameserver and one "
    "CMD_DNS_RESPONSE, the datagram leaving the server; the process alive ~0.5 s and three answered pings after CMD_HOST_REQ), not what the host watcher later reports",
    "repr(str) is modelled only for printable ASCII without ' and \\ (covers to_nameserver = '<numeric address>@<port>'); other strings are checked on the implementation only; ints beyond CPython's 4300-digit str limit are out of scope",
]

REPO = os.environ.get("VERIF_REPO", "/repo")
MODNAMES = ["sshuttle", "sshuttle.cmdline_options", "sshuttle.helpers", "sshuttle.ssnet",
            "sshuttle.hostwatch", "sshuttle.server"]
SRCNAMES = ["sshuttle.assembler", "sshuttle", "sshuttle.helpers", "sshuttle.ssnet", "sshuttle.hostwatch",
            "sshuttle.server"]
OPTKEYS = ["latency_control", "latency_buffer_size", "auto_hosts", "to_nameserver", "auto_nets"]
MODEL_MAX = 4000000         # bytes of module source handed to the extracted model in one case

STUB_ZLIB = r'''
# stand-in codec.  The only law the proofs assume of zlib is the sync-flush law: after
# compress(x) + flush(Z_SYNC_FLUSH) (or Z_FULL_FLUSH / Z_FINISH) the decompressor can produce all of x
# from exactly those bytes.  Every other flush mode gives NO such guarantee (real zlib holds back up to
# 7 bits with Z_BLOCK, arbitrary amounts with Z_NO_FLUSH): the stand-in then holds back the last byte of
# the chunk and emits it at the head of the next one, which is the least a caller must be prepared for.
Z_NO_FLUSH, Z_PARTIAL_FLUSH, Z_SYNC_FLUSH, Z_FULL_FLUSH, Z_FINISH, Z_BLOCK = 0, 1, 2, 3, 4, 5
Z_DEFAULT_COMPRESSION, Z_BEST_SPEED, Z_BEST_COMPRESSION, DEFLATED, MAX_WBITS = -1, 1, 9, 8, 15
class error(Exception):
    pass
class _C(object):
    def __init__(self):
        self.n = 0
        self.held = b''
        self.cur = b''
    def compress(self, d):
        self.cur += bytes(d)
        return b''
    def flush(self, mode=4):
        d, self.cur = self.held + self.cur, b''
        self.held = b''
        if mode not in (2, 3, 4):
            d, self.held = d[:-1], d[-1:]
        out = bytes(bytearray([self.n % 251])) + d + b'\xff'
        self.n += 1
        return out
class _D(object):
    def __init__(self):
        self.n = 0
    def decompress(self, c, max_length=0):
        c = bytes(c)
        if len(c) >= 2 and bytearray(c)[0] == self.n % 251 and bytearray(c)[-1] == 255:
            self.n += 1
            return c[1:-1]
        return b''
def compressobj(level=-1, *a, **k):
    return _C()
def decompressobj(*a, **k):
    return _D()
'''

PRELUDE = r'''# prelude installed by harness/props/c18.py (scratch dir on the child's PYTHONPATH)
import sys, os
_log = os.environ.get('C18_LOG')
if _log:
    import json, hashlib, atexit
    _f = open(_log, 'a')
    _st = {'busy': False, 'opts': False}

    def _w(o):
        _f.write(json.dumps(o) + '\n')
        _f.flush()

    def _dump():
        m = sys.modules.get('sshuttle.cmdline_options')
        if m is not None and not _st['opts']:
            _st['opts'] = True
            _w({'ev': 'options', 'vals': [[k, type(v).__name__, repr(v)] for k, v in vars(m).items()
                                          if not k.startswith('__')]})

    # what server.main puts into EFFECT (C18_EFFECT=1): the frame of sshuttle.server.main is found by a profile function
    # (removed at once); at the server's first outgoing connect and at exit, the values main holds then and the read size /
    # fullness limit the multiplexer really uses (sshuttle.ssnet.LATENCY_BUFFER_SIZE) are written to the log
    _eff = {'frame': None, 'done': False}

    def _argnames(co):
        return co.co_varnames[:co.co_argcount]

    def _prof(frame, event, arg):
        if event == 'call':
            co = frame.f_code
            if co.co_name == 'main' and 'latency_buffer_size' in _argnames(co):
                _eff['frame'] = frame
                _eff['args'] = dict((k, repr(frame.f_locals.get(k))) for k in _argnames(co))
                sys.setprofile(None)

    def _effect(when):
        fr = _eff['frame']
        if fr is None or _eff['done']:
            return
        _eff['done'] = True
        m = sys.modules.get('sshuttle.ssnet')
        _w({'ev': 'effect', 'when': when, 'pid': os.getpid(), 'main_args': _eff['args'],
            'main_now': dict((k, repr(fr.f_locals.get(k))) for k in _argnames(fr.f_code)),
            'ssnet_LATENCY_BUFFER_SIZE': repr(getattr(m, 'LATENCY_BUFFER_SIZE', None))})

    def _hook(ev, args):
        if ev == 'socket.connect' and _eff['frame'] is not None and not _eff['done'] and not _st['busy']:
            _st['busy'] = True
            try:
                _effect('first outgoing connect')
            finally:
                _st['busy'] = False
            return
        if _st['busy'] or ev not in ('compile', 'exec'):
            return
        _st['busy'] = True
        try:
            if ev == 'compile':
                src, fn = args[0], args[1]
                if src is None:
                    return
                b = src.encode('utf-8', 'surrogatepass') if isinstance(src, str) else bytes(src)
                _w({'ev': 'compile', 'filename': fn if isinstance(fn, str) else repr(fn), 'len': len(b),
                    'sha': hashlib.sha256(b).hexdigest(), 'type': type(src).__name__})
                _dump()
            else:
                _w({'ev': 'exec', 'filename': getattr(args[0], 'co_filename', '?')})
        finally:
            _st['busy'] = False

    class _Block(object):
        @staticmethod
        def find_spec(name, path=None, target=None):
            if name == 'sshuttle' or name.startswith('sshuttle.'):
                _w({'ev': 'diskimport', 'name': name})
                raise ImportError('C18 harness: %s must come from the upload' % name)
            return None

    def _final():
        _dump()
        _effect('exit')
        _w({'ev': 'modules', 'names': [k for k in sys.modules if getattr(sys.modules[k], '__c18__', 0)
                                       or k.split('.')[0] == 'sshuttle'],
            'files': sorted(set(str(getattr(sys.modules[k], '__file__', None)) for k in sys.modules
                                if k.split('.')[0] == 'sshuttle'))})

    if os.environ.get('C18_FAKE_ZLIB'):
        import types
        _z = types.ModuleType('zlib')
        exec(os.environ['C18_FAKE_ZLIB'], _z.__dict__)
        sys.modules['zlib'] = _z
    sys.meta_path.insert(0, _Block)
    atexit.register(_final)
    sys.addaudithook(_hook)
    if os.environ.get('C18_EFFECT'):
        sys.setprofile(_prof)
'''

SERVER_STUB = (b"def main(*args):\n"
               b"    import sys, hashlib, __main__\n"
               b"    left = __main__.stdin.read()\n"
               b"    sys.stdout.write('C18MARK %r %d %s\\n' % (args, len(left), hashlib.sha256(left).hexdigest()))\n"
               b"    sys.stdout.flush()\n")


def hx(b):
    return bytes(b).hex() if b else "-"


def unhx(s):
    return b"" if s == "-" else bytes.fromhex(s)


def numhex(n):
    return hx(b"%d" % n)


def sha(b):
    return hashlib.sha256(bytes(b)).hexdigest()


# ---------------------------------------------------------------------------
# running the real ssh.connect inside a simulated process/socket boundary

class RecSock(socket.socket):
    """s2 of ssh.connect's socketpair: records every send() and serves scripted recv_into()"""
    rec = None
    script = None
    send_script = None
    events = None

    def send(self, data, *a):
        data = bytes(data)
        if self.send_script:
            k = self.send_script.pop(0)
            if k is None:
                raise BlockingIOError(11, "scripted EAGAIN")
            data = data[:k]
        self.rec.append(data)
        if self.events is not None:
            self.events.append("W:" + hx(data))
        return len(data)

    consumed = 0

    def recv_into(self, buf, *a):
        if not self.script:
            return 0
        c = self.script[0]
        n = min(len(buf), len(c))
        self.consumed += n
        buf[:n] = c[:n]
        if n == len(c):
            self.script.pop(0)
        else:
            self.script[0] = c[n:]
        return n


class FakePopen(object):
    def __init__(self, argv, stdin=None, stdout=None, **kw):
        self.argv = list(argv)
        self.kw = kw
        self.pid = 4242
        self.keep = os.dup(stdin)      # keep the peer end open (no EOF/EPIPE on s2)
        self.rv = None

    def poll(self):
        return self.rv

    def close(self):
        if self.keep is not None:
            os.close(self.keep)
            self.keep = None


# ---- the win32 branch of ssh.connect: ssh is started with stdin=PIPE, stdout=PIPE, bufsize=0, i.e. p.stdin / p.stdout
# are RAW files, and helpers.SocketRWShim relays between them and the socket the client writes the upload to.

WIN32_WRITE_MODES = ["whole", "one", "cap4096", "cap1000", "cap16383", "random", "once"]   # (the relay offers at most 16384 at a time)
RELAY_LIMIT = 180.0         # s: the relay has this long to deliver an upload (watchdog; far above anything seen)
RELAY_STALL = 15.0          # s without a single byte arriving while bytes are still missing


class SysAs(object):
    """the `sys` module as one sshuttle module sees it: every attribute is the real one except those given"""

    def __init__(self, **over):
        self.__dict__.update(over)

    def __getattr__(self, k):
        return getattr(sys, k)


class ScriptedPipeW(io.RawIOBase):
    """write end of ssh's stdin pipe as Popen(bufsize=0) hands it out: a raw file whose write() takes between 1 and
    len(data) bytes -- as scripted -- and returns the number taken, like io.FileIO.write on a blocking pipe"""

    def __init__(self, mode, seed):
        io.RawIOBase.__init__(self)
        self.mode, self.rng = mode, random.Random(seed)
        self.got = bytearray()
        self.chunks = []            # the accepted pieces, in order (the segmentation ssh's stdin sees)
        self.calls = 0
        self.short = 0
        self.first_short = None
        self.head = []              # (offered, taken) of the first calls
        self.once_at = self.rng.randint(1, 3)
        self.lock = threading.Lock()

    def writable(self):
        return True

    def take(self, n):
        m = self.mode
        if m == "whole" or n <= 1:
            return n
        if m == "one":
            return 1
        if m.startswith("cap"):
            return min(n, int(m[3:]))
        if m == "once":                 # a single interrupted write, everything else is taken whole
            return n // 2 if self.calls == self.once_at else n
        r = self.rng
        return n if r.random() < 0.1 else r.choice([1, r.randint(1, n), r.randint(1, n), r.randint(1, min(n, 4096)), n - 1])

    def write(self, data):
        data = bytes(data)
        with self.lock:
            self.calls += 1
            k = self.take(len(data))
            if k < len(data):
                self.short += 1
                if self.first_short is None:
                    self.first_short = {"write_call": self.calls, "at_stream_offset": len(self.got), "offered": len(data), "taken": k}
            if len(self.head) < 24:
                self.head.append((len(data), k))
            if k:
                self.got += data[:k]
                self.chunks.append(data[:k])
        return k

    def snapshot(self):
        with self.lock:
            return bytes(self.got)

    def arrived(self):
        with self.lock:
            return len(self.got)


class ScriptedPipeR(io.RawIOBase):
    """read end of ssh's stdout pipe (raw): returns what is there, possibly fewer bytes than asked; b'' at end of stream"""

    def __init__(self, fd, mode, seed):
        io.RawIOBase.__init__(self)
        self.fd, self.mode, self.rng = fd, mode, random.Random(seed)

    def readable(self):
        return True

    def fileno(self):
        return self.fd

    def read(self, n=-1):
        if n is None or n < 0:
            n = 65536
        if self.mode == "short":
            n = self.rng.randint(1, max(1, n))
        elif self.mode == "cap7":
            n = min(n, 7)
        return os.read(self.fd, n)

    def readinto(self, b):
        d = self.read(len(b))
        b[:len(d)] = d
        return len(d)

    def close(self):
        if self.fd is not None:
            try:
                os.close(self.fd)
            except OSError:
                pass
            self.fd = None
        io.RawIOBase.close(self)


class WinPopen(object):
    """ssh as subprocess.Popen presents it when started with pipes: .stdin / .stdout are raw files for bufsize=0 and
    buffered ones otherwise (None where no PIPE was asked for)"""

    def __init__(self, argv, spec, stdin=None, stdout=None, bufsize=-1, **kw):
        self.argv = list(argv)
        self.kw = dict(kw, stdin=stdin, stdout=stdout, bufsize=bufsize)
        self.pid = 4242
        self.rv = None
        self.terminated = 0
        self.pipe_w = ScriptedPipeW(spec["write_mode"], spec["case_seed"] ^ 0x5151)
        r, self.out_w = os.pipe()
        self.pipe_r = ScriptedPipeR(r, spec.get("read_mode", "full"), spec["case_seed"] ^ 0x1717)
        size = bufsize if bufsize and bufsize > 0 else io.DEFAULT_BUFFER_SIZE
        self.stdin = None if stdin != subprocess.PIPE else self.pipe_w if bufsize == 0 else io.BufferedWriter(self.pipe_w, size)
        self.stdout = None if stdout != subprocess.PIPE else self.pipe_r if bufsize == 0 else io.BufferedReader(self.pipe_r, size)

    def poll(self):
        return self.rv

    def terminate(self):
        self.terminated += 1

    def close_out(self):
        if self.out_w is not None:
            os.close(self.out_w)
            self.out_w = None

    def close(self):
        self.close_out()
        self.pipe_r.close()


class RecW(object):
    """the write file ssh.connect gets from the relay, passing everything through; remembers what it was handed"""

    def __init__(self, f, handed):
        self.f, self.handed = f, handed

    def write(self, data):
        self.handed.append((bytes(data), None))
        n = self.f.write(data)
        self.handed[-1] = (bytes(data), n)
        return n

    def __getattr__(self, k):
        return getattr(self.f, k)


class Boundary(object):
    """installs the simulated boundary around sshuttle.ssh; use as a context manager"""

    def __init__(self, srcs=None, stub_zlib=False, verbose=0, bindir=None, win32=None):
        self.srcs = srcs
        self.win32 = win32          # None, or the pipe script: sshuttle.ssh and sshuttle.helpers then see sys.platform == 'win32'
        self.shim = None            # the real helpers.SocketRWShim ssh.connect built (win32)
        self.relay_threads = []
        self.files = None
        self.handed = []            # (bytes, return value) of every write() ssh.connect made on the relay's write file
        self.relay_stderr = io.StringIO()
        self.stub_zlib = stub_zlib
        self.verbose = verbose
        self.bindir = bindir        # directory holding the stand-in `ssh` / `sshpass` programs (remote cases)
        self.sshpass = None         # SSHPASS as the started process would inherit it
        self.packaged = []          # (name, bytes of the file the real get_module_source was pointed at), in lookup order
        self.sock = None
        self.proc = None
        self.events = []
        self.srcdir = None
        self.paths = {}

    def __enter__(self):
        import sshuttle.ssh as ssh
        import sshuttle.helpers as helpers
        self.ssh, self.helpers = ssh, helpers
        self.old = (ssh.ssubprocess, ssh.importlib, ssh.socket, ssh.zlib, helpers.verbose, helpers.log)
        self.old_env = (os.environ.get("PATH"), os.environ.get("SSHPASS"))
        os.environ.pop("SSHPASS", None)
        if self.bindir:
            os.environ["PATH"] = self.bindir + os.pathsep + (self.old_env[0] or "")
        helpers.log = lambda s: None
        me = self
        # the module sources of this table as real files; the REAL get_module_source reads them
        if self.srcs:
            self.srcdir = tempfile.mkdtemp(prefix="c18-src-")
            for name, data in self.srcs.items():
                path = os.path.join(self.srcdir, name + ".py")
                with open(path, "wb") as f:
                    f.write(data)
                self.paths[name] = path
        real_importlib = ssh.importlib

        def find_spec(name, package=None):
            if name in me.paths:
                spec = importlib.machinery.ModuleSpec(name, None, origin=me.paths[name])
                spec.has_location = True
            else:
                spec = importlib.util.find_spec(name, package)
            with open(spec.origin, "rb") as f:       # the spec side: the bytes present on the client
                me.packaged.append((name, f.read()))
            return spec

        class UtilShim(object):
            def __getattr__(self, k):
                return getattr(importlib.util, k)
        util = UtilShim()
        util.find_spec = find_spec

        class ImportlibShim(object):
            def __getattr__(self, k):
                return getattr(real_importlib, k)
        shim = ImportlibShim()
        shim.util = util

        def popen(argv, **kw):
            me.sshpass = os.environ.get("SSHPASS")       # no env= in the call: the child inherits os.environ
            me.proc = WinPopen(argv, me.win32, **kw) if me.win32 else FakePopen(argv, **kw)
            return me.proc

        def socketpair():
            a, b = socket.socketpair()
            s2 = RecSock(fileno=b.detach())
            s2.rec, s2.script, s2.send_script, s2.events = [], [], [], me.events
            me.sock = s2
            return a, s2
        ssh.ssubprocess = types.SimpleNamespace(Popen=popen, PIPE=subprocess.PIPE)
        ssh.importlib = shim
        ssh.socket = types.SimpleNamespace(socketpair=socketpair)
        if self.stub_zlib:
            z = types.ModuleType("zlib")
            exec(STUB_ZLIB, z.__dict__)
            ssh.zlib = z
        helpers.verbose = self.verbose
        self.old_w = None
        if self.win32:
            self.old_w = (ssh.sys, ssh.SocketRWShim, helpers.sys)
            real_shim = ssh.SocketRWShim

            class ShimFiles(object):
                def __init__(self, sh):
                    self.sh = sh

                def makefiles(self):
                    r, w = self.sh.makefiles()
                    me.files = (r, w)
                    return r, RecW(w, me.handed)

                def __getattr__(self, k):
                    return getattr(self.sh, k)

            def make_shim(*a, **kw):
                before = set(threading.enumerate())
                me.shim = real_shim(*a, **kw)           # the real relay, unmodified; only remembered for the end of the case
                me.relay_threads = [t for t in threading.enumerate() if t not in before]
                return ShimFiles(me.shim)
            ssh.sys = SysAs(platform="win32")
            helpers.sys = SysAs(platform="win32", stderr=self.relay_stderr)     # the relay threads report there
            ssh.SocketRWShim = make_shim
        return self

    def __exit__(self, *a):
        ssh, helpers = self.ssh, self.helpers
        (ssh.ssubprocess, ssh.importlib, ssh.socket, ssh.zlib, helpers.verbose, helpers.log) = self.old
        if self.old_w is not None:
            ssh.sys, ssh.SocketRWShim, helpers.sys = self.old_w
        for k, v in zip(("PATH", "SSHPASS"), self.old_env):
            if v is None:
                os.environ.pop(k, None)
            else:
                os.environ[k] = v
        if self.srcdir is not None:
            shutil.rmtree(self.srcdir, ignore_errors=True)
        if self.proc is not None:
            self.proc.close()
        if self.sock is not None:
            try:
                self.sock.close()
            except OSError:
                pass


def real_connect(options, srcs=None, stub_zlib=False, verbose=0, remote=None, bindir=None):
    """-> (argv, [write payloads], packaged [(name, data)]) from the real ssh.connect.
    remote = None (no -r: the server is started locally) or dict(rhostport, python, ssh_cmd, delim, shell):
    the arguments client._main passes on from the command line; real_connect.sshpass is then the SSHPASS
    value the started process would have inherited"""
    with Boundary(srcs, stub_zlib, verbose, bindir) as bd:
        r = remote or {}
        p, rfile, wfile = bd.ssh.connect(r.get("ssh_cmd"), r.get("rhostport"), r.get("python"), None,
                                         bool(r.get("delim", False)), r.get("shell"), options)
        rfile.close()
        wfile.close()
        real_connect.sshpass = bd.sshpass
        return bd.proc.argv, list(bd.sock.rec), list(bd.packaged)


def win32_connect(options, srcs, stub_zlib, verbose, spec, announce=b""):
    """the REAL ssh.connect down its win32 branch (sshuttle.ssh and sshuttle.helpers see sys.platform == 'win32'): Popen is
    WinPopen (raw stdin taking scripted short writes, raw stdout), the relay is the real helpers.SocketRWShim with its real
    threads and a real socketpair.  connect runs in a thread of its own and every wait is bounded, so a relay that stops
    taking or delivering bytes is observed instead of hanging the check.  `announce` is then written to ssh's stdout pipe
    and read back from the rfile connect returned.  -> observations (dict)"""
    import traceback
    obs = {"blocked": False, "exc": None, "announce_back": None}
    with Boundary(srcs, stub_zlib, verbose, win32=spec) as bd:
        box = {}

        def run():
            try:
                box["ret"] = bd.ssh.connect(None, None, None, None, False, None, options)
            except BaseException:
                box["exc"] = traceback.format_exc()
        t = threading.Thread(target=run, daemon=True, name="c18-win32-connect")
        t0 = time.time()
        t.start()
        # connect's blocking writes on the relay socket only return while the relay keeps taking bytes off it
        last, last_t = -1, None
        while t.is_alive():
            t.join(0.01)
            now = time.time()
            if bd.proc is not None:
                n = bd.proc.pipe_w.arrived()
                if n != last or last_t is None:
                    last, last_t = n, now
                if now - last_t > 2 * RELAY_STALL:
                    break
            if now - t0 > RELAY_LIMIT:
                break
        if t.is_alive():
            obs["blocked"] = True
            s1 = getattr(bd.shim, "_s1", None)
            if s1 is not None:
                try:
                    s1.shutdown(socket.SHUT_RDWR)        # lets the blocked write (and the relay's recv) return
                except OSError:
                    pass
            t.join(10)
        obs["exc"] = box.get("exc")
        p = bd.proc
        handed = list(bd.handed)
        sent = b"".join(d for d, _ in handed)
        obs["short_send"] = any(n is not None and n != len(d) for d, n in handed)
        if p is not None and not obs["blocked"]:
            # the upload is on its way: wait until ssh's stdin has as many bytes as were handed over, or nothing moves any more
            last, last_t = -1, time.time()
            while True:
                n, now = p.pipe_w.arrived(), time.time()
                if n >= len(sent):
                    break
                if n != last:
                    last, last_t = n, now
                elif now - last_t > RELAY_STALL or now - t0 > RELAY_LIMIT:
                    break
                if bd.relay_threads and not any(x.is_alive() for x in bd.relay_threads) and p.pipe_w.arrived() == n:
                    break
                time.sleep(0.002)
        ret = box.get("ret")
        if ret is not None and announce and p is not None and p.out_w is not None:
            back = b""
            try:
                os.write(p.out_w, announce)
                t1 = time.time()
                while len(back) < len(announce) and time.time() - t1 < RELAY_STALL:
                    if select.select([ret[1]], [], [], 0.05)[0]:
                        d = ret[1].read(len(announce) - len(back))
                        if not d:
                            break
                        back += d
            except (OSError, ValueError):
                pass
            obs["announce_back"] = back
        # end of the case: the client's end of the relay socket is closed (the relay drains what is in flight and ends),
        # then ssh's stdout reaches end of stream; both relay threads must be gone before the next case
        for f in (ret[1:] if ret is not None else bd.files or ()):
            try:
                f.close()
            except (OSError, ValueError):
                pass
        s2 = getattr(bd.shim, "_s2", None)
        if s2 is not None:
            try:
                s2.close()
            except OSError:
                pass
        t1 = time.time()
        while len([x for x in bd.relay_threads if x.is_alive()]) > 1 and time.time() - t1 < RELAY_STALL:
            time.sleep(0.002)
        if p is not None:
            p.close_out()
        for x in bd.relay_threads:
            x.join(max(0.1, RELAY_STALL - (time.time() - t1)))
        obs["left_behind"] = len([x for x in bd.relay_threads if x.is_alive()]) + (1 if t.is_alive() else 0)
        pw = p.pipe_w if p is not None else None
        obs.update(argv=p.argv if p is not None else None, writes=[d for d, _ in handed], packaged=list(bd.packaged),
                   delivered=pw.snapshot() if pw else b"", chunks=list(pw.chunks) if pw else [],
                   popen={"stdin": p.kw["stdin"], "stdout": p.kw["stdout"], "bufsize": p.kw["bufsize"]} if p is not None else None,
                   terminated=p.terminated if p is not None else 0, relay_stderr=bd.relay_stderr.getvalue()[-600:],
                   script={"write_mode": spec["write_mode"], "read_mode": spec.get("read_mode", "full"),
                           "write_calls": pw.calls if pw else 0, "short_writes": pw.short if pw else 0,
                           "first_short_write": pw.first_short if pw else None,
                           "first_calls_offered_taken": list(pw.head) if pw else []})
    return obs


WIN32_VIOLATION = ("win32 client (ssh started with pipes, helpers.SocketRWShim between the client's socket and ssh's stdin): the bytes "
                   "arriving on ssh's stdin are not byte for byte the start-up upload (assembler + module and option records) when "
                   "the raw pipe takes fewer bytes than a write() offers")
WIN32_ANNOUNCE_VIOLATION = ("win32 client: the server's announcement written to ssh's stdout pipe does not reach the client's rfile "
                            "byte for byte through helpers.SocketRWShim")


def win32_case(spec, sync):
    """the bootstrap case a win32 spec stands for: everything is regenerated from spec['case_seed'] (used by --replay too)"""
    r = random.Random(spec["case_seed"])
    profile = spec["profile"]
    if profile.startswith("shipped"):
        srcs = {"sshuttle.assembler": assembler_with_comments(r)} if profile == "shipped+comments" else None
        options = dict(gen_options(r, full=True), auto_hosts=False, auto_nets=False)
    else:
        srcs = gen_table(r, profile)
        if spec.get("non_ascii"):
            if profile != "tiny":
                sprinkle(r, srcs)
            srcs["sshuttle.assembler"] = assembler_with_comments(r)
        options = gen_options(r, full=True)
    return {"mode": spec.get("codec", "real"), "srcs": srcs, "how": "pipe-writes", "profile": profile, "options": options,
            "real_server": profile.startswith("shipped"), "sync": sync, "verbose": r.choice([0, 1, 2]), "extra": b"",
            "win32": spec}


# ---------------------------------------------------------------------------
# running the real bootstrap one-liner in a fresh interpreter

class Scratch(object):
    def __init__(self):
        self.dir = tempfile.mkdtemp(prefix="c18-")
        self.site = os.path.join(self.dir, "site")
        os.makedirs(self.site)
        with open(os.path.join(self.site, "sitecustomize.py"), "w") as f:
            f.write(PRELUDE)
        self.n = 0

    def close(self):
        shutil.rmtree(self.dir, ignore_errors=True)


def run_child(scr, argv, pieces, sleeps=(), stub_zlib=False, wait_sync=False, timeout=20, extra_env=None):
    """feed `pieces` to the one-liner's stdin (a socket, as in ssh.connect), then close.
    -> dict(rc, out, err, log)"""
    scr.n += 1
    logpath = os.path.join(scr.dir, "log%d.jsonl" % scr.n)
    env = {"PATH": os.environ.get("PATH", ""), "PYTHONPATH": scr.site, "C18_LOG": logpath,
           "PYTHONDONTWRITEBYTECODE": "1", "PYTHONHASHSEED": "0", "LANG": "C.UTF-8"}
    if stub_zlib:
        env["C18_FAKE_ZLIB"] = STUB_ZLIB
    if extra_env:
        env.update(extra_env)
    a, b = socket.socketpair()
    p = subprocess.Popen(argv, stdin=b.fileno(), stdout=subprocess.PIPE, stderr=subprocess.PIPE, env=env,
                         close_fds=True, cwd=scr.dir)
    b.close()
    out, err = bytearray(), bytearray()

    def rd(f, acc):
        fd = f.fileno()
        while True:
            try:
                d = os.read(fd, 65536)
            except OSError:
                break
            if not d:
                break
            acc += d
    t1 = threading.Thread(target=rd, args=(p.stdout, out), daemon=True)
    t2 = threading.Thread(target=rd, args=(p.stderr, err), daemon=True)
    t1.start()
    t2.start()
    sleeps = set(sleeps)
    try:
        for i, pc in enumerate(pieces):
            a.sendall(pc)
            if i in sleeps:
                time.sleep(0.002)
    except OSError:
        pass
    if wait_sync:
        t0 = time.time()
        while time.time() - t0 < timeout and p.poll() is None and len(out) < 14:
            time.sleep(0.003)
    try:
        a.shutdown(socket.SHUT_WR)
    except OSError:
        pass
    try:
        rc = p.wait(timeout)
    except subprocess.TimeoutExpired:
        p.kill()
        p.wait()
        rc = "timeout"
    a.close()
    t1.join(5)
    t2.join(5)
    log = []
    if os.path.exists(logpath):
        with open(logpath) as f:
            log = [json.loads(l) for l in f if l.strip()]
        os.unlink(logpath)
    return {"rc": rc, "out": bytes(out), "err": bytes(err), "log": log}


def observed_modules(res):
    """[(name, len, sha)] of compile() calls made by the assembler, in order; plus the assembler itself"""
    comp = [e for e in res["log"] if e["ev"] == "compile"]
    asm = [e for e in comp if e["filename"] == "assembler.py"]
    idx = res["log"].index(asm[0]) if asm else -1
    mods = []
    for e in res["log"][idx + 1:] if idx >= 0 else []:
        if e["ev"] == "compile" and e["type"] == "bytes" and not e["filename"].startswith("<") \
                and not e["filename"].endswith(".py"):
            mods.append((e["filename"], e["len"], e["sha"]))
    return (asm[0]["len"], asm[0]["sha"]) if asm else None, mods


def observed_options(res):
    for e in res["log"]:
        if e["ev"] == "options":
            return [tuple(x) for x in e["vals"]]
    return None


def crash_class(res):
    """class name of the uncaught exception, from the last traceback line on stderr"""
    lines = [l for l in res["err"].decode("utf-8", "replace").split("\n") if l.strip()]
    if not lines or b"Traceback" not in res["err"]:
        return None
    last = lines[-1]
    return last.split(":")[0].strip().split(".")[-1]


# ---------------------------------------------------------------------------
# the remote command line: stand-ins for ssh / sshpass / the remote host's shell and interpreters
#
# `ssh [options] destination [--] words...` joins the words with blanks and the remote sshd hands that ONE
# string to the user's login shell (`$SHELL -c string`): the stand-in does exactly that with a real
# /bin/dash or /bin/bash, on a PATH that holds only the "remote host's" interpreters.  Everything between
# the argv ssh.connect builds and the interpreter's own argv is therefore done by real shells.

FAKE_SSH = r"""#!/bin/sh
# stand-in for OpenSSH's client (harness/props/c18.py): options, destination, options again, [--], command words
log="$C18_SSH_LOG"
: > "$log.opts"
host=
while [ $# -gt 0 ]; do
  case "$1" in
    --) shift; break;;
    -p|-o|-i|-l|-F|-E|-J|-L|-R|-D|-b|-c|-e|-m|-O|-Q|-S|-W|-w|-B|-I)
       printf '%s %s\n' "$1" "$2" >> "$log.opts"; shift 2;;
    -*) printf '%s\n' "$1" >> "$log.opts"; shift;;
    *) if [ -z "$host" ]; then host="$1"; shift; else break; fi;;
  esac
done
printf '%s' "$0" > "$log.prog"
printf '%s' "$host" > "$log.dest"
printf '%s' "$*" > "$log.cmd"
if [ "${SSHPASS+set}" = set ]; then printf '%s' "$SSHPASS" > "$log.env_sshpass"; fi
PATH="$C18_REMOTE_PATH"; export PATH
exec "$C18_LOGIN_SHELL" -c "$*"
"""

FAKE_SSHPASS = r"""#!/bin/sh
# stand-in for sshpass: `sshpass -e command...` takes the password from $SSHPASS
[ "$1" = "-e" ] || exit 64
shift
if [ "${SSHPASS+set}" = set ]; then printf '%s' "$SSHPASS" > "$C18_SSH_LOG.sshpass"; else exit 65; fi
exec "$@"
"""

# a remote interpreter that only records how it was started (name, argv NUL-separated)
FAKE_PY_REC = r"""#!/bin/sh
if [ "$1" = "-V" ]; then echo "Python 3.99.0 (stand-in)"; exit %(vrc)d; fi
printf '%%s' "$0" > "$C18_SSH_LOG.py_name"
: > "$C18_SSH_LOG.py_argv"
for a in "$@"; do printf '%%s\0' "$a" >> "$C18_SSH_LOG.py_argv"; done
exit 0
"""

# a remote interpreter that records and then IS a real interpreter
FAKE_PY_REAL = r"""#!/bin/sh
if [ "$1" = "-V" ]; then exec %(exe)s -V; fi
printf '%%s' "$0" > "$C18_SSH_LOG.py_name"
: > "$C18_SSH_LOG.py_argv"
for a in "$@"; do printf '%%s\0' "$a" >> "$C18_SSH_LOG.py_argv"; done
exec %(exe)s "$@"
"""


def _script(path, text):
    os.makedirs(os.path.dirname(path), exist_ok=True)
    with open(path, "w") as f:
        f.write(text)
    os.chmod(path, 0o755)


class RemoteWorld(object):
    """scratch directories: bin/ (ssh, myssh, sshpass as found through PATH by ssh.connect's which()),
    and one directory per kind of remote host: which interpreters its PATH holds"""
    HOSTS = ["py3+py", "py3only", "pyonly", "py3broken+py", "none"]

    def __init__(self, scr):
        import shlex
        self.root = os.path.join(scr.dir, "remote")
        self.bin = os.path.join(self.root, "bin")
        for n in ("ssh", "myssh"):
            _script(os.path.join(self.bin, n), FAKE_SSH)
        _script(os.path.join(self.bin, "sshpass"), FAKE_SSHPASS)
        exe = shlex.quote(sys.executable)
        self.custom = os.path.join(self.root, "opt dir", "py 3")      # --python with blanks in the path
        self.paths = {}
        for kind in ("rec", "real"):
            tpl = FAKE_PY_REC if kind == "rec" else FAKE_PY_REAL
            for host in self.HOSTS:
                d = os.path.join(self.root, kind, host.replace("+", "_"))
                os.makedirs(d, exist_ok=True)
                self.paths[(kind, host)] = d
                names = {"py3+py": [("python3", 0), ("python", 0)], "py3only": [("python3", 0)], "pyonly": [("python", 0)],
                         "py3broken+py": [("python3", 1), ("python", 0)], "none": []}[host]
                for n, vrc in names + [("mypy", 0)]:
                    _script(os.path.join(d, n), tpl % {"vrc": vrc, "exe": exe})
            _script(self.custom + ("" if kind == "rec" else ".real"), tpl % {"vrc": 0, "exe": exe})
        self.n = 0

    def expected_interpreter(self, host, python, kind="rec"):
        """path of the interpreter the manual promises ('python3 (or python, if python3 fails)' / --python), or None"""
        d = self.paths[(kind, host)]
        if python is not None:
            pth = python if os.path.isabs(python) else os.path.join(d, python)
            return pth if os.path.exists(pth) else None      # --python naming something the host does not have
        return {"py3+py": os.path.join(d, "python3"), "py3only": os.path.join(d, "python3"), "pyonly": os.path.join(d, "python"),
                "py3broken+py": os.path.join(d, "python"), "none": None}[host]

    def env(self, host, login_shell, sshpass, kind="rec"):
        self.n += 1
        log = os.path.join(self.root, "log%d" % self.n)
        e = {"PATH": self.bin + os.pathsep + "/usr/bin:/bin", "C18_SSH_LOG": log, "C18_LOGIN_SHELL": login_shell,
             "C18_REMOTE_PATH": self.paths[(kind, host)]}
        if sshpass is not None:
            e["SSHPASS"] = sshpass
        return e, log

    @staticmethod
    def read_log(log):
        out = {}
        for k in ("opts", "prog", "dest", "cmd", "env_sshpass", "sshpass", "py_name", "py_argv"):
            pth = log + "." + k
            if os.path.exists(pth):
                with open(pth, "rb") as f:
                    out[k] = f.read()
                os.unlink(pth)
        if "py_argv" in out:
            out["py_argv"] = [a.decode("utf-8", "replace") for a in out["py_argv"].split(b"\0")[:-1]]
        for k in ("prog", "dest", "cmd", "env_sshpass", "sshpass", "py_name", "opts"):
            if k in out:
                out[k] = out[k].decode("utf-8", "replace")
        return out


def spec_oneliner(verbose, nbytes):
    """the bootstrap program (spec side): read exactly the assembler's bytes from a binary stdin, run them, exit 98"""
    return ("import sys, os; verbosity=%d; stdin = os.fdopen(0, 'rb'); exec(compile(stdin.read(%d), 'assembler.py', 'exec')); "
            "sys.exit(98);" % (verbose or 0, nbytes))


def cmd_exe_words(line):
    """words of a command line the way cmd.exe /c + the C runtime split it, for lines without backslashes:
    blanks separate, double quotes group and are removed; -> list or None when cmd.exe itself would interpret something"""
    words, cur, inq, have = [], "", False, False
    for ch in line:
        if ch == '"':
            inq, have = not inq, True
        elif ch in " \t" and not inq:
            if have:
                words.append(cur)
            cur, have = "", False
        elif ch in "%^\\" or (ch in "&|<>()" and not inq):
            return None
        else:
            cur, have = cur + ch, True
    if inq:
        return None
    if have:
        words.append(cur)
    return words


def powershell_words(line):
    """words of a PowerShell command line made of bare words: a backtick makes the next character literal, an
    unescaped blank separates; -> list, or None when an unescaped character PowerShell interprets is left"""
    words, cur, have, i = [], "", False, 0
    while i < len(line):
        ch = line[i]
        if ch == "`":
            if i + 1 >= len(line):
                return None
            cur, have = cur + line[i + 1], True
            i += 2
            continue
        if ch in " \t":
            if have:
                words.append(cur)
            cur, have = "", False
        elif ch in "'\";(),{}|&<>@#$":
            return None
        else:
            cur, have = cur + ch, True
        i += 1
    if have:
        words.append(cur)
    return words


def run_remote_argv(rw, argv, host, login_shell, sshpass, timeout=20):
    """start what ssh.connect asked Popen to start (stdin at EOF), on the stand-in ssh / remote host"""
    env, log = rw.env(host, login_shell, sshpass)
    try:
        p = subprocess.run(argv, stdin=subprocess.DEVNULL, stdout=subprocess.PIPE, stderr=subprocess.PIPE, env=env,
                           timeout=timeout, close_fds=True)
        rc, out, err = p.returncode, p.stdout, p.stderr
    except subprocess.TimeoutExpired:
        rc, out, err = "timeout", b"", b""
    except OSError as e:
        rc, out, err = "oserror:%s" % e.errno, b"", b""
    obs = rw.read_log(log)
    obs.update(rc=rc, out=out[:200].decode("utf-8", "replace"), err=err[-300:].decode("utf-8", "replace"))
    return obs


# ---------------------------------------------------------------------------
# generators

def gen_source(rng, kind, size):
    """valid Python text of about `size` bytes (exactly 0 / 1 for the tiny kinds)"""
    if kind == "empty":
        return b""
    if kind == "byte":
        return rng.choice([b"\n", b"#", b"0", b" ", b"\t"])
    out = []
    n = 0
    i = 0
    while n < size:
        i += 1
        if kind == "ascii":
            ln = rng.choice(["v%d = %d\n" % (i, rng.randint(-10 ** 6, 10 ** 6)),
                             "# %s\n" % "".join(rng.choice("abc xyz\t'\"\\=") for _ in range(rng.randint(0, 60))),
                             "s%d = %r\n" % (i, "".join(chr(rng.randint(32, 126)) for _ in range(rng.randint(0, 40)))),
                             "\n"]).encode()
        elif kind == "utf8":
            def uc():
                while True:
                    c = rng.choice([rng.randint(0x20, 0x7e), rng.randint(0xa0, 0x7ff), rng.randint(0x800, 0xd7ff),
                                    rng.randint(0xe000, 0xfffd), rng.randint(0x10000, 0x10ffff)])
                    if c not in (0x2028, 0x2029, 0x85):
                        return chr(c)
            txt = "".join(uc() for _ in range(rng.randint(1, 50)))
            ln = (rng.choice(["# %s\n" % txt, "u%d = %r\n" % (i, txt), "u%d = '''%s'''\n" % (i, txt.replace("\\", "/").replace("'", '"'))])).encode("utf-8")
        elif kind == "runs":   # dominated by very few symbols: long runs, rulers, one statement repeated
            ln = rng.choice([b"\n" * rng.randint(1, 400), b"#" * rng.randint(1, 300) + b"\n",
                             b"x = 1\n" * rng.randint(1, 200), b" " * rng.randint(0, 200) + b"\n",
                             b"pass\n", b"# " + b"=-" * rng.randint(1, 150) + b"\n"])
        else:   # noise: poorly compressible
            ln = b"# " + rng.randbytes(min(96, max(1, (size - n) // 2))).hex().encode() + b"\n"
        out.append(ln)
        n += len(ln)
    return b"".join(out)


def uchar(rng, nonascii=False):
    """one character that survives open(..., 'rt') / encode unchanged and is harmless in a Python comment"""
    while True:
        c = rng.choice(([] if nonascii else [rng.randint(0x20, 0x7e)]) +
                       [rng.randint(0xa0, 0x7ff), rng.randint(0x800, 0xd7ff), rng.randint(0xe000, 0xfffd), rng.randint(0x10000, 0x10ffff)])
        if c not in (0x2028, 0x2029, 0x85):
            return chr(c)


def nonascii_comment(rng, extra=None):
    """b'# ...\n' with at least one non-ASCII character; extra = exact number of bytes beyond the number of characters, or None"""
    if extra == 1:
        txt = rng.choice(["é", "ß", "µ", "José", "naïve"])
    else:
        txt = rng.choice(["", "stage two — maintained by José → see ssh.py", "日本語", "\U0001f600"]) or \
            "".join(uchar(rng, nonascii=(i == 0)) for i in range(rng.randint(1, 40)))
        if txt.isascii():
            txt += "é"
    return ("# %s\n" % txt).encode("utf-8")


def real_source_bytes(name):
    """the bytes of a real sshuttle module file (read by the harness itself, in binary)"""
    with open(importlib.util.find_spec(name).origin, "rb") as f:
        return f.read()


def assembler_with_comments(rng, extra=None):
    """the REAL assembler.py with non-ASCII comment lines inserted at line boundaries (start / end / anywhere):
    still the program under test, but its length in characters differs from its length in bytes"""
    lines = real_source_bytes("sshuttle.assembler").split(b"\n")
    body, last = lines[:-1], lines[-1]
    where = rng.choice(["start", "end", "any", "any", "all"])
    pos = {"start": [0], "end": [len(body)], "any": sorted(rng.sample(range(len(body) + 1), rng.randint(1, 3))),
           "all": [0, rng.randrange(len(body) + 1), len(body)]}[where]
    if extra == 1:
        pos = [rng.choice([0, len(body), rng.randrange(len(body) + 1)])]
    out = []
    for i, ln in enumerate(body + [None]):
        if i in pos:
            out.append(nonascii_comment(rng, extra)[:-1])
        if ln is not None:
            out.append(ln)
    return b"\n".join(out + [last])


def sprinkle(rng, table):
    """non-ASCII UTF-8 text (a comment line) into EVERY module source of the table"""
    for n in list(table):
        d = table[n]
        c = nonascii_comment(rng)
        if rng.random() < 0.5 or not d:
            table[n] = c + d
        else:
            table[n] = d + (b"" if d.endswith(b"\n") else b"\n") + c
    return table


def nonascii_in(data):
    return any(b >= 128 for b in data)


def table_json(table, limit=65536):
    """a module table for a replay file (hex per module), or its sizes when it is too large"""
    if sum(len(d) for d in table.values()) <= limit:
        return {"table_hex": dict((n, bytes(d).hex()) for n, d in table.items())}
    return {"table_sizes": dict((n, [len(d), sha(d)[:16]]) for n, d in table.items())}


READ_RX = re.compile(r"stdin\.read\((\d+)\)")


def check_read_len(ctx, argv, writes, packaged, options, srcs, where):
    """implementation-only oracle: the bootstrap one-liner reads exactly the number of BYTES of the assembler source
    that is sent, and what is sent first is the client's assembler source file byte for byte.  -> True when it holds"""
    src_of = dict(packaged)
    a_src = src_of.get("sshuttle.assembler")
    sent = bytes(writes[0]) if writes else b""
    ms = READ_RX.findall(argv[-1]) if argv else []
    n = int(ms[0]) if len(ms) == 1 else None
    ctx.count("readlen_checked_%s_assembler" % ("non_ascii" if a_src is not None and nonascii_in(a_src) else "ascii"))
    table = dict(srcs or {})
    if a_src is not None:
        table.setdefault("sshuttle.assembler", a_src)
    tj = table_json(table)
    if "table_hex" not in tj and a_src is not None:
        # too large to store: the other modules influence neither the read length nor the first write;
        # a replay takes the shipped sources for them
        tj = {"table_hex": {"sshuttle.assembler": a_src.hex()}, "other_modules_not_stored": tj["table_sizes"]}
    rep = dict(tj, kind="readlen", where=where, options_json=options, options=opts_canon(options),
               bootstrap=argv[-1][:300] if argv else None, read_len=n, assembler_bytes=None if a_src is None else len(a_src),
               assembler_chars=None if a_src is None else len(a_src.decode("utf-8", "replace")), first_write_bytes=len(sent))
    ok = True
    if a_src is None or sent != a_src:
        ctx.violation("the first write of the upload is not the client's assembler source file byte for byte", rep)
        ok = False
    if n != len(sent) or (a_src is not None and n != len(a_src)):
        ctx.violation("the bootstrap one-liner does not read exactly the number of BYTES of the assembler source that is sent", rep)
        ok = False
    return ok


def gen_table(rng, profile):
    """sources for the six names get_module_source is asked for"""
    kinds = {
        "tiny": lambda: rng.choice([("empty", 0), ("byte", 1), ("ascii", rng.randint(2, 40))]),
        "small": lambda: rng.choice([("ascii", rng.randint(1, 600)), ("utf8", rng.randint(1, 600)), ("empty", 0), ("byte", 1),
                                     ("runs", rng.randint(1, 900))]),
        "medium": lambda: rng.choice([("ascii", rng.randint(1000, 9000)), ("utf8", rng.randint(1000, 20000)),
                                      ("noise", rng.choice([4095, 4096, 8191, 8192, 8193, 16384, 32768])), ("empty", 0),
                                      ("runs", rng.choice([5000, 20000, 70000]))]),
        "pipe": lambda: rng.choice([("noise", rng.choice([65535, 65536, 65537, 70000, 140000])), ("utf8", 70000), ("byte", 1)]),
        "huge": lambda: rng.choice([("noise", 1100000), ("ascii", 300), ("empty", 0)]),
    }[profile]
    t = {}
    for n in SRCNAMES:
        k, sz = kinds()
        t[n] = gen_source(rng, k, sz)
    if profile == "huge" and max(len(v) for v in t.values()) < 1000000:
        t["sshuttle.ssnet"] = gen_source(rng, "noise", 1100000)
    # the assembler must be the real one (it is the code under test); the last module gets a main()
    # that reports its arguments and whatever is left on stdin
    del t["sshuttle.assembler"]
    t["sshuttle.server"] = t["sshuttle.server"] + (b"\n" if t["sshuttle.server"] and not t["sshuttle.server"].endswith(b"\n") else b"") + SERVER_STUB
    return t


NBYTES_TARGETS = [2, 3, 9, 10, 11, 99, 100, 101, 999, 1000, 1001, 4095, 4096, 4097, 8191, 8192, 8193, 9999, 10000, 10001,
                  65535, 65536, 65537, 99999, 100000, 100001]


def gen_table_nbytes(rng, targets, real_zlib):
    """a table in which the COMPRESSED length of some modules (the number on the length line and the argument of
    stdin.read) hits the given values exactly: buffer sizes and changes in the number of digits"""
    import zlib
    t = gen_table(rng, "tiny")
    names = ["sshuttle", "sshuttle.helpers", "sshuttle.ssnet", "sshuttle.hostwatch"]
    if not real_zlib:
        for n, tg in zip(names, targets):
            t[n] = gen_source(rng, "noise", tg)[:tg - 2 - 1] + b"\n" if tg > 2 else b""   # stand-in codec adds 2 bytes
            assert len(t[n]) + 2 == tg
        return t
    # real zlib: only the first chunk of the stream can be tuned independently of the others
    tg = targets[0]
    base = gen_source(rng, "noise", 3 * tg + 400)

    def clen(k):
        z = zlib.compressobj(1)
        return len(z.compress(base[:k] + b"\n") + z.flush(zlib.Z_SYNC_FLUSH))
    lo, hi = 0, len(base)
    while lo < hi:
        mid = (lo + hi) // 2
        if clen(mid) >= tg:
            hi = mid
        else:
            lo = mid + 1
    for kk in range(max(0, lo - 80), min(len(base), lo + 80)):
        if clen(kk) == tg:
            t["sshuttle"] = base[:kk] + b"\n"
            break
    return t


def gen_value(rng, kind):
    if kind == "bool":
        return rng.choice([True, False])
    if kind == "int":
        return rng.choice([0, 1, -1, 32768, 65536, 2 ** 31, -2 ** 63, 10 ** 30, rng.randint(-10 ** 9, 10 ** 9)])
    if kind == "none":
        return None
    if kind == "ns":
        return rng.choice(["10.0.0.1@53", "::1@5353", "fe80::1%eth0@53", "2001:db8::53@0", "192.168.1.1@65535",
                           "%d.%d.%d.%d@%d" % tuple([rng.randint(0, 255) for _ in range(4)] + [rng.randint(0, 65535)])])
    if kind == "plain":
        return "".join(rng.choice(' !"#$%&()*+,-./09:;<=>?@AZ[]^_`az{|}~') for _ in range(rng.randint(0, 30)))
    # outside the modelled fragment
    return rng.choice(["it's", 'say "hi"', "back\\slash", "tab\there", "nl\nx", "café", "☃", "'\"", "\x00", "\x7f"])


def gen_options(rng, full=False, allow_oos=False):
    if full:
        return {"latency_control": gen_value(rng, "bool"), "latency_buffer_size": gen_value(rng, "int"),
                "auto_hosts": gen_value(rng, "bool"),
                "to_nameserver": gen_value(rng, rng.choice(["none", "ns", "ns"] + (["oos"] if allow_oos else []))),
                "auto_nets": gen_value(rng, "bool")}
    keys = [k for k in OPTKEYS + ["x", "_y1", "Zz"] if rng.random() < 0.5] or ["auto_nets"]
    rng.shuffle(keys)
    kinds = ["bool", "int", "none", "ns", "plain"] + (["oos"] if allow_oos else [])
    return dict((k, gen_value(rng, rng.choice(kinds))) for k in keys)


def opts_token(options):
    toks = []
    for k, v in options.items():
        if v is True:
            t = "B1"
        elif v is False:
            t = "B0"
        elif v is None:
            t = "N"
        elif isinstance(v, int):
            t = "I" + numhex(v)
        else:
            t = "S" + hx(v.encode("utf-8"))
        toks.append(hx(k.encode()) + "=" + t)
    return ",".join(toks) if toks else "_"


def opts_canon(options):
    return [(k, type(v).__name__, repr(v)) for k, v in options.items()]


def opts_from_token(tok):
    """model output (EVAL/ROPTS) -> [(key, typename, repr)]"""
    if tok in ("NONE", "_"):
        return None if tok == "NONE" else []
    res = []
    for item in tok.split(","):
        k, v = item.split("=")
        k = unhx(k).decode()
        if v == "B1":
            res.append((k, "bool", "True"))
        elif v == "B0":
            res.append((k, "bool", "False"))
        elif v == "N":
            res.append((k, "NoneType", "None"))
        elif v[0] == "I":
            res.append((k, "int", unhx(v[1:]).decode()))
        else:
            res.append((k, "str", repr(unhx(v[1:]).decode("utf-8"))))
    return res


def in_fragment(options):
    for v in options.values():
        if isinstance(v, str) and not all(32 <= ord(c) <= 126 and c not in "'\\" for c in v):
            return False
    return True


def tbl_token(pairs):
    return ",".join(hx(n.encode() if isinstance(n, str) else n) + ":" + hx(d) for n, d in pairs) if pairs else "_"


def boundaries(upload, alen):
    """framing boundaries of an upload (only used to choose where to cut)"""
    pts = [alen]
    pos = alen
    try:
        while pos < len(upload):
            e = upload.index(b"\n", pos)
            if upload[pos:e].strip() == b"":
                pts.append(e + 1)
                break
            e2 = upload.index(b"\n", e + 1)
            n = int(upload[e + 1:e2])
            pts += [e + 1, e2 + 1, e2 + 1 + n]
            pos = e2 + 1 + n
    except ValueError:
        pass
    return sorted(set(p for p in pts if 0 < p < len(upload)))


def cut(rng, data, how, alen=0):
    """-> list of non-empty pieces"""
    n = len(data)
    if n == 0:
        return []
    if how == "whole":
        pts = []
    elif how == "dribble":
        pts = list(range(1, n))
    elif how.startswith("fixed"):
        k = int(how[5:])
        pts = list(range(k, n, k))
    elif how == "random":
        pts, p = [], 0
        while True:
            p += rng.choice([1, 2, rng.randint(1, 100), rng.randint(1, 9000), rng.randint(60000, 70000)])
            if p >= n:
                break
            pts.append(p)
    elif how == "bounds":
        pts = boundaries(data, alen)
    elif how == "bounds-1":
        pts = [p - 1 for p in boundaries(data, alen) if p > 1]
    elif how == "bounds+1":
        pts = [p + 1 for p in boundaries(data, alen) if p + 1 < n]
    elif how == "bounds3":
        pts = sorted(set(q for p in boundaries(data, alen) for q in (p - 1, p, p + 1) if 0 < q < n))
    else:
        raise ValueError(how)
    pts = [0] + pts + [n]
    return [data[pts[i]:pts[i + 1]] for i in range(len(pts) - 1) if pts[i + 1] > pts[i]]


# ---------------------------------------------------------------------------
# one bootstrap case (used by the correspondence and by --replay)

def parse_run(line):
    """model RUN/RUNSPEC output -> (src, status, [(name, bytes)], left)"""
    src, status, mods, left = line.split(" ")
    ms = []
    if mods != "_":
        for item in mods.split(","):
            a, b = item.split(":")
            ms.append((unhx(a).decode("latin-1"), unhx(b)))
    return unhx(src), status, ms, unhx(left)


def bootstrap_case(ctx, scr, case, rng):
    """one bootstrap case.  A win32 case whose relay already damaged the upload reports ONE violation: what the remote end
    made of the damaged stream (the oracles below) is attached to it instead of being reported as failures of their own"""
    before = len(ctx.violations)
    r = bootstrap_case_run(ctx, scr, case, rng)
    new = ctx.violations[before:]
    if case.get("win32") and len(new) > 1 and new[0][0] == WIN32_VIOLATION:
        new[0][1]["what_the_remote_end_made_of_the_bytes_that_arrived"] = [
            (w, dict((k, rp[k]) for k in ("seen", "expected", "stdout", "stderr") if k in rp)) for w, rp in new[1:]]
        del ctx.violations[before + 1:]
    return r


def bootstrap_case_run(ctx, scr, case, rng):
    """case: dict(profile/table spec, options, how, mode).  Returns (impl_obs, info) and reports."""
    mode = case["mode"]                     # 'real' (real zlib) or 'stub' (stand-in codec both sides)
    srcs = case["srcs"]                     # None = the real module sources
    options = case["options"]
    how = case["how"]
    stub = mode == "stub"
    real_server = case.get("real_server", False)     # every module but (possibly) the assembler is the shipped source
    remote, rw = case.get("remote"), case.get("rw")      # -r given: the command goes through ssh and the remote shell
    win, wobs = case.get("win32"), None
    if win:
        # the client is a win32 one: the upload reaches ssh through the real relay threads and a raw pipe
        wobs = win32_connect(options, srcs, stub, case.get("verbose", 0), win, announce=case.get("sync") or b"\0\0SSHUTTLE0001")
        argv, writes, packaged = wobs["argv"] or [], wobs["writes"], wobs["packaged"]
    else:
        argv, writes, packaged = real_connect(options, srcs, stub_zlib=stub, verbose=case.get("verbose", 0), remote=remote,
                                              bindir=rw.bin if remote else None)
    info = {"mode": mode, "how": how, "options": opts_canon(options),
            "sources": [(n, len(d), sha(d)[:16]) for n, d in packaged]}
    if win:
        info.update(kind="win32relay", win32=win, pipe_script=wobs["script"], popen=wobs["popen"])
    if remote:
        info["remote"] = dict(remote, host=case["rhost"], login_shell=case["login_shell"])
    if win:
        upload = b"".join(writes)
        # oracle (implementation only): what reached ssh's stdin is the upload, whatever the pipe took per write()
        got = wobs["delivered"]
        ctx.count("win32_relay_write_mode_" + win["write_mode"])
        ctx.count("win32_pipe_write_calls", wobs["script"]["write_calls"])
        ctx.count("win32_pipe_short_writes", wobs["script"]["short_writes"])
        if wobs["left_behind"]:
            ctx.count("win32_relay_threads_left_behind", wobs["left_behind"])
        if wobs["short_send"]:
            ctx.count("win32_socket_write_short_ASSUMPTION_not_met")
        elif got != upload or wobs["blocked"] or wobs["exc"]:
            agree = 0
            while agree < min(len(got), len(upload)) and got[agree] == upload[agree]:
                agree += 1
            ctx.violation(WIN32_VIOLATION,
                          dict(info, upload_bytes=len(upload), arrived_bytes=len(got), streams_agree_for_the_first=agree,
                               connect_blocked_until_watchdog=wobs["blocked"], connect_raised=wobs["exc"],
                               relay_stderr=wobs["relay_stderr"], watchdog_s={"stall": RELAY_STALL, "total": RELAY_LIMIT}))
        if wobs["announce_back"] is not None and wobs["announce_back"] != (case.get("sync") or b"\0\0SSHUTTLE0001"):
            ctx.violation(WIN32_ANNOUNCE_VIOLATION, dict(info, read_back=hx(wobs["announce_back"]), relay_stderr=wobs["relay_stderr"]))
        # the same table and options on any other platform: the same two payloads and the same command
        argv_p, writes_p, _ = real_connect(options, srcs, stub_zlib=stub, verbose=case.get("verbose", 0))
        if writes_p != writes or argv_p != argv:
            ctx.disagree("win32 and posix branch of ssh.connect hand different uploads / commands to ssh", info,
                         [argv, [sha(w) for w in writes]], [argv_p, [sha(w) for w in writes_p]])
    if len(writes) != 2:
        ctx.violation("ssh.connect did not write exactly (assembler, packages)", dict(info, writes=len(writes)))
        return
    a_nonascii = nonascii_in(dict(packaged).get("sshuttle.assembler", b""))
    ctx.count("boot_assembler_" + ("non_ascii" if a_nonascii else "ascii"))
    if all(nonascii_in(d) for _, d in packaged):
        ctx.count("boot_table_non_ascii_in_every_module")
    check_read_len(ctx, argv, writes, packaged, options, srcs, "bootstrap")
    upload = writes[0] + writes[1]
    extra = case.get("extra", b"")
    if win:
        # ... and the remote end is given exactly what arrived on ssh's stdin, cut exactly as the pipe took it
        upload, pieces = wobs["delivered"], list(wobs["chunks"])
    else:
        pieces = cut(rng, upload + extra, how, len(writes[0]))
    sleeps = set(rng.randrange(len(pieces)) for _ in range(min(6, len(pieces)))) if len(pieces) > 1 else ()
    extra_env = rlog = None
    if remote:
        extra_env, rlog = rw.env(case["rhost"], case["login_shell"], real_connect.sshpass, kind="real")
    res = run_child(scr, argv, pieces, sleeps, stub_zlib=stub, wait_sync=real_server, extra_env=extra_env)
    timed_out = "timeout" if res["rc"] == "timeout" else None
    boot_text = argv[2] if len(argv) == 3 and argv[1] == "-c" else ""
    if remote:
        # what the remote host's shell really started: the interpreter the manual promises, with the one-liner
        robs = rw.read_log(rlog)
        ctx.count("boot_through_ssh_and_%s" % os.path.basename(case["login_shell"]))
        pyargs = robs.get("py_argv") or []
        boot_text = pyargs[1] if len(pyargs) == 2 and pyargs[0] == "-c" else ""
        want_py = rw.expected_interpreter(case["rhost"], remote.get("python"), kind="real")
        want_boot = spec_oneliner(case.get("verbose", 0), len(dict(packaged).get("sshuttle.assembler", b"")))
        if robs.get("py_name") != want_py or pyargs != ["-c", want_boot]:
            ctx.violation("the remote shell does not start the documented interpreter (python3, or python if python3 fails; "
                          "--python if given) with the bootstrap one-liner as its only program text",
                          dict(info, replay_case={"mode": mode, "how": how, "seed": case.get("seed"), "profile": case.get("profile")},
                               remote_command=argv[-1][:600], started=robs.get("py_name"),
                               started_argv=[a[:300] for a in pyargs], expected_interpreter=want_py, expected_argv=["-c", want_boot],
                               verbose=case.get("verbose", 0), stderr=res["err"][-300:].decode("utf-8", "replace")))
        if remote.get("python") is None:
            # `$P -V` of the candidate test prints the interpreter's version on the connection first; the client's
            # handshake skips everything up to the first NUL
            res["out"] = re.sub(rb"\APython \d+[^\n]*\n", b"", res["out"])
    asm_obs, mods_obs = observed_modules(res)
    opts_obs = observed_options(res)
    if case.get("profile", "").startswith("nbytes"):
        for ln in re.findall(rb"\n(\d+)\n", writes[1][:200]):
            ctx.count("first_length_line_%s" % ln.decode())
            break
    # what the client packaged, in upload order
    src_of = dict(packaged)
    optdata = "".join("%s=%r\n" % (k, v) for k, v in options.items()).encode("utf-8")
    expect = []
    for n in MODNAMES:
        if n == "sshuttle.cmdline_options":
            expect.append((n, len(optdata), sha(optdata)) if optdata else (n, len(src_of.get(n, b"")), sha(src_of.get(n, b""))))
        else:
            expect.append((n, len(src_of[n]), sha(src_of[n])))
    info["pieces"] = len(pieces)
    info["piece_sizes"] = [len(p) for p in pieces[:12]]
    nontrivial = len(pieces) > 1
    ctx.case(("boot", mode, how, tuple(info["sources"]), tuple(info["options"])), nontrivial=nontrivial,
             sample={"kind": "bootstrap", "mode": mode, "cut": how, "pieces": len(pieces), "upload_bytes": len(upload),
                     "modules_seen": [(n, l) for n, l, _ in mods_obs], "options_seen": opts_obs})
    ctx.count("boot_%s_%s" % (mode, how.rstrip("0123456789")))
    for n, d in packaged:
        ctx.count("srclen_" + ("0" if len(d) == 0 else "1" if len(d) == 1 else "<4k" if len(d) < 4096 else
                               "<64k" if len(d) < 65536 else "<1M" if len(d) < 1 << 20 else ">=1M"))
    rep = dict(info, replay_case={"mode": mode, "how": how, "options": opts_canon(options), "seed": case.get("seed"),
                                  "profile": case.get("profile")}, assembler_non_ascii=a_nonascii)
    # ---- oracle on the implementation alone
    a_src = src_of["sshuttle.assembler"]
    if asm_obs != (len(a_src), sha(a_src)):
        ctx.violation("remote assembler differs from the client's assembler source", dict(rep, seen=asm_obs))
    if mods_obs != expect:
        ctx.violation("remote modules differ from the client's sources", dict(rep, seen=[(n, l, s[:16]) for n, l, s in mods_obs],
                                                                              expected=[(n, l, s[:16]) for n, l, s in expect]))
    if optdata and opts_obs != opts_canon(options):
        ctx.violation("remote option values differ from the client's", dict(rep, seen=opts_obs))
    if any(e["ev"] == "diskimport" for e in res["log"]) and mods_obs == expect and real_server:
        ctx.violation("remote imported sshuttle code from disk instead of the upload", rep)
    if real_server:
        if not res["out"].startswith(case["sync"]):
            ctx.violation("server's first stdout bytes are not the sync string", dict(rep, stdout=hx(res["out"][:32]), stderr=res["err"][-300:].decode("utf-8", "replace")))
        ctx.count("server_sync_seen")
    elif set(options.keys()) >= set(OPTKEYS) and mods_obs == expect:
        want_args = tuple(options[k] for k in OPTKEYS)
        mark = "C18MARK %r %d %s\n" % (want_args, len(extra), sha(extra))
        if res["out"].decode("utf-8", "replace") != mark:
            ctx.violation("main() of the uploaded server module not called with the client's options / stdin not positioned after the upload",
                          dict(rep, stdout=res["out"][:300].decode("utf-8", "replace"), expected=mark, stderr=res["err"][-300:].decode("utf-8", "replace")))
        ctx.count("main_marker_seen")
    # ---- model
    if win and wobs["delivered"] != writes[0] + writes[1]:
        return timed_out            # (already reported; the model is only compared on streams that are the upload)
    total = sum(len(d) for _, d in packaged)
    if total > MODEL_MAX:
        ctx.count("model_skipped_too_large")
        return timed_out
    if not in_fragment(options):
        ctx.count("options_outside_fragment_impl_only")
        return timed_out
    tbl = tbl_token(packaged)
    up = ctx.run_driver(["UPLOAD %s %s" % (tbl, opts_token(options))])[0].split(" ")
    m_c1, m_c2, m_len, m_ok = unhx(up[0]), unhx(up[1]), int(unhx(up[2])), up[3]
    if "stdin.read(%d)" % m_len not in boot_text:
        ctx.disagree("bootstrap one-liner", info, argv[1:], "stdin.read(%d)" % m_len)
    if stub:
        if (m_c1, m_c2) != (writes[0], writes[1]):
            ctx.disagree("connect_upload bytes", info, [sha(writes[0]), sha(writes[1])], [sha(m_c1), sha(m_c2)], holds=(mods_obs == expect))
        m_pieces = pieces
    else:
        m_pieces = cut(rng, m_c1 + m_c2 + extra, "random" if win else how, len(m_c1))
    run = ctx.run_driver(["RUN _ %s %s" % (numhex(m_len), " ".join(hx(p) for p in m_pieces))])[0]
    m_src, m_status, m_mods, m_left = parse_run(run)
    m_obs = [(n, len(d), sha(d)) for n, d in m_mods]
    if (len(m_src), sha(m_src)) != asm_obs or m_obs != mods_obs or m_status != "DONE" or m_left != extra:
        ctx.disagree("remote_run vs real bootstrap", info, {"asm": asm_obs, "mods": [(n, l, s[:16]) for n, l, s in mods_obs]},
                     {"status": m_status, "asm": (len(m_src), sha(m_src)), "mods": [(n, l, s[:16]) for n, l, s in m_obs], "left": len(m_left)},
                     holds=(mods_obs == expect))
    ro = ctx.run_driver(["ROPTS %s" % tbl_token(m_mods)])[0]
    if optdata and opts_from_token(ro) != opts_obs:
        ctx.disagree("remote_options vs values seen in the remote interpreter", info, opts_obs, ro, holds=(opts_obs == opts_canon(options)))
    return timed_out


# ---------------------------------------------------------------------------

def part_primitives(ctx):
    rng = ctx.rng
    quick = ctx.quick()
    nums = [0, 1, 9, 10, 11, 99, 100, 255, 256, 4095, 65535, 65536, 99999, 100000, 2 ** 31 - 1, 2 ** 31, 2 ** 32, 2 ** 62, 2 ** 63,
            2 ** 64, 10 ** 18, 10 ** 19, 10 ** 40] + [rng.randrange(10 ** rng.randint(1, 30)) for _ in range(60 if quick else 2000)]
    out = ctx.run_driver(["DEC %s" % numhex(n) for n in nums])
    for n, o in zip(nums, out):
        ctx.case(("dec", n), nontrivial=False)
        if unhx(o) != b"%d" % n:
            ctx.disagree("dec", n, (b"%d" % n).decode(), o)
    ctx.count("dec_numbers", len(nums))
    lines = []
    for n in nums[:40]:
        d = b"%d" % n
        lines += [d + b"\n", d, b" " + d + b" \n", b"\t" + d + b"\r\n", b"0" + d + b"\n", d + b"\x0b\x0c\n"]
    lines += [b"", b"\n", b" \n", b"abc\n", b"12a\n", b"1 2\n", b"0x10\n", b"1.5\n", b"\xff\n", b"12\x00\n", b"\x0012\n", b"1e3\n"]
    for _ in range(100 if quick else 3000):
        lines.append(bytes(rng.choice(b"0123456789 \t\nab\xff\r") for _ in range(rng.randint(0, 8))))
    lines = [l for l in lines if not any(c in l for c in b"+-_")]
    out = ctx.run_driver(["INT %s" % hx(l) for l in lines])
    for l, o in zip(lines, out):
        try:
            v = int(l)
            impl = str(v)
        except ValueError:
            impl = "NONE"
        ctx.case(("int", l), nontrivial=False)
        ctx.count("int_" + ("value" if impl != "NONE" else "valueerror"))
        mo = "NONE" if o == "NONE" else unhx(o).decode()
        if impl != mo:
            ctx.disagree("int(readline())", hx(l), impl, mo)
    strs = [bytes(rng.choice(b" \t\n\r\x0b\x0c\x00ab.\xa0\x85\x1c\x1f") for _ in range(rng.randint(0, 10))) for _ in range(150 if quick else 4000)]
    out = ctx.run_driver(["STRIP %s" % hx(s) for s in strs])
    for s, o in zip(strs, out):
        ctx.case(("strip", s), nontrivial=False)
        if unhx(o) != s.strip():
            ctx.disagree("bytes.strip()", hx(s), hx(s.strip()), o)
    ctx.count("strip_strings", len(strs))


def part_packaging(ctx):
    """real ssh.connect with the stand-in codec vs connect_upload, byte for byte"""
    rng = ctx.rng
    quick = ctx.quick()
    n = 60 if quick else 600
    for i in range(n):
        profile = rng.choice(["tiny", "small", "small", "medium"])
        srcs = gen_table(rng, profile)
        # the assembler text is only packaged here, never run: any text will do.  i % 3 == 0: non-ASCII in every module
        k = rng.random()
        if i % 3 == 0:
            srcs["sshuttle.assembler"] = (assembler_with_comments(rng, extra=rng.choice([None, None, 1])) if k < 0.4 else
                                          nonascii_comment(rng, extra=rng.choice([None, 1])) if k < 0.6 else
                                          gen_source(rng, "utf8", rng.randint(1, 600)))
            if not nonascii_in(srcs["sshuttle.assembler"]):
                srcs["sshuttle.assembler"] += nonascii_comment(rng)
        else:
            srcs["sshuttle.assembler"] = gen_source(rng, "ascii", rng.randint(0, 300)) if k < 0.7 else b""
        if rng.random() < 0.3:
            srcs["sshuttle.cmdline_options"] = gen_source(rng, "ascii", 30)
        if i % 3 == 0:
            a = srcs.pop("sshuttle.assembler")
            sprinkle(rng, srcs)
            srcs["sshuttle.assembler"] = a
            ctx.count("pkg_table_non_ascii_in_every_module")
        options = gen_options(rng, full=rng.random() < 0.3, allow_oos=True)
        if rng.random() < 0.08:
            options = {}                 # empty optdata: empackage falls back to get_module_source
            srcs.setdefault("sshuttle.cmdline_options", b"fallback = 1\n")
        verbose = rng.choice([0, 0, 1, 2, 3])
        argv, writes, packaged = real_connect(options, srcs, stub_zlib=True, verbose=verbose)
        check_read_len(ctx, argv, writes, packaged, options, srcs, "packaging")
        ctx.count("pkg_" + profile)
        ctx.count("pkg_options_" + ("empty" if not options else "in_fragment" if in_fragment(options) else "outside_fragment"))
        ctx.case(("pkg", tuple((a, sha(b)) for a, b in packaged), tuple(opts_canon(options))), nontrivial=True,
                 sample=None if i else {"kind": "packaging", "sources": [(a, len(b)) for a, b in packaged], "options": opts_canon(options),
                         "writes": [len(w) for w in writes]})
        if not in_fragment(options):
            continue
        up = ctx.run_driver(["UPLOAD %s %s" % (tbl_token(packaged), opts_token(options))])[0].split(" ")
        want = "import sys, os; verbosity=%d; stdin = os.fdopen(0, 'rb'); exec(compile(stdin.read(%d), 'assembler.py', 'exec')); sys.exit(98);" \
            % (verbose or 0, int(unhx(up[2])))
        if [hx(w) for w in writes] != up[:2] or up[3] != "1":
            ctx.disagree("connect_upload", {"sources": [(a, len(b)) for a, b in packaged], "options": opts_canon(options)},
                         [hx(w)[:400] for w in writes], [u[:400] for u in up])
        if argv[1:] != ["-c", want] or argv[0] != sys.executable:
            ctx.disagree("bootstrap argv", opts_canon(options), argv, want)
    # options text alone: render vs the real expression, eval vs a real exec
    for i in range(150 if quick else 3000):
        options = gen_options(rng, full=rng.random() < 0.2, allow_oos=True)
        txt = "".join("%s=%r\n" % (k, v) for k, v in list(options.items())).encode("UTF8")
        ns = {}
        exec(compile(txt, "sshuttle.cmdline_options", "exec"), ns)
        back = [(k, type(v).__name__, repr(v)) for k, v in ns.items() if k != "__builtins__"]
        if back != opts_canon(options):
            ctx.violation("options text does not evaluate back to the client's values", {"options": opts_canon(options), "text": txt.decode("utf-8", "replace")})
        ctx.case(("opt", tuple(opts_canon(options))), nontrivial=True)
        if not in_fragment(options):
            ctx.count("optiontext_outside_fragment")
            continue
        ctx.count("optiontext_in_fragment")
        r, e = ctx.run_driver(["RENDER %s" % opts_token(options), "EVAL %s" % hx(txt)])
        if r != "1 " + hx(txt):
            ctx.disagree("render_options", opts_canon(options), hx(txt), r)
        if opts_from_token(e) != back:
            ctx.disagree("eval_options", txt.decode(), back, e)


def part_bootstrap(ctx, scr, rw=None):
    rng = ctx.rng
    quick = ctx.quick()
    # what the client's handshake accepts: two NULs, then client._main's `expected`
    sync = b"\0\0" + unhx(ctx.run_driver(["SYNC"])[0].split(" ")[1])
    cases = []
    # real sources, real zlib
    hows = ["whole", "dribble", "fixed7", "fixed4096", "random", "bounds", "bounds-1", "bounds+1"] if quick else \
        ["whole", "dribble", "fixed2", "fixed3", "fixed7", "fixed4096", "fixed8192", "fixed65536", "fixed70000", "random", "random",
         "random", "bounds", "bounds-1", "bounds+1", "bounds3"]
    for i, how in enumerate(hows):
        # the shipped sources; every third run with non-ASCII comment lines in the (real) assembler
        cases.append({"mode": "real", "srcs": {"sshuttle.assembler": assembler_with_comments(rng, extra=1 if i == 1 else None)} if i % 3 == 1 else None,
                      "real_server": True, "how": how, "sync": sync, "verbose": rng.choice([0, 1, 2]),
                      "options": dict(gen_options(rng, full=True), auto_hosts=False, auto_nets=False)})
        if rw is not None and i % 2 == 0:
            # the same run with -r: ssh (stand-in) -> login shell (real) -> /bin/sh -c ... (real) -> interpreter
            py = [None, "mypy", rw.custom + ".real", None][(i // 2) % 4]
            cases[-1].update(rw=rw, login_shell=["/bin/dash", "/bin/bash"][(i // 2) % 2],
                             rhost=["py3+py", "pyonly", "py3broken+py", "py3only"][(i // 2) % 4] if py is None else "py3+py",
                             remote={"rhostport": rng.choice(["user@host", "host:2222", "u:secret@[2001:db8::1]:22"]), "python": py,
                                     "ssh_cmd": rng.choice([None, "ssh -v", "myssh -o 'ProxyCommand=nc %h %p'"]),
                                     "delim": i % 4 == 0, "shell": None})
    # generated sources, real zlib
    plan = [("tiny", "dribble"), ("tiny", "bounds3"), ("small", "dribble"), ("small", "random"), ("small", "bounds-1"),
            ("medium", "fixed4096"), ("medium", "random"), ("medium", "bounds+1"), ("medium", "dribble"),
            ("pipe", "fixed70000"), ("pipe", "random"), ("pipe", "whole"), ("huge", "random"), ("huge", "fixed65536")]
    if not quick:
        plan = plan * 10 + [(p, h) for p in ("tiny", "small", "medium") for h in ("whole", "fixed2", "fixed3", "fixed8192", "bounds", "bounds3")] * 2 \
            + [("huge", "whole"), ("huge", "fixed70000"), ("pipe", "bounds3"), ("pipe", "fixed8192")]
    for profile, how in plan:
        cases.append({"mode": "real", "srcs": gen_table(rng, profile), "how": how, "profile": profile,
                      "options": gen_options(rng, full=rng.random() < 0.7, allow_oos=rng.random() < 0.3),
                      "extra": rng.choice([b"", b"", b"x", b"\n\n", bytes(rng.randrange(256) for _ in range(rng.randint(1, 300)))])})
    # generated sources, stand-in codec on both sides: identical bytes and cutting for model and implementation
    plan2 = [("tiny", "dribble"), ("small", "dribble"), ("small", "random"), ("small", "bounds3"), ("medium", "random"),
             ("medium", "fixed7"), ("tiny", "bounds-1"), ("small", "fixed2")]
    if not quick:
        plan2 = plan2 * 15
    for profile, how in plan2:
        cases.append({"mode": "stub", "srcs": gen_table(rng, profile), "how": how, "profile": profile,
                      "options": gen_options(rng, full=rng.random() < 0.7),
                      "extra": rng.choice([b"", b"tail", b"\n"])})
    tg = list(NBYTES_TARGETS)
    rng.shuffle(tg)
    groups = [tg[i:i + 4] for i in range(0, len(tg), 4)]
    for g in groups:
        cases.append({"mode": "stub", "srcs": gen_table_nbytes(rng, g, False), "how": rng.choice(["whole", "random", "fixed4096", "bounds3"]),
                      "profile": "nbytes%r" % (g,), "options": gen_options(rng, full=True), "extra": b""})
    for t1 in ([4096, 8192, 65536, 1000] if quick else NBYTES_TARGETS[3:]):
        cases.append({"mode": "real", "srcs": gen_table_nbytes(rng, [t1], True), "how": rng.choice(["whole", "random", "fixed8192"]),
                      "profile": "nbytes%d" % t1, "options": gen_options(rng, full=True), "extra": b""})
    # generated tables: every third one gets non-ASCII text in every module and in the assembler (the real assembler
    # plus comment lines: it is the program under test and has to run)
    gen_cases = [c for c in cases if not c.get("real_server")]
    for i, c in enumerate(gen_cases):
        if i % 3 == 0 or rng.random() < 0.1:
            if c["profile"] != "tiny" and not c["profile"].startswith("nbytes"):
                sprinkle(rng, c["srcs"])
            c["srcs"]["sshuttle.assembler"] = assembler_with_comments(rng, extra=rng.choice([None, None, 1]))
    n_na = sum(1 for c in cases if c["srcs"] and "sshuttle.assembler" in c["srcs"])
    ctx.extra["bootstrap_runs_with_non_ascii_assembler"] = "%d of %d" % (n_na, len(cases))
    # the client is a win32 one: real ssh.connect down its win32 branch, the upload crosses the real helpers.SocketRWShim
    # into a raw pipe that takes 1 byte / at most 1000, 4096, 16383 / a random part / everything but once / everything
    # of what each write() offers; what arrived is then given to the real bootstrap like every upload above
    wplan = [("shipped", "one"), ("shipped", "cap4096"), ("shipped+comments", "random"), ("shipped", "once"), ("shipped", "whole"),
             ("tiny", "one"), ("small", "one"), ("small", "random"), ("medium", "random"), ("medium", "cap1000"), ("pipe", "cap4096"),
             ("pipe", "random"), ("huge", "cap16383")]
    if not quick:
        wplan = wplan * 4 + [(pr, wm) for pr in ("shipped", "shipped+comments", "small", "medium", "pipe") for wm in WIN32_WRITE_MODES] \
            + [("huge", "random"), ("huge", "cap4096"), ("medium", "one")]
    for i, (profile, wm) in enumerate(wplan):
        spec = {"case_seed": rng.getrandbits(32), "profile": profile, "write_mode": wm, "read_mode": ["full", "short", "cap7"][i % 3],
                "codec": "stub" if not profile.startswith("shipped") and i % 4 == 1 else "real", "non_ascii": i % 3 == 0}
        cases.append(win32_case(spec, sync))
    timeouts = win_failed = 0
    for c in cases:
        if c.get("win32") and win_failed >= 2:
            ctx.count("win32_cases_not_run_after_two_failing_ones")       # (each failing one may cost a watchdog period)
            continue
        before = len(ctx.violations)
        timeouts += 1 if bootstrap_case(ctx, scr, c, rng) == "timeout" else 0
        if c.get("win32") and len(ctx.violations) > before:
            win_failed += 1
        if timeouts >= 3:
            ctx.disagree("bootstrap", "three bootstrap runs timed out; remaining cases skipped", "timeout", "-")
            break
    ctx.extra["bootstrap_interpreters_started"] = scr.n


def part_malformed(ctx, scr):
    """hand-made uploads (stand-in codec) fed to the real one-liner + real assembler vs remote_run"""
    rng = ctx.rng
    quick = ctx.quick()
    asm = real_source_bytes("sshuttle.assembler")
    argv = [sys.executable, "-c", "import sys, os; verbosity=0; stdin = os.fdopen(0, 'rb'); "
            "exec(compile(stdin.read(%d), 'assembler.py', 'exec')); sys.exit(98);" % len(asm)]
    # the one-liner text is the one the real connect produces (checked in part B); rebuild it from a real call
    real_argv, _, _ = real_connect({"a": 1}, None, stub_zlib=True)
    argv = real_argv

    class Z(object):
        n = 0

    def pk(z, name, data, lenline=None, tag=None, cutbody=None):
        body = bytes([z.n % 251 if tag is None else tag]) + data + b"\xff"
        z.n += 1
        ll = (b"%d" % len(body)) if lenline is None else lenline
        if cutbody is not None:
            body = body[:cutbody]
        return name + b"\n" + ll + b"\n" + body
    streams = []

    def add(desc, build):
        z = Z()
        z.n = 0
        streams.append((desc, build(z)))
    m = lambda z, n, d=b"x = 1\n", **k: pk(z, n, d, **k)   # noqa: E731
    add("wellformed two modules", lambda z: m(z, b"m1") + m(z, b"m2", b"y = 2\n") + b"\n")
    add("trailing bytes after the terminator", lambda z: m(z, b"m1") + b"\n" + b"leftover bytes")
    add("blank name stops early", lambda z: m(z, b"m1") + b"  \t\n" + m(z, b"m2") + b"\n")
    add("EOF instead of terminator", lambda z: m(z, b"m1") + m(z, b"m2"))
    add("EOF inside the body", lambda z: m(z, b"m1") + m(z, b"m2", b"y = 2222\n", cutbody=4))
    add("EOF inside the length line", lambda z: m(z, b"m1") + b"m2\n12")
    add("EOF right after the name", lambda z: m(z, b"m1") + b"m2\n")
    add("non-digit length", lambda z: m(z, b"m1") + m(z, b"m2", lenline=b"12a") + b"\n")
    add("empty length line", lambda z: m(z, b"m1") + m(z, b"m2", lenline=b"") + b"\n")
    add("length with surrounding blanks", lambda z: m(z, b"m1") + pk(z, b"m2", b"q = 5\n", lenline=b"  8 \r") + b"\n")
    add("length with leading zeros", lambda z: pk(z, b"m1", b"q = 5\n", lenline=b"0008") + b"\n")
    add("length larger than what follows", lambda z: m(z, b"m1") + m(z, b"m2", lenline=b"999") + b"\n")
    add("length zero", lambda z: m(z, b"m1") + b"m2\n0\n" + b"\n")
    add("non-ASCII name", lambda z: m(z, b"m1") + m(z, b"caf\xc3\xa9") + b"\n")
    add("name with blanks around", lambda z: m(z, b"  m1 \r") + m(z, b"\tm2") + b"\n")
    add("name with inner blank", lambda z: m(z, b"m 1") + b"\n")
    add("dotted name, parent uploaded before", lambda z: m(z, b"pkg") + m(z, b"pkg.sub") + m(z, b"pkg.sub.leaf") + b"\n")
    add("dotted name, parent missing", lambda z: m(z, b"m1") + m(z, b"nopkg.sub") + m(z, b"m3") + b"\n")
    add("dotted name, parent is a stdlib module already imported", lambda z: m(z, b"os.c18sub") + b"\n")
    add("dotted name, child before parent", lambda z: m(z, b"pkg.sub") + m(z, b"pkg") + b"\n")
    add("name ending in a dot", lambda z: m(z, b"pkg") + m(z, b"pkg.") + b"\n")
    add("wrong stream position (chunk tag out of order)", lambda z: m(z, b"m1") + m(z, b"m2", tag=7) + b"\n")
    add("same name twice", lambda z: m(z, b"m1", b"a = 1\n") + m(z, b"m1", b"a = 2\n") + b"\n")
    add("empty upload", lambda z: b"")
    add("only the terminator", lambda z: b"\n")
    add("CR LF line ends", lambda z: b"m1\r\n8\r\n" + bytes([0]) + b"q = 5\n\xff" + b"\r\n")
    pre = "_," + hx(b"os") if False else hx(b"os") + "," + hx(b"sys")
    for desc, body in streams:
        for how in (["whole", "dribble"] if quick else ["whole", "dribble", "fixed2", "fixed3", "random", "random"]):
            stream = asm + body
            if desc == "empty upload" and how != "whole":
                continue
            pieces = cut(rng, stream, how, len(asm))
            res = run_child(scr, argv, pieces, stub_zlib=True)
            asm_obs, mods_obs = observed_modules(res)
            cls = crash_class(res)
            # after the loop the assembler imports sshuttle.helpers, which these uploads do not contain: that
            # ImportError is the normal end of a completed loop here
            status = "DONE" if cls in (None, "ImportError", "ModuleNotFoundError") else "CRASH:" + cls
            impl = (status, mods_obs)
            run = ctx.run_driver(["RUN %s %s %s" % (pre, numhex(len(asm)), " ".join(hx(p) for p in pieces)),
                                  "RUNSPEC %s %s %s" % (pre, numhex(len(asm)), hx(stream))])
            _, m_status, m_mods, m_left = parse_run(run[0])
            model = (m_status, [(n, len(d), sha(d)) for n, d in m_mods])
            ctx.case(("malformed", desc, how), nontrivial=True,
                     sample={"kind": "malformed upload", "what": desc, "cut": how, "impl": [status, [(n, l) for n, l, _ in mods_obs]]}
                     if how == "dribble" and desc in ("EOF inside the body", "dotted name, parent missing") else None)
            ctx.count("malformed_" + status.split(":")[0].lower())
            if impl != model:
                ctx.disagree("assembler on a malformed upload", {"what": desc, "cut": how, "stream": hx(body)[:300]},
                             [status, [(n, l, s[:12]) for n, l, s in mods_obs], res["err"][-200:].decode("utf-8", "replace")],
                             [m_status, [(n, l, s[:12]) for n, l, s in model[1]]])
            if run[0] != run[1]:
                ctx.disagree("remote_run (chunks) vs remote_spec (stream)", {"what": desc, "cut": how}, run[0][-200:], run[1][-200:])


REMOTE_VIOLATION = ("the remote shell does not start the documented interpreter (python3, or python if python3 fails; "
                    "--python if given) with the bootstrap one-liner as its only program text")


def remote_case(ctx, rw, c):
    """one remote command line: the REAL ssh.connect builds the argv; posix: the argv is started on the stand-in ssh /
    remote host and what the remote shell started is observed; cmd / powershell: the command line is split by the
    spec-side readers.  -> list of (what, replay) failures (implementation-only oracle)"""
    python = rw.custom if c["python"] == "@custom" else c["python"]      # a path with blanks inside the scratch directory
    remote = {"rhostport": c["rhostport"], "python": python, "ssh_cmd": c["ssh_cmd"], "delim": c["delim"], "shell": c["shell"]}
    srcs = dict((k, bytes.fromhex(v)) for k, v in c["srcs_hex"].items())
    options = c["options"]
    argv, writes, packaged = real_connect(options, srcs, stub_zlib=True, verbose=c["verbose"], remote=remote, bindir=rw.bin)
    a_src = dict(packaged)["sshuttle.assembler"]
    script = spec_oneliner(c["verbose"], len(a_src))
    fails = []
    rep = {"kind": "remote", "case": c, "remote_command": argv[-1][:700], "argv_head": argv[:-1], "expected_program_text": script}
    if (len(argv) >= 2 and argv[-2] == "--") != bool(c["delim"]):
        fails.append(("the '--' delimiter in front of the remote command does not follow --no-cmd-delimiter", rep))
    if c["shell"] in ("cmd", "powershell"):
        words = (cmd_exe_words if c["shell"] == "cmd" else powershell_words)(argv[-1])
        want = [python or "python", "-c", script]
        ctx.count("remote_%s_command_lines" % c["shell"])
        if words != want:
            fails.append((REMOTE_VIOLATION, dict(rep, words_seen_by_the_remote_shell=words, expected_words=want)))
        return fails, argv
    obs = run_remote_argv(rw, argv, c["host"], c["login_shell"], real_connect.sshpass)
    want_py = rw.expected_interpreter(c["host"], python)
    ctx.count("remote_posix_host_%s" % c["host"])
    ctx.count("remote_posix_login_shell_%s" % os.path.basename(c["login_shell"]))
    ctx.count("remote_posix_python_%s" % ("default" if c["python"] is None else "given"))
    rep = dict(rep, started=obs.get("py_name"), started_argv=[a[:400] for a in obs.get("py_argv") or []], exit_status=obs["rc"],
               stderr=obs["err"], expected_interpreter=want_py)
    if obs.get("cmd") != argv[-1] or not obs.get("dest"):
        fails.append(("the stand-in ssh did not receive a destination and the remote command as its last word", rep))
    elif want_py is None:
        # no interpreter on the remote PATH: nothing can be started; the shell's status is what the client diagnoses
        if obs.get("py_name") is not None or obs["rc"] in (0, "timeout"):
            fails.append(("a remote host without python3/python: the remote command reports success or starts something else", rep))
    elif obs.get("py_name") != want_py or obs.get("py_argv") != ["-c", script]:
        fails.append((REMOTE_VIOLATION, rep))
    return fails, argv


def gen_remote_cases(ctx, rw):
    rng = ctx.rng
    quick = ctx.quick()
    asm_real = real_source_bytes("sshuttle.assembler")
    small = dict((k, ("# %s\n" % k).encode()) for k in SRCNAMES)
    dests = ["host", "user@host", "user:pw@host:2222", "[::1]:22", "u@2001:db8::1", "ho-st.example.com:22"]
    ssh_cmds = [None, "ssh", "ssh -v", "myssh -o 'ProxyCommand=nc %h %p' -F /dev/null", "ssh -i '/home/u/my key'"]
    out = []

    def add(**kw):
        c = {"rhostport": "user@host", "python": None, "ssh_cmd": None, "delim": True, "shell": None, "verbose": 0,
             "host": "py3+py", "login_shell": "/bin/dash", "options": gen_options(rng, full=True)}
        c.update(kw)
        srcs = dict(small)
        k = rng.random()
        srcs["sshuttle.assembler"] = asm_real if k < 0.4 else assembler_with_comments(rng) if k < 0.7 else \
            gen_source(rng, "ascii", rng.choice([0, 1, 9, 10, 99, 100, 999, 1000, 9999, 10000]))
        c["srcs_hex"] = dict((n, d.hex()) for n, d in srcs.items())
        out.append(c)
    # every kind of remote host x both login shells x default interpreter / --python
    for host in RemoteWorld.HOSTS:
        for sh in ("/bin/dash", "/bin/bash"):
            add(host=host, login_shell=sh, verbose=rng.randint(0, 3))
            add(host=host, login_shell=sh, python=rng.choice(["python3", "python", "mypy", "@custom"]), verbose=rng.randint(0, 3))
    for py in (None, "mypy", "@custom"):
        for delim in (True, False):
            for shell in (None, "sh", "bash"):
                add(python=py, delim=delim, shell=shell, ssh_cmd=rng.choice(ssh_cmds), rhostport=rng.choice(dests))
    for shell in ("cmd", "powershell"):
        for py in (None, "python3", "py"):
            for v in (0, 1, 2, 3):
                add(shell=shell, python=py, verbose=v, delim=rng.random() < 0.5, rhostport=rng.choice(dests))
    for _ in range(40 if quick else 1500):
        shell = rng.choice([None, None, None, "sh", "cmd", "powershell"])
        py = rng.choice([None, None, "python3", "python", "mypy", "@custom"]) if shell not in ("cmd", "powershell") else \
            rng.choice([None, "python3", "py"])
        host = rng.choice(RemoteWorld.HOSTS)
        if py in ("python3", "python") and not os.path.exists(os.path.join(rw.paths[("rec", host)], py)):
            host = "py3+py"
        add(rhostport=rng.choice(dests), python=py, ssh_cmd=rng.choice(ssh_cmds), delim=rng.random() < 0.7, shell=shell,
            verbose=rng.choice([0, 0, 1, 2, 3, 7, 12]), host=host, login_shell=rng.choice(["/bin/dash", "/bin/bash"]))
    return out


def part_remote(ctx, scr):
    """-r given: the argv of the real ssh.connect, started for real on a stand-in ssh whose remote side is a real
    POSIX shell (dash and bash) over hosts with python3+python / only one of them / a python3 that fails / none"""
    rw = RemoteWorld(scr)
    cases = gen_remote_cases(ctx, rw)
    lines = []
    for c in cases:
        fails, argv = remote_case(ctx, rw, c)
        a_len = len(bytes.fromhex(c["srcs_hex"]["sshuttle.assembler"]))
        ctx.case(("remote", c["rhostport"], c["python"], c["ssh_cmd"], c["delim"], c["shell"], c["verbose"], c["host"],
                  c["login_shell"], a_len), nontrivial=True,
                 sample={"kind": "remote command", "shell": c["shell"] or "posix", "python": c["python"], "remote_host": c["host"],
                         "login_shell": c["login_shell"], "remote_command": argv[-1][:160]} if len(lines) in (0, 7) else None)
        for what, rep in fails:
            ctx.violation(what, rep)
        kind = {"cmd": "cmd", "powershell": "ps"}.get(c["shell"], "py" if c["python"] else "sh")
        py = rw.custom if c["python"] == "@custom" else c["python"]
        lines.append(("PYCMD %s %s %s %s" % (kind, hx((py or "").encode()), numhex(c["verbose"]), numhex(a_len)), c, argv))
    out = ctx.run_driver([l for l, _, _ in lines])
    for (ln, c, argv), o in zip(lines, out):
        if unhx(o) != argv[-1].encode():
            ctx.disagree("remote command line (pycmd)", dict((k, c[k]) for k in ("python", "shell", "verbose")), argv[-1][:400],
                         unhx(o).decode("latin-1")[:400])
    # the model's reading of a POSIX command line against the stdlib's (shlex in POSIX mode), on the outer command
    import shlex
    posix = [argv[-1] for _, c, argv in lines if c["shell"] not in ("cmd", "powershell")]
    out = ctx.run_driver(["SHWORDS %s" % hx(t.encode()) for t in posix])
    for t, o in zip(posix, out):
        want = "NONE"
        try:
            want = ",".join(hx(w.encode()) for w in shlex.split(t)) or "_"
        except ValueError:
            pass
        if o != want and not (o == "NONE" and "$" in t):
            ctx.disagree("sh_words vs shlex.split", t[:300], want[:300], o[:300])
    return rw


class StopLoop(Exception):
    pass


def client_trace(options_extra, server_chunks, poll, seed_hosts, accept, srcs=None):
    """the real client._main on the real ssh.connect inside the boundary, until the first runonce returns"""
    import sshuttle.client as client
    import sshuttle.ssnet as ssnet
    import sshuttle.helpers as helpers

    class L(object):
        v4 = object()
        v6 = None

        def add_handler(self, *a):
            pass

    class FW(object):
        method = None
        auto_nets = []
    with Boundary(srcs, stub_zlib=True) as bd:
        ev = bd.events
        real_send = ssnet.Mux.send
        real_runonce = ssnet.runonce
        old = (ssnet.Mux.send, ssnet.runonce, client.log, helpers.log, ssnet.select)
        real_select = ssnet.select

        class SelectShim(object):
            # a start-up that has nothing to write would block in select() for ever: report it instead
            def __getattr__(self, k):
                return getattr(real_select, k)

            @staticmethod
            def select(r, w, x, timeout=None):
                res = real_select.select(r, w, x, 0.05 if timeout is None else timeout)
                if timeout is None and not (res[0] or res[1] or res[2]):
                    ev.append("BLOCKED")
                    raise StopLoop()
                return res

        def send(self, channel, cmd, data):
            n = len(self.outbuf)
            real_send(self, channel, cmd, data)
            ev.append("Q:" + hx(bytes(self.outbuf[n])))

        def runonce(handlers, mux):
            bd.sock.send_script[:] = [accept]
            try:
                real_runonce(handlers, mux)
            finally:
                bd.sock.send_script[:] = []
            raise StopLoop()

        at_ok = []

        def log(s):
            if "Connected to server" in s:
                ev.append("OK")
                at_ok.append(bd.sock.consumed)
        real_connect_fn = bd.ssh.connect

        def connect_then_script(*a, **k):
            # the session options the client hands to the packager must be the values it was called with
            want = {"latency_control": options_extra.get("latency_control", False),
                    "latency_buffer_size": options_extra.get("latency_buffer_size", 0),
                    "auto_hosts": options_extra.get("auto_hosts", False),
                    "to_nameserver": options_extra.get("to_nameserver"),
                    "auto_nets": options_extra.get("auto_nets", False)}
            got = k.get("options")
            if got != want:
                ev.append("OPTIONS-ALTERED:%r" % (sorted((got or {}).items()),))
            r = real_connect_fn(*a, **k)
            bd.sock.script[:] = [bytes(c) for c in server_chunks]
            bd.proc.rv = poll
            return r
        ssnet.Mux.send = send
        ssnet.runonce = runonce
        ssnet.select = SelectShim()
        client.log = helpers.log = log
        bd.ssh.connect = connect_then_script
        so = sys.stdout
        # what cmdline.main does with --latency-buffer-size before it calls client.main
        old_lbs = ssnet.LATENCY_BUFFER_SIZE
        if options_extra.get("latency_buffer_size"):
            ssnet.LATENCY_BUFFER_SIZE = options_extra["latency_buffer_size"]
        try:
            try:
                client._main(L(), None, FW(), None, None, None, options_extra.get("latency_control", False),
                             options_extra.get("latency_buffer_size", 0), None, seed_hosts,
                             options_extra.get("auto_hosts", False), options_extra.get("auto_nets", False), False,
                             options_extra.get("to_nameserver"), False, None)
                ev.append("RETURNED")
            except StopLoop:
                pass
            except helpers.Fatal as e:
                msg = str(e)
                ev.append("FATAL:1" if "server died" in msg else "FATAL:2" if "expected server init string" in msg else "FATAL:" + msg[:40])
            except AssertionError:
                ev.append("CRASH")
            except Exception as e:
                ev.append("EXC:" + type(e).__name__)
        finally:
            ssnet.Mux.send, ssnet.runonce, client.log, helpers.log, ssnet.select = old
            ssnet.LATENCY_BUFFER_SIZE = old_lbs
            bd.ssh.connect = real_connect_fn
            sys.stdout = so
        client_trace.consumed_at_ok = at_ok[0] if at_ok else None
        return list(ev), list(bd.sock.rec), list(bd.packaged)


ANNOUNCEMENT = b"SSHUTTLE0001"     # what the property calls "the server has announced itself": server.py's first 12 bytes after two NULs

WHAT_CONNECTED_SHORT = ("the client reported 'Connected to server.' and went on to the multiplexer although the server never announced "
                        "itself: the server's output ENDED before the 12 bytes of the announcement were complete (ssh still alive) -- "
                        "accepted must mean that the 12 bytes after the two NULs are exactly SSHUTTLE0001, so a proper prefix of it, or "
                        "nothing at all, says nothing about the protocol version the other end speaks")
WHAT_CONNECTED_OTHER = ("the client reported 'Connected to server.' and went on to the multiplexer although the 12 bytes after the two "
                        "NULs of the server's output are not the announcement SSHUTTLE0001: the two ends need not speak the same "
                        "protocol version")
WHAT_REFUSED_ANNOUNCED = ("the client refused ('expected server init string') a server that announced itself with exactly SSHUTTLE0001 "
                          "after two NULs while ssh was alive: the announcement check does not depend on the stream alone")


def announced(stream):
    """spec side, from the property text alone: (did the server announce itself, number of bytes that follow the second NUL).
    announced <=> the 12 bytes after the second NUL are exactly the announcement (Coq: c18_connected_iff_announced)"""
    i1 = stream.find(b"\0")
    i2 = stream.find(b"\0", i1 + 1) if i1 >= 0 else -1
    after = stream[i2 + 1:] if i2 >= 0 else b""
    return after[:len(ANNOUNCEMENT)] == ANNOUNCEMENT, len(after)


def announcement_verdict(ctx, ev, sc, poll, seed, accept):
    """the oracle of "... until the server has announced itself, so both ends always speak the same protocol version" on one
    recorded start-up: judged against the stream-level specification (python reading of the property text, cross-checked
    with the extracted hs_spec), NOT against the model's trace.  Returns the number of violations reported."""
    stream = b"".join(sc)
    ok_spec, nafter = announced(stream)
    mline = ctx.run_driver(["HSSPEC %s" % hx(stream)])[0]
    if (mline.split(" ")[0] == "1") != ok_spec:
        ctx.disagree("announcement: the extracted hs_spec and the reading of the property text differ", hx(stream)[:300], ok_spec, mline[:80])
    connected = "OK" in ev
    rep = {"kind": "client_announcement", "server_deliveries": [hx(c) for c in sc], "poll": poll,
           "seed_hosts": None if seed is None else [s[:20] for s in seed], "accept": accept,
           "server_output_hex": hx(stream)[:400], "bytes_after_the_second_nul": nafter, "announced_per_specification": ok_spec,
           "trace": [e[:60] for e in ev]}
    if connected and not ok_spec:
        idx = ev.index("OK")
        rep["written_to_the_unannounced_peer_afterwards"] = [e[:60] for e in ev[idx + 1:] if e.startswith("W:")]
        ctx.violation(WHAT_CONNECTED_SHORT if nafter < len(ANNOUNCEMENT) else WHAT_CONNECTED_OTHER, rep)
        return 1
    if not connected and ok_spec and poll is None and "FATAL:2" in ev:
        ctx.violation(WHAT_REFUSED_ANNOUNCED, rep)
        return 1
    return 0


def short_announcement_scripts(rng, quick):
    """server outputs that END inside (or before) the announcement, ssh alive: every length 0..11 of the announcement after
    two NULs, after login noise, with NULs in the noise, delivered whole / in pieces / byte by byte; plus outputs that end
    before the second NUL.  (An end of file here is what a remote python that dies at start-up, a wrapper that closes
    stdout, or a daemonised ssh leaves behind while the process we poll() is still there.)"""
    out = []
    for k in range(len(ANNOUNCEMENT)):
        pre = ANNOUNCEMENT[:k]
        out.append([b"\0\0" + pre])
        if k in (0, 1, 8, 11) or not quick:
            out.append([b"Last login: today\r\n\0", b"\xe9\0" + pre])
            out.append([b"\0", b"\0"] + [pre[i:i + 1] for i in range(k)])
    out += [[b"\0", b"\0"], [b"x\0y"], [b"a\0b\0"], [b"a\0b\0c\0SSHUTTLE000"]]
    for _ in range(4 if quick else 40):
        k = rng.randrange(len(ANNOUNCEMENT))
        noise = bytes(rng.randint(1, 255) for _ in range(rng.choice([0, 1, 5, 40])))
        s = noise + b"\0" + bytes(rng.randint(1, 255) for _ in range(rng.choice([0, 0, 3]))) + b"\0" + ANNOUNCEMENT[:k]
        i = rng.randint(0, len(s))
        out.append([c for c in (s[:i], s[i:]) if c])
    return out


def part_client(ctx):
    rng = ctx.rng
    quick = ctx.quick()
    sync = b"\0\0SSHUTTLE0001"
    scripts = [[sync], [sync[:5], sync[5:]], [bytes([c]) for c in sync], [b"motd noise\0", b"more\0SSHUTTLE", b"0001", b"SS\0\0"],
               [b"\0\0SSHUTTLE0002"], [b"\0\0SSHUTTLE000"], [], [b"\0"], [b"garbage without nul"], [sync + b"SS\0\0\x42\x01\0\0"],
               [b"\0", b"\0", b"SSHUTTLE", b"0001"], [b"\0\0sshuttle0001"]]
    n = 0
    srcs_small = dict((k, b"# %s\n" % k.encode()) for k in SRCNAMES)
    srcs_small_na = dict((k, ("# %s — é → \U0001f600\n" % k).encode("utf-8")) for k in SRCNAMES)
    combos = []
    for sc in scripts:
        for poll in (None, 0, 98, 255) if not quick else (None, 98):
            for seed in (None, [], ["h1", "h2.example"], ["x" * 70000]):
                for accept in (None, 0, 1, 7, 15, 100000):
                    if quick and rng.random() < 0.6 and not (poll is None and seed is None and accept == 100000):
                        continue
                    combos.append((sc, poll, seed, accept))
    # the server's output ends inside the announcement: ssh alive (the case that matters) with and without seed hosts,
    # first flush taken whole / refused; ssh already gone for a few of them
    for k, sc in enumerate(short_announcement_scripts(rng, quick)):
        ctx.count("client_short_announcement_streams")
        grid = [(None, None, 100000), (None, ["h1", "h2.example"], 7 if k % 2 else None)]
        if not quick:
            grid += [(None, [], 0), (None, ["x" * 70000], 100000), (0, None, 100000), (255, ["h1"], 1)]
        elif k % 5 == 0:
            grid.append((rng.choice([0, 98, 255]), None, 100000))
        for poll, seed, accept in grid:
            combos.append((sc, poll, seed, accept))
    for sc, poll, seed, accept in combos:
        options = gen_options(rng, full=True)
        if n % 4 == 1:
            # a tiny latency budget: smaller than the multiplexer's very first message
            options["latency_buffer_size"] = rng.choice([1, 2, 5, 6, 7, 8, 14, 15, 16])
            ctx.count("client_tiny_latency_budget")
        ev, writes, packaged = client_trace(options, sc, poll, seed, accept,
                                            (srcs_small_na if n % 3 == 2 else srcs_small) if n % 3 else None)
        n += 1
        c1, c2 = (writes + [b"", b""])[:2]
        seedtok = "-" if seed is None else "S" + hx("\n".join(seed).encode())
        line = "CLIENT %s %s %s %s %s %s" % (hx(c1), hx(c2), "-" if poll is None else numhex(poll), seedtok,
                                              "-" if accept is None else numhex(accept), " ".join(hx(c) for c in sc))
        mo = ctx.run_driver([line])[0]
        m_ev, m_before, m_after = [x.strip() for x in mo.split("|")]
        impl_s = ",".join(ev)
        ctx.case(("client", tuple(sc), poll, tuple(seed) if seed is not None else None, accept), nontrivial=True,
                 sample=None if n not in (3, 40) else {"kind": "client start-up", "server_deliveries": [hx(c) for c in sc], "poll": poll,
                         "seed_hosts": seed if seed is None or len("".join(seed)) < 100 else "70000 bytes", "first_write_accepts": accept,
                         "trace": [e[:40] for e in ev]})
        ctx.count("client_" + ("syncok" if "OK" in ev else "fatal"))
        # oracle on the implementation alone: before OK only the two uploads are written
        idx = ev.index("OK") if "OK" in ev else len(ev)
        wb = [e for e in ev[:idx] if e.startswith("W:")]
        asm_src = dict(packaged).get("sshuttle.assembler", b"")
        if len(wb) != 2 or unhx(wb[0][2:]) != asm_src or not unhx(wb[1][2:]).startswith(b"sshuttle\n"):
            ctx.violation("client wrote something other than the two uploads before the sync string was verified",
                          {"trace": [e[:60] for e in ev], "server_deliveries": [hx(c) for c in sc], "poll": poll,
                           "seed_hosts": None if seed is None else [s[:20] for s in seed], "accept": accept})
        # no read-ahead on the ssh socket: when the announcement has been verified the client has taken
        # exactly the bytes up to its end from the socket — anything more would sit in a private buffer
        # that select() cannot see (the multiplexer would never be woken for it)
        stream = b"".join(sc)
        i1 = stream.find(b"\0")
        i2 = stream.find(b"\0", i1 + 1) if i1 >= 0 else -1
        cao = getattr(client_trace, "consumed_at_ok", None)
        if "OK" in ev and i2 >= 0 and cao is not None and cao > i2 + 1 + 12:
            ctx.violation("the client read ahead of the server's announcement on the ssh socket: bytes that follow it "
                          "are held in a buffer select() cannot see",
                          {"server_deliveries": [hx(c) for c in sc], "bytes_taken_from_the_socket": cao,
                           "end_of_announcement": i2 + 13})
        announcement_verdict(ctx, ev, sc, poll, seed, accept)
        alt = [e for e in ev if e.startswith("OPTIONS-ALTERED:")]
        if alt:
            ev = [e for e in ev if not e.startswith("OPTIONS-ALTERED:")]
            impl_s = ",".join(ev)
            ctx.violation("the client altered a session option between its own arguments and the packaged upload",
                          {"given": dict((k2, repr(v)) for k2, v in options.items()), "packaged": alt[0][16:][:400]})
        if impl_s != m_ev:
            ctx.disagree("client_startup trace", line[-300:], [e[:80] for e in ev], [e[:80] for e in m_ev.split(",")],
                         holds=(len(wb) == 2))


# ---------------------------------------------------------------------------
# G  completeness of the uploaded program, for every combination of the session options
#
# "The remote end runs the client's own code": byte identity of every chunk that IS sent says nothing about a module that
# is NOT sent.  Two oracles, both on the implementation alone, evaluated for every combination of
# auto_hosts x seed hosts given/absent x auto_nets x latency control:
#   static : every sshuttle module named by an import statement (module level or inside a function) of an uploaded source
#            -- and of the assembler, which imports the server after its loop -- is itself in the upload (module-level
#            imports: EARLIER in the upload).  The upload is read back from the bytes the real ssh.connect wrote.
#   probe  : the server assembled by the real assembler from that upload, in a real interpreter that cannot import
#            sshuttle.* from disk, answers the handshake and then acts on every kind of message the client sends first on a
#            channel (client.py: CMD_HOST_REQ :823, CMD_TCP_CONNECT :532, CMD_DNS_REQ :604, CMD_UDP_OPEN :566, CMD_PING) and
#            announces its routes (CMD_ROUTES, server.py:330) without dying: a CMD_PING sent behind each message is answered
#            with the matching CMD_PONG, the process is alive afterwards, no traceback on its stderr.

class ProbeFail(Exception):
    pass


def parse_upload(payload, stub_zlib=False):
    """spec-side reader of ssh.connect's second write: [(module name, source bytes)] in stream order
    (name line, length line, that many compressed bytes on one shared stream, blank name ends)"""
    import io
    import zlib
    if stub_zlib:
        zm = types.ModuleType("zlib")
        exec(STUB_ZLIB, zm.__dict__)
        z = zm.decompressobj()
    else:
        z = zlib.decompressobj()
    f = io.BytesIO(payload)
    mods = []
    while True:
        name = f.readline().strip()
        if not name:
            break
        n = int(f.readline())
        mods.append((name.decode("ascii"), z.decompress(f.read(n))))
    return mods


def sshuttle_imports(modname, src):
    """[(lineno, inside_function, module wanted, name wanted from it or None)] for every import of sshuttle code in src"""
    import ast
    tree = ast.parse(src, modname)
    found = []

    def walk(node, depth):
        for ch in ast.iter_child_nodes(node):
            d = depth + 1 if isinstance(ch, (ast.FunctionDef, ast.AsyncFunctionDef, ast.Lambda)) else depth
            if isinstance(ch, ast.Import):
                for al in ch.names:
                    if al.name.split(".")[0] == "sshuttle":
                        found.append((ch.lineno, depth > 0, al.name, None))
            elif isinstance(ch, ast.ImportFrom):
                base = ch.module or ""
                if ch.level:
                    # relative to the package the module lives in (sshuttle/__init__ is the package itself)
                    pkg = modname.split(".")
                    if modname != "sshuttle":
                        pkg = pkg[:-1]
                    pkg = pkg[:max(0, len(pkg) - (ch.level - 1))] or ["?"]
                    base = ".".join(pkg + ([base] if base else []))
                if base.split(".")[0] == "sshuttle":
                    for al in ch.names:
                        found.append((ch.lineno, depth > 0, base, al.name))
            walk(ch, d)
    walk(tree, 0)
    return found


def bound_names(src):
    """names a module source can bind (assignment targets, defs, classes, import aliases), anywhere in it"""
    import ast
    out = set()
    for n in ast.walk(ast.parse(src)):
        if isinstance(n, ast.Name) and isinstance(n.ctx, ast.Store):
            out.add(n.id)
        elif isinstance(n, (ast.FunctionDef, ast.AsyncFunctionDef, ast.ClassDef)):
            out.add(n.name)
        elif isinstance(n, (ast.Import, ast.ImportFrom)):
            for al in n.names:
                out.add(al.asname or al.name.split(".")[0])
    return out


def missing_imports(assembler_src, uploaded):
    """-> [(importing module, lineno, inside_function, missing module name, why)] for one upload"""
    order = dict((n, i) for i, (n, _) in enumerate(uploaded))
    srcs = dict(uploaded)
    miss = []
    units = [("sshuttle.assembler", assembler_src, len(uploaded))] + [(n, s, order[n]) for n, s in uploaded]
    for modname, src, pos in units:
        if modname == "sshuttle.cmdline_options":
            continue                     # synthesised option text: assignments only
        try:
            imps = sshuttle_imports(modname, src)
        except SyntaxError:
            continue                     # not this oracle's business (ASSUMPTIONS: sources are valid Python)
        for lineno, infunc, want, name in imps:
            parts = want.split(".")
            need = [".".join(parts[:k]) for k in range(1, len(parts) + 1)]
            if name is not None and name != "*":
                sub = want + "." + name
                if sub in order:
                    need.append(sub)
                elif want in srcs and want != "sshuttle.cmdline_options":
                    try:
                        ok = name in bound_names(srcs[want])
                    except SyntaxError:
                        ok = True
                    if not ok:
                        miss.append((modname, lineno, infunc, sub, "neither an uploaded module nor a name bound in %s" % want))
            for m in need:
                if m not in order:
                    miss.append((modname, lineno, infunc, m, "not among the uploaded modules"))
                elif not infunc and order[m] >= pos and m != modname:
                    miss.append((modname, lineno, infunc, m, "uploaded only AFTER the module that imports it at module level"))
    return miss


def probe_options(auto_hosts, auto_nets, latency_control, ns, latency_buffer_size=32768):
    return {"latency_control": latency_control, "latency_buffer_size": latency_buffer_size, "auto_hosts": auto_hosts,
            "to_nameserver": ns, "auto_nets": auto_nets}


def effect_mismatches(options, eff):
    """C18 "the session options arrive with identical values", judged on what the RUNNING server has put into effect
    (eff: the prelude's 'effect' record) against what the client uses (options: what client._main handed to ssh.connect;
    the client's own multiplexer uses latency_buffer_size if it is non-zero, else the module's default — cmdline.py:35-37).
    -> [(option, client's value, server's value in effect)]"""
    bad = []
    m = re.search(br"^LATENCY_BUFFER_SIZE = (\d+)\s*$", real_source_bytes("sshuttle.ssnet"), re.M)
    CLIENT_DEFAULT_LATENCY_BUFFER_SIZE = int(m.group(1))
    if eff is None:
        return [("(all)", "-", "the running server's values could not be observed (server.main was never entered?)")]
    want = repr(options["latency_buffer_size"] or CLIENT_DEFAULT_LATENCY_BUFFER_SIZE)
    if eff["ssnet_LATENCY_BUFFER_SIZE"] != want:
        bad.append(("latency_buffer_size", want, "sshuttle.ssnet.LATENCY_BUFFER_SIZE = %s" % eff["ssnet_LATENCY_BUFFER_SIZE"]))
    for k in ("latency_control", "auto_hosts", "auto_nets", "to_nameserver", "latency_buffer_size"):
        for when in ("main_args", "main_now"):
            if eff[when].get(k) != repr(options[k]):
                bad.append((k, repr(options[k]), "server.main holds %s (%s)" % (eff[when].get(k),
                            "as called" if when == "main_args" else "while serving")))
                break
    return bad


def probe_session(scr, options, seed_hosts, sync=None, timeout=12, brief=False):
    """One session with the really assembled real server.  options: the dict handed to the real ssh.connect, except that
    to_nameserver is replaced by '127.0.0.1@<port of a datagram socket of the harness>'.  seed_hosts: list or None, as
    client._main gets it (None: the client sends no CMD_HOST_REQ).
    -> dict(failed=None | (step, message), steps=[...], frames=[...], stderr=..., counts={...})"""
    import select
    import signal
    import struct
    import sshuttle.ssnet as ssnet
    expected = sync or b"SSHUTTLE0001"
    udp = socket.socket(socket.AF_INET, socket.SOCK_DGRAM)
    udp.bind(("127.0.0.1", 0))
    closed = socket.socket(socket.AF_INET, socket.SOCK_STREAM)
    closed.bind(("127.0.0.1", 0))                 # bound, never listening: a connect() to it is refused
    options = dict(options, to_nameserver="127.0.0.1@%d" % udp.getsockname()[1])
    argv, writes, packaged = real_connect(options)
    scr.n += 1
    home = os.path.join(scr.dir, "home%d" % scr.n)
    os.makedirs(home)
    errpath = os.path.join(home, "stderr")
    env = {"PATH": os.environ.get("PATH", ""), "PYTHONPATH": scr.site, "C18_LOG": os.path.join(home, "log.jsonl"),
           "PYTHONDONTWRITEBYTECODE": "1", "PYTHONHASHSEED": "0", "LANG": "C.UTF-8", "HOME": home, "C18_EFFECT": "1"}
    a, b = socket.socketpair()
    errf = open(errpath, "wb")
    p = subprocess.Popen(argv, stdin=b.fileno(), stdout=b.fileno(), stderr=errf, env=env, close_fds=True, cwd=home,
                         start_new_session=True)
    b.close()
    errf.close()
    a.settimeout(timeout)
    st = {"buf": b"", "frames": [], "counts": {}, "step": "the upload", "seen": set()}
    steps = []
    deadline = time.time() + timeout

    def cnt(k):
        st["counts"][k] = st["counts"].get(k, 0) + 1

    def fill(until):
        """wait for more bytes from the server (serving the harness's nameserver / datagram peer meanwhile)"""
        while True:
            left = min(until, deadline) - time.time()
            if left <= 0:
                return False
            r, _, _ = select.select([a, udp], [], [], left)
            if udp in r:
                data, peer = udp.recvfrom(4096)
                cnt("datagram_received_from_server")
                st["seen"].add("datagram:" + ("dns" if data.startswith(b"\x12\x34") else data.decode("latin-1")))
                if data.startswith(b"\x12\x34"):
                    udp.sendto(data[:2] + b"\x81\x80" + data[4:], peer)      # a reply to the DNS request
            if a in r:
                d = a.recv(65536)
                if not d:
                    raise ProbeFail("the server closed the connection")
                st["buf"] += d
                return True

    def read_exact(n, until):
        while len(st["buf"]) < n:
            if not fill(until):
                raise ProbeFail("no answer from the server within %.0f s" % timeout)
        d, st["buf"] = st["buf"][:n], st["buf"][n:]
        return d

    def frame(until):
        s1, s2, chan, cmd, dlen = struct.unpack("!ccHHH", read_exact(ssnet.HDR_LEN, until))
        if (s1, s2) != (b"S", b"S"):
            raise ProbeFail("the server's output is not a multiplexer frame")
        data = read_exact(dlen, until)
        st["frames"].append((chan, ssnet.cmd_to_name.get(cmd, hex(cmd)), len(data)))
        cnt("frame_" + ssnet.cmd_to_name.get(cmd, hex(cmd)))
        st["seen"].add((chan, cmd))
        return chan, cmd, data

    def send(chan, cmd, data):
        a.sendall(struct.pack("!ccHHH", b"S", b"S", chan, cmd, len(data)) + data)

    def ping(label, wait_for=None, wait_s=0.0):
        """CMD_PING behind the message(s) of this step; the matching CMD_PONG must come back.  wait_for: a frame kind
        worth waiting for (at most wait_s) before the ping, so that a server dying a moment later is noticed"""
        if wait_for is not None:
            t_end = time.time() + wait_s
            try:
                while time.time() < t_end:
                    if not st["buf"] and not fill(t_end):
                        break
                    if frame(time.time() + 2)[1] == wait_for:
                        break
            except socket.timeout:
                pass
        tag = ("c18-probe-%d-%s" % (len(steps), label)).encode()
        send(0, ssnet.CMD_PING, tag)
        while True:
            chan, cmd, data = frame(deadline)
            if cmd == ssnet.CMD_PONG and data == tag:
                break
        steps.append(label)

    failed = None
    try:
        try:
            a.sendall(writes[0] + writes[1])
            # the handshake as client._main does it: skip to the second NUL, then the announcement
            st["step"] = "the handshake"
            for _ in range(2):
                while read_exact(1, deadline) != b"\0":
                    pass
            got = read_exact(len(expected), deadline)
            if got != expected:
                raise ProbeFail("announcement %r instead of %r" % (got, expected))
            steps.append("handshake")
            st["step"] = "start-up (the CMD_ROUTES announcement, auto_nets=%r)" % options["auto_nets"]
            while frame(deadline)[1] != ssnet.CMD_ROUTES:      # (the multiplexer's own first CMD_PING comes before it)
                pass
            steps.append("routes")
            st["step"] = "CMD_PING"
            ping("ping")
            st["step"] = "CMD_TCP_CONNECT (to a closed port)"
            send(1, ssnet.CMD_TCP_CONNECT, b"%d,%s,%d" % (socket.AF_INET, b"127.0.0.1", closed.getsockname()[1]))
            ping("tcp_connect")
            if brief:
                raise StopLoop()
            st["step"] = "CMD_DNS_REQ"
            send(2, ssnet.CMD_DNS_REQ, b"\x12\x34\x01\x00\x00\x01\x00\x00\x00\x00\x00\x00\x07example\x03com\x00\x00\x01\x00\x01")
            ping("dns_req", ssnet.CMD_DNS_RESPONSE, 0.5)
            st["step"] = "CMD_UDP_OPEN"
            send(3, ssnet.CMD_UDP_OPEN, b"%d" % socket.AF_INET)
            send(3, ssnet.CMD_UDP_DATA, b"127.0.0.1,%d,c18-datagram" % udp.getsockname()[1])
            ping("udp_open")
            send(3, ssnet.CMD_UDP_CLOSE, b"")
            if seed_hosts is not None:
                st["step"] = "CMD_HOST_REQ"
                # client.py:823
                send(0, ssnet.CMD_HOST_REQ, str.encode("\n".join(seed_hosts)))
                ping("host_req")
                # the host watcher is a child of the server; a watcher that cannot start takes the server down a moment later
                # (server.py main loop: waitpid at the top of the NEXT turn), i.e. after it has answered one more message
                ping("host_req_later", ssnet.CMD_HOST_LIST, 0.4)
                ping("host_req_last")
            # every message was followed by its CMD_PONG; the server must also have ACTED on each of them
            def unserved():
                u = []
                if not ({(1, ssnet.CMD_TCP_EOF), (1, ssnet.CMD_TCP_STOP_SENDING)} & st["seen"]):
                    u.append("CMD_TCP_CONNECT to a closed port (neither CMD_TCP_EOF nor CMD_TCP_STOP_SENDING came back on the channel)")
                if "datagram:dns" not in st["seen"] or (2, ssnet.CMD_DNS_RESPONSE) not in st["seen"]:
                    u.append("CMD_DNS_REQ (request not forwarded to to_nameserver / no CMD_DNS_RESPONSE)")
                if "datagram:c18-datagram" not in st["seen"]:
                    u.append("CMD_UDP_OPEN + CMD_UDP_DATA (datagram not sent on)")
                return u
            t_end = time.time() + 1.5
            while unserved() and time.time() < t_end:
                if not st["buf"] and not fill(t_end):
                    break
                if st["buf"]:
                    frame(t_end + 1)
            if unserved():
                st["step"] = unserved()[0]
                raise ProbeFail("the server answered the CMD_PING behind it but never acted on the message")
            st["step"] = "the end of the probe (every message had been answered)"
            time.sleep(0.05)
            if p.poll() is not None:
                raise ProbeFail("the server process ended by itself with exit status %r" % p.returncode)
        except StopLoop:
            pass
        except ProbeFail as e:
            failed = (st["step"], str(e))
        except (OSError, socket.timeout) as e:
            failed = (st["step"], "%s: %s" % (type(e).__name__, e))
    finally:
        try:
            a.close()
        except OSError:
            pass
        try:
            p.wait(0.3 if failed is None else 2)
        except subprocess.TimeoutExpired:
            pass
        try:
            os.killpg(p.pid, signal.SIGKILL)
        except OSError:
            pass
        try:
            p.wait(5)
        except subprocess.TimeoutExpired:
            pass
        udp.close()
        closed.close()
    with open(errpath, "rb") as f:
        err = f.read().decode("utf-8", "replace")
    log = []
    if os.path.exists(env["C18_LOG"]):
        with open(env["C18_LOG"]) as f:
            log = [json.loads(l) for l in f if l.strip()]
    shutil.rmtree(home, ignore_errors=True)
    tb_last = None
    if "Traceback (most recent call last)" in err:
        lines = [l for l in err.split("\n") if l.strip()]
        # the exception line of the LAST traceback (server.py logs through its ' s: ' prefix)
        for l in reversed(lines):
            if re.match(r"^( s: )?[A-Za-z_][\w.]*(Error|Exception|Fatal|Exit)\b", l.strip()) or re.match(r"^[A-Za-z_][\w.]*: ", l.strip()):
                tb_last = l.strip()
                break
    if failed is None and tb_last is not None and re.search(r"ModuleNotFoundError|ImportError", err):
        failed = ("the whole probe (all messages answered)", "an import failed on the remote side")
    return {"failed": failed, "steps": steps, "frames": st["frames"][:40], "counts": st["counts"], "stderr": err[-1200:],
            "exception": tb_last, "exit": p.returncode, "uploaded": [n for n, _ in parse_upload(writes[1])],
            "options": options, "effect": next((e for e in log if e.get("ev") == "effect" and e.get("pid") == p.pid), None),
            "diskimport": [e["name"] for e in log if e.get("ev") == "diskimport"]}


def probe_what(res):
    step, msg = res["failed"]
    return "the assembled remote server dies on %s: %s" % (step, res["exception"] or msg) if res["exception"] else \
        "the assembled remote server fails at %s: %s" % (step, msg)


def combo_text(c):
    return "auto_hosts=%r seed_hosts=%r auto_nets=%r latency_control=%r" % (c["auto_hosts"], c["seed_hosts"], c["auto_nets"],
                                                                           c["latency_control"])


def effect_verdict(ctx, res, combo):
    bad = effect_mismatches(res["options"], res["effect"])
    ctx.count("complete_effect_observed" if res["effect"] else "complete_effect_not_observed")
    if res["effect"]:
        ctx.count("complete_effect_observed_at_%s" % res["effect"]["when"].replace(" ", "_"))
    if bad:
        k, mine, theirs = bad[0]
        ctx.violation("the session options do not arrive with identical values: with %s = %s on the client, the running server "
                      "(really assembled from the upload, observed after start-up while it serves messages) has %s in effect — "
                      "client and server run the session with different values of the option"
                      % (k, mine, theirs),
                      {"kind": "effect", "options_json": dict(res["options"], to_nameserver=None), "combo": combo,
                       "mismatches": [list(b) for b in bad], "effect": res["effect"]})


def part_complete(ctx, scr):
    rng = ctx.rng
    try:
        sync = unhx(ctx.run_driver(["SYNC"])[0].split(" ")[1])
    except Exception:
        sync = None
    combos = []
    for auto_hosts in (False, True):
        for seeds in (None, True):
            for auto_nets in (False, True):
                for lc in (False, True):
                    sh = None
                    if seeds:
                        sh = rng.choice([["localhost"], ["localhost", "127.0.0.1"], ["localhost", "ip6-localhost"]])
                    elif auto_hosts:
                        sh = []           # cmdline.py:76-81: -H without --seed-hosts gives an empty list, still requested
                    combos.append({"auto_hosts": auto_hosts, "seed_hosts": sh, "auto_nets": auto_nets, "latency_control": lc})
    # ---- static: imports of the uploaded program vs the uploaded modules
    smiss = {}
    for c in combos:
        if c["seed_hosts"]:
            continue                     # the upload does not depend on the seed hosts
        options = probe_options(c["auto_hosts"], c["auto_nets"], c["latency_control"], rng.choice([None, "10.0.0.1@53"]))
        argv, writes, packaged = real_connect(options)
        uploaded = parse_upload(writes[1])
        ctx.count("complete_static_option_sets")
        ctx.case(("complete-static", tuple(opts_canon(options))), nontrivial=True)
        for m in missing_imports(writes[0], uploaded):
            smiss.setdefault(m, []).append(options)
    for (mod, lineno, infunc, name, why), optsets in sorted(smiss.items()):
        ctx.violation("the client's upload is not the complete server program: %s line %d (%s) imports %s, which is %s — for %d of the %d "
                      "option sets tried: %s" % (mod, lineno, "inside a function" if infunc else "module level", name, why, len(optsets),
                                                 sum(1 for x in combos if not x["seed_hosts"]),
                                                 "; ".join("auto_hosts=%r auto_nets=%r latency_control=%r" %
                                                           (o["auto_hosts"], o["auto_nets"], o["latency_control"]) for o in optsets)),
                      {"kind": "imports", "options_json": optsets[0], "importer": mod, "line": lineno, "missing": name,
                       "failing_option_sets": optsets})
    # ---- behavioural: the assembled server acts on every kind of message
    pfail = {}
    for c in combos:
        options = probe_options(c["auto_hosts"], c["auto_nets"], c["latency_control"], None)
        res = probe_session(scr, options, c["seed_hosts"], sync)
        ctx.count("complete_probe_sessions")
        for k, v in res["counts"].items():
            ctx.count("complete_probe_" + k, v)
        ctx.case(("complete-probe", combo_text(c)), nontrivial=True,
                 sample={"kind": "probe of the assembled server", "options": combo_text(c), "answered": res["steps"],
                         "frames": res["frames"][:12]} if c["seed_hosts"] else None)
        if res["diskimport"]:
            ctx.count("complete_probe_disk_import_attempts")
        if res["failed"] is not None:
            pfail.setdefault(probe_what(res), []).append((c, res))
        else:
            effect_verdict(ctx, res, c)
    # ---- the session options IN EFFECT inside the running server, at the boundary values of the numeric option
    F181 = []
    try:
        import framework
        f181_recorded = any(k.get("id") == "F181" for k in framework.load_known("C18")["findings"])
    except Exception:
        f181_recorded = False
    lbs_values = [0, 1, 2, 2047, 2048, 2049, 32767, 32768, 32769, 65536, 2 ** 31 - 1, 2 ** 31, rng.randint(1, 2047),
                  rng.randint(2049, 1 << 20)]
    for n, lbs in enumerate(lbs_values if not ctx.quick() else lbs_values[:1] + [1, 2047, 2048, 32768, 2 ** 31] + lbs_values[-2:]):
        c = {"auto_hosts": bool(n & 1), "seed_hosts": None, "auto_nets": bool(n & 2), "latency_control": not (n & 4),
             "latency_buffer_size": lbs}
        options = probe_options(c["auto_hosts"], c["auto_nets"], c["latency_control"], None, lbs)
        res = probe_session(scr, options, None, sync, brief=True)
        ctx.count("complete_effect_sessions")
        if lbs == 0 and res["failed"] is not None and "UnboundLocalError" in (res["exception"] or "") and "ssnet" in res["exception"]:
            # F181 (fixed in /repo e2b9130): function-level import of ssnet inside `if latency_buffer_size:` in
            # server.main left the name unbound for the value 0.  A fixed entry suppresses nothing: if this ever
            # returns it is reported as a violation (tagged so that the report names the old finding).
            F181.append(res)
            ctx.count("complete_effect_F181_witness_seen")
        ctx.case(("complete-effect", combo_text(c), lbs), nontrivial=True,
                 sample={"kind": "options in effect in the running server", "latency_buffer_size": lbs, "effect": res["effect"]})
        if res["failed"] is not None:
            pfail.setdefault(probe_what(res), []).append((c, res))
        else:
            effect_verdict(ctx, res, c)
    for what, lst in sorted(pfail.items()):
        c, res = lst[0]
        ctx.violation("%s — for %d of the %d option combinations tried: %s" % (what, len(lst), len(combos), "; ".join(combo_text(x) for x, _ in lst)),
                      {"kind": "probe", "combo": c, "finding_id": "F181" if all(r in F181 for _, r in lst) else None, "answered_before": res["steps"], "uploaded": res["uploaded"],
                       "server_exit_status": res["exit"], "stderr_tail": res["stderr"][-600:], "frames": res["frames"][:20],
                       "failing_combinations": [x for x, _ in lst]})
    ctx.extra["assembled_server_probed_for_option_combinations"] = len(combos)


def correspondence(ctx):
    sys.path.insert(0, REPO) if REPO not in sys.path else None
    scr = Scratch()
    def part(f, *a):
        # a part that cannot cope with the code under check is a broken tie (reported without input); the
        # OTHER parts still run, so that one of them can exhibit the failing input
        try:
            return f(*a)
        except Exception:
            import traceback
            ctx.disagree("harness part %s crashed" % f.__name__, None, traceback.format_exc()[-1500:], None)
            return None
    try:
        part(part_primitives, ctx)
        part(part_packaging, ctx)
        part(part_client, ctx)
        part(part_malformed, ctx, scr)
        rw = part(part_remote, ctx, scr)
        part(part_complete, ctx, scr)
        part(part_bootstrap, ctx, scr, rw)
        srv = ctx.run_driver(["SERVER %s" % numhex(0), "SERVER %s" % numhex(32768), "SYNC"])
        if not (srv[0].split("|")[1].strip() == srv[1].split("|")[1].strip() == srv[2].split(" ")[0]):
            ctx.disagree("server_main_start stdout", "SERVER", srv[2], srv[:2])
    finally:
        scr.close()
    ctx.programs = ctx.evaluations


def replay(ctx, rp):
    """re-run a stored failing input against the real code; True if it still fails"""
    r = rp.get("replay", {})
    before = len(ctx.violations)
    if r.get("kind") == "win32relay":
        spec = r["win32"]
        try:
            sync = b"\0\0" + unhx(ctx.run_driver(["SYNC"])[0].split(" ")[1])
        except Exception:
            sync = b"\0\0SSHUTTLE0001"
        print("win32 client; module table %r (regenerated from case_seed %d), codec %s; ssh's stdin pipe takes per write(): %s; "
              "ssh's stdout pipe reads: %s" % (spec["profile"], spec["case_seed"], spec.get("codec", "real"), spec["write_mode"],
                                               spec.get("read_mode", "full")))
        scr = Scratch()
        try:
            bootstrap_case(ctx, scr, win32_case(spec, sync), random.Random(spec["case_seed"]))
        finally:
            scr.close()
        for what, rep in ctx.violations[before:]:
            print("FAILS:", what)
            for k in ("upload_bytes", "arrived_bytes", "streams_agree_for_the_first", "pipe_script", "connect_blocked_until_watchdog",
                      "what_the_remote_end_made_of_the_bytes_that_arrived", "seen", "expected", "stdout", "stderr"):
                if k in rep:
                    print("   %s: %s" % (k, str(rep[k])[:400]))
        return len(ctx.violations) > before
    if r.get("kind") == "readlen":
        if "table_hex" not in r:
            print("table too large to be stored; sizes:", r.get("table_sizes"))
            return False
        srcs = dict((n, bytes.fromhex(h)) for n, h in r["table_hex"].items())
        argv, writes, packaged = real_connect(r["options_json"], srcs, stub_zlib=True)
        a = dict(packaged)["sshuttle.assembler"]
        print("bootstrap:", argv[-1][:200])
        print("assembler source: %d bytes, %d characters; first write: %d bytes" % (len(a), len(a.decode("utf-8", "replace")), len(writes[0])))
        check_read_len(ctx, argv, writes, packaged, r["options_json"], srcs, "replay")
        return len(ctx.violations) > before
    if r.get("kind") == "imports":
        argv, writes, packaged = real_connect(r["options_json"])
        uploaded = parse_upload(writes[1])
        print("options:", r["options_json"])
        print("uploaded modules:", [n for n, _ in uploaded])
        miss = missing_imports(writes[0], uploaded)
        for mod, lineno, infunc, name, why in miss:
            print("FAILS: %s line %d (%s) imports %s: %s" % (mod, lineno, "inside a function" if infunc else "module level", name, why))
        return bool(miss)
    if r.get("kind") == "effect":
        c = r["combo"]
        scr = Scratch()
        try:
            try:
                sync = unhx(ctx.run_driver(["SYNC"])[0].split(" ")[1])
            except Exception:
                sync = None
            res = probe_session(scr, probe_options(c["auto_hosts"], c["auto_nets"], c["latency_control"], None,
                                                   c.get("latency_buffer_size", 32768)), c["seed_hosts"], sync, brief=True)
        finally:
            scr.close()
        bad = [("probe", "-", probe_what(res))] if res["failed"] is not None else effect_mismatches(res["options"], res["effect"])
        print("client's options:", res["options"])
        print("in effect in the running server:", res["effect"])
        print("mismatches (option, client, server):", bad)
        return bool(bad)
    if r.get("kind") == "probe":
        c = r["combo"]
        scr = Scratch()
        try:
            try:
                sync = unhx(ctx.run_driver(["SYNC"])[0].split(" ")[1])
            except Exception:
                sync = None
            res = probe_session(scr, probe_options(c["auto_hosts"], c["auto_nets"], c["latency_control"], None,
                                                   c.get("latency_buffer_size", 32768)), c["seed_hosts"], sync,
                                brief="latency_buffer_size" in c)
        finally:
            scr.close()
        print("options:", combo_text(c), "latency_buffer_size=%r" % c.get("latency_buffer_size", 32768))
        print("uploaded modules:", res["uploaded"])
        print("answered:", res["steps"], "| server exit status:", res["exit"])
        if res["failed"] is not None:
            print("FAILS:", probe_what(res))
            print("server stderr ends with:", res["stderr"][-500:])
        return res["failed"] is not None
    if r.get("kind") == "remote" and "case" in r:
        scr = Scratch()
        try:
            fails, argv = remote_case(ctx, RemoteWorld(scr), r["case"])
        finally:
            scr.close()
        print("remote command:", argv[-1][:300])
        for what, rep in fails:
            print("FAILS:", what, "| started:", rep.get("started"), rep.get("started_argv"), "| words:", rep.get("words_seen_by_the_remote_shell"))
        return bool(fails)
    if "replay_case" in r:
        rc = r["replay_case"]
        print("bootstrap cases are regenerated from the run seed; re-running the whole bootstrap part with seed", rp.get("seed"))
        ctx.rng = random.Random(rp.get("seed", ctx.seed))
        scr = Scratch()
        try:
            part_primitives(ctx)
            part_packaging(ctx)
            part_client(ctx)
            part_malformed(ctx, scr)
            part_bootstrap(ctx, scr, part_remote(ctx, scr))
        finally:
            scr.close()
        return len(ctx.violations) > before
    if r.get("kind") == "client_announcement":
        sc = [unhx(c) for c in r["server_deliveries"]]
        ev, writes, packaged = client_trace({}, sc, r.get("poll"), r.get("seed_hosts"), r.get("accept"))
        ok_spec, nafter = announced(b"".join(sc))
        print("server output: %r (%d byte(s) after the second NUL; announced per specification: %s); ssh poll(): %r"
              % (b"".join(sc)[:80], nafter, ok_spec, r.get("poll")))
        print("client trace:", [e[:60] for e in ev])
        n = announcement_verdict(ctx, ev, sc, r.get("poll"), r.get("seed_hosts"), r.get("accept"))
        for what, rep in ctx.violations[before:]:
            print("FAILS:", what)
        return n > 0
    if "trace" in r and "server_deliveries" in r:
        sc = [unhx(c) for c in r["server_deliveries"]]
        ev, writes, packaged = client_trace({}, sc, r.get("poll"), r.get("seed_hosts"), r.get("accept"))
        idx = ev.index("OK") if "OK" in ev else len(ev)
        wb = [e for e in ev[:idx] if e.startswith("W:")]
        print("trace:", [e[:60] for e in ev])
        return len(wb) != 2
    if "options" in r and "text" in r:
        print("option text case:", r["text"])
        return True
    print("nothing replayable in", rp.get("kind"))
    return False


if __name__ == "__main__":
    import locale
    if locale.getpreferredencoding(False).lower().replace("-", "") != "utf8" and not sys.flags.utf8_mode:
        # get_module_source opens the sources in text mode with the locale's encoding (ASSUMPTIONS: UTF-8 locale)
        os.execv(sys.executable, [sys.executable, "-X", "utf8"] + sys.argv)
    sys.path.insert(0, os.path.join(os.path.dirname(os.path.abspath(__file__)), ".."))
    import framework
    sys.exit(framework.main(sys.modules[__name__]))
