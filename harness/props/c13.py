"""C13 — the helper receives exactly the plan and host updates the client sent.

Correspondence: the real sshuttle.client.FirewallClient.start / sethostip write
into a buffer; the real sshuttle.firewall.main reads that buffer (setup_daemon
patched as the test-suite does, recording method object, rewrite_etc_hosts and
flush_systemd_dns_cache patched).  The extracted Coq model (coq/Model/Dialogue.v)
renders and parses the same cases.  Three-way comparison:
  what the client was given  (oracle, computed here from the plan)
  what the real helper did   (recorded calls + how firewall.main was left)
  what the model says        (render_plan / helper_main / expected_events)."""
import io
import os
import socket
import sys

PROP = "C13"
RULE = ("plans x host updates x truncation points: generated plans (0-12 subnets per family incl. auto-nets, all widths, "
        "port ranges, IPv6 texts up to 45 chars, name-server lists, ports 0..65535, uid/gid none/0/large, marks 0x1..0xffffffff), "
        "host names of every length 1..253 over [-A-Za-z0-9_.] with dotted quads of every length, every cut position of whole "
        "dialogues, and a malformed stream (mutated dialogues: odd integers, missing/extra fields, blank and over-long lines, "
        "non-ASCII bytes, reordered sections); a case is non-trivial when the helper got past the ROUTES line; distinct by content hash")
TRUSTED_BASE = [
    "modelled, not verified: CPython bytes %-formatting of ints, BufferedReader/BytesIO.readline(n) (at most n bytes, stops after a newline, b'' at EOF), "
    "bytes.decode('ASCII'), str.strip/startswith/split/partition, int() on str, dict insertion order",
    "socket.AF_INET = 2 and socket.AF_INET6 = 10 (Linux values, asserted by the harness against the running interpreter)",
    "the in-memory buffer between FirewallClient.pfile and the helper's stdin stands for the socketpair/pipe; the input is a byte string followed by EOF",
    "method object = recorder whose firewall_command returns False like BaseMethod's; setup_firewall/restore_firewall never fail here (failures are C04's subject)",
]
ASSUMPTIONS = [
    "ip texts and the mark handed to FirewallClient are ASCII without comma/blank (inet_ntop output / validated --tmark); user and group are None or numeric ids (client.main converts names with getpwnam/getgrnam)",
    "the model's dialogue ends with EOF and its STARTED write succeeds; the real helper is ALSO run (implementation-only, compared with its own EOF runs and "
    "with the oracle) with a stdin that ends in a read error (ECONNRESET & co.: firewall.py:234-237) at every line boundary and inside lines, and with a "
    "failing write / flush of STARTED (firewall.py:360-365) — Model/FwEnv.v + c04_read_error_is_eof / c04_started_failure_is_cut state the same for the packet-filter side",
    "a cut inside the pid digits of the GO line (client died in the middle of its single buffered write) makes the helper set up with a shortened pid and clean up at once: stated in c13_truncation, outside the property's 'after any line' quantifier",
]

AF4, AF6 = int(socket.AF_INET), int(socket.AF_INET6)
NAME_ALPHABET = "abcdefghijklmnopqrstuvwxyzABCDEFGHIJKLMNOPQRSTUVWXYZ0123456789-_."
F5_WHAT = "F5: HOST line longer than the helper's 128-byte read is consumed in pieces (host map differs from what the client sent)"


def hx(b):
    if isinstance(b, str):
        b = b.encode("latin-1")
    return b.hex() if b else "-"


# --------------------------------------------------------------------------
# real code, client side

class FakePfile:
    def __init__(self):
        self.buf = b""
        self.flushed = 0

    def write(self, b):
        self.buf += bytes(b)
        return len(b)

    def flush(self):
        self.flushed += 1

    def readline(self):
        return b"STARTED\n"


class FakeProc:
    def poll(self):
        return None


def make_client(auto_nets):
    import sshuttle.client as client
    fc = object.__new__(client.FirewallClient)     # no subprocess logic
    fc.pfile = FakePfile()
    fc.p = FakeProc()
    fc.argv = ["fw"]
    fc.auto_nets = list(auto_nets)
    return fc


def impl_render(plan):
    """bytes the real FirewallClient.start writes for this plan"""
    fc = make_client(plan["auto"])
    fc.setup(list(plan["inc"]), list(plan["exc"]), list(plan["ns"]),
             plan["ports"][0], plan["ports"][1], plan["ports"][2], plan["ports"][3],
             plan["udp"], plan["user"], plan["group"], plan["tmark"])
    old = os.getpid
    os.getpid = lambda: plan["pid"]
    try:
        fc.start()
    finally:
        os.getpid = old
    return fc.pfile.buf


def impl_sethostip(name, ip):
    fc = make_client([])
    try:
        fc.sethostip(name, ip)
    except AssertionError:
        return None
    return fc.pfile.buf


# --------------------------------------------------------------------------
# real code, helper side

def show_opt(o):
    return "None" if o is None else "s" + (o.encode("latin-1").hex())


def show_sub(t):
    return "%d:%d:%d:%s:%d:%d" % (t[0], t[1], 1 if t[2] else 0, hx(t[3]), t[4], t[5])


def show_list(f, l):
    return ",".join(f(x) for x in l) if l else "-"


def show_setup(port, dnsport, nslist, family, subnets, udp, user, group, tmark):
    return "SETUP %d %d %d %s %s %d %s %s %s" % (
        family, port, dnsport, show_list(lambda e: "%d:%s" % (e[0], hx(e[1])), nslist),
        show_list(show_sub, subnets), 1 if udp else 0, show_opt(user), show_opt(group), hx(tmark))


def show_restore(port, family, udp, user, group):
    return "RESTORE %d %d %d %s %s" % (family, port, 1 if udp else 0, show_opt(user), show_opt(group))


def show_hosts(items, port):
    return "HOSTS %d %s" % (port, show_list(lambda e: "%s=%s" % (hx(e[0]), hx(e[1])), items))


class RecMethod:
    name = "rec"

    def __init__(self, log):
        self.log = log

    def is_supported(self):
        return True

    def setup_firewall(self, port, dnsport, nslist, family, subnets, udp, user, group, tmark):
        self.log.append(show_setup(port, dnsport, nslist, family, subnets, udp, user, group, tmark))

    def restore_firewall(self, port, family, udp, user, group):
        self.log.append(show_restore(port, family, udp, user, group))

    def wait_for_firewall_ready(self, pid):
        self.log.append("WAIT %d" % pid)

    def firewall_command(self, line):
        self.log.append("CMD %s" % hx(line))
        return False


class RecStdout:
    def __init__(self, log, fail=None):
        self.log, self.fail = log, fail          # fail = ("write"|"flush", exception class): the client is gone
        self.pending = False

    def write(self, b):
        if b == b"STARTED\n":
            self.log.append("STARTED")
            self.pending = True
            if self.fail and self.fail[0] == "write":
                raise self.fail[1](32, "Broken pipe")
        return len(b)

    def flush(self):
        if self.pending:
            self.pending = False
            if self.fail and self.fail[0] == "flush":
                raise self.fail[1](32, "Broken pipe")


class ErrReader:
    """the helper's stdin when the channel ends with a read error instead of EOF (a socketpair whose peer died with
    unread data: ECONNRESET).  A buffered reader that meets the error while looking for the end of a line raises
    without handing out the partial line."""

    def __init__(self, data, cls):
        self.f, self.cls = io.BytesIO(data), cls

    def readline(self, *a):
        line = self.f.readline(*a)
        if not line.endswith(b"\n"):
            raise self.cls(104, "Connection reset by peer")
        return line


FATALS = [("expected ROUTES", "ROUTES"), ("expected route but", "route"), ("expected route or NSLIST", "route-or-NSLIST"),
          ("expected NSLIST", "NSLIST"), ("expected nslist but", "nslist"), ("expected nslist or PORTS", "nslist-or-PORTS"),
          ("expected PORTS", "PORTS"), ("expected 4 ports", "4-ports"), ("expected GO", "GO"), ("expected command", "command")]


class _HelperExit(BaseException):
    pass


class _Os:
    """the name `os` inside sshuttle.firewall: the real module, except that _exit ends the simulated helper (what it would
    still do is dropped from the record) instead of this check"""

    def __init__(self, log):
        self._log = log

    def __getattr__(self, name):
        return getattr(os, name)

    def _exit(self, code=0):
        self._log.append("DEAD")
        raise _HelperExit(code)


def impl_main(data, read_error=None, started_error=None):
    """run the real firewall.main on `data` followed by EOF (or by a read error of class read_error); started_error =
    ("write"|"flush", class): the write of STARTED fails; canonical outcome text"""
    import sshuttle.firewall as fw
    import sshuttle.helpers as helpers
    log = []
    saved = (fw.setup_daemon, fw.get_method, fw.rewrite_etc_hosts, fw.flush_systemd_dns_cache,
             helpers.logprefix, fw.sshuttle_pid)
    fw.setup_daemon = lambda: (ErrReader(data, read_error) if read_error else io.BytesIO(data), RecStdout(log, started_error))
    fw.get_method = lambda name: RecMethod(log)
    fw.rewrite_etc_hosts = lambda hostmap, port: log.append(show_hosts(list(hostmap.items()), port))
    fw.flush_systemd_dns_cache = lambda: None
    fw.os = _Os(log)
    try:
        try:
            fw.main("rec", False)
            ex = "return" if "STARTED" in log else "silent"
        except helpers.Fatal as e:
            msg = str(e)
            ex = "fatal:?" + msg[:40]
            for pre, cls in FATALS:
                if msg.startswith(pre):
                    ex = "fatal:" + cls
                    break
        except Exception as e:    # noqa: BLE001 — every other class is an internal error
            ex = "crash:" + type(e).__name__
        except BaseException as e:    # noqa: BLE001 — SystemExit / KeyboardInterrupt / os._exit: the helper ended itself
            ex = "exit:" + type(e).__name__
            if "DEAD" in log:
                del log[log.index("DEAD"):]
    finally:
        fw.os = os
        (fw.setup_daemon, fw.get_method, fw.rewrite_etc_hosts, fw.flush_systemd_dns_cache,
         helpers.logprefix, fw.sshuttle_pid) = saved
    return " | ".join(log + ["EXIT " + ex])


# --------------------------------------------------------------------------
# oracle: what the helper should have seen, computed from what the client was given

def expected_text(plan, hosts):
    subs = [(f, w, False, ip, fp, lp) for (f, ip, w, fp, lp) in plan["inc"] + plan["auto"]]
    subs += [(f, w, True, ip, fp, lp) for (f, ip, w, fp, lp) in plan["exc"]]
    ns = list(plan["ns"])
    p6, p4, d6, d4 = plan["ports"]
    user = None if plan["user"] is None else str(plan["user"])
    group = None if plan["group"] is None else str(plan["group"])
    ev = []
    fams = []
    for fam, port, dns in ((AF6, p6, d6), (AF4, p4, d4)):
        s = [x for x in subs if x[0] == fam]
        n = [x for x in ns if x[0] == fam]
        if s or n:
            fams.append((fam, port))
            ev.append(show_setup(port, dns, n, fam, s, plan["udp"], user, group, plan["tmark"]))
    ev += ["WAIT %d" % plan["pid"], "STARTED"]
    hm = {}
    hport = p6 or p4
    for name, ip in hosts:
        hm[name.decode("ascii")] = ip.decode("ascii")
        ev.append(show_hosts(list(hm.items()), hport))
    for fam, port in fams:
        ev.append(show_restore(port, fam, plan["udp"], user, group))
    if hm:
        ev.append(show_hosts([], hport))
    return " | ".join(ev + ["EXIT return"])


def cleanup_ok(outcome):
    """every set-up is followed by its restore and a non-empty host map is withdrawn"""
    ev = outcome.split(" | ")
    fams_up = []
    hosts_dirty = False
    for e in ev:
        w = e.split(" ")
        if w[0] == "SETUP":
            fams_up.append(w[1])
        elif w[0] == "RESTORE":
            if w[1] in fams_up:
                fams_up.remove(w[1])
        elif w[0] == "HOSTS":
            hosts_dirty = (w[2] != "-")
    return not fams_up and not hosts_dirty


# --------------------------------------------------------------------------
# generators

def plan_tokens(plan, hosts=None):
    def sn(l):
        return ";".join("%d:%s:%d:%d:%d" % (f, hx(ip), w, fp, lp) for (f, ip, w, fp, lp) in l) or "-"
    t = [sn(plan["inc"]), sn(plan["auto"]), sn(plan["exc"]),
         ";".join("%d:%s" % (f, hx(ip)) for f, ip in plan["ns"]) or "-",
         "%d %d %d %d" % tuple(plan["ports"]), "1" if plan["udp"] else "0",
         "None" if plan["user"] is None else str(plan["user"]),
         "None" if plan["group"] is None else str(plan["group"]), hx(plan["tmark"]), str(plan["pid"])]
    if hosts is not None:
        t.append(";".join("%s=%s" % (hx(n), hx(i)) for n, i in hosts) or "-")
    return " ".join(t)


def gen_ip4(rng):
    k = rng.random()
    if k < 0.15:
        return "255.255.255.255"
    if k < 0.3:
        return "%d.%d.%d.%d" % tuple(rng.randrange(10) for _ in range(4))
    return "%d.%d.%d.%d" % tuple(rng.randrange(256) for _ in range(4))


def gen_ip6(rng):
    k = rng.random()
    if k < 0.2:
        return "ffff:ffff:ffff:ffff:ffff:ffff:255.255.255.255"     # 45 chars, the longest text
    if k < 0.35:
        return ":".join("%04x" % rng.randrange(65536) for _ in range(8))   # 39 chars
    if k < 0.5:
        return "::"
    if k < 0.6:
        return "fe80::%x%%eth%d" % (rng.randrange(65536), rng.randrange(10))
    n = rng.randint(1, 6)
    return ":".join("%x" % rng.randrange(65536) for _ in range(n)) + "::" + "%x" % rng.randrange(65536)


def gen_port(rng):
    return rng.choice([0, 1, 9, 10, 80, 99, 100, 1024, 9999, 10000, 65534, 65535, rng.randrange(65536)])


def gen_subnet(rng, fam):
    if fam == AF4:
        ip, w = gen_ip4(rng), rng.randint(0, 32)
    else:
        ip, w = gen_ip6(rng), rng.randint(0, 128)
    if rng.random() < 0.5:
        fp = lp = 0
    else:
        fp = gen_port(rng)
        lp = rng.randint(fp, 65535) if rng.random() < 0.7 else fp
    return (fam, ip, w, fp, lp)


def gen_id(rng):
    return rng.choice([None, None, 0, 1, 1000, 65534, 65535, 65536, 2**31 - 1, 2**31, 2**32 - 2, 2**32 - 1,
                       rng.randrange(2**32)])


def gen_plan(rng, small=False):
    hi = 3 if small else 12
    n4, n6 = rng.randint(0, hi), rng.randint(0, hi)
    if rng.random() < 0.15:
        n4 = 0
    if rng.random() < 0.15:
        n6 = 0
    subs = [gen_subnet(rng, AF4) for _ in range(n4)] + [gen_subnet(rng, AF6) for _ in range(n6)]
    rng.shuffle(subs)
    inc, auto, exc = [], [], []
    for s in subs:
        r = rng.random()
        (inc if r < 0.5 else auto if r < 0.65 else exc).append(s)
    ns = []
    for _ in range(rng.choice([0, 0, 1, 2, 3, 6])):
        ns.append((AF4, gen_ip4(rng)) if rng.random() < 0.5 else (AF6, gen_ip6(rng)))
    ports = tuple(gen_port(rng) for _ in range(4))
    tmark = rng.choice(["0x01", "0x1", "0xffffffff", "0x0", "0xdeadbeef", "0x%x" % rng.randrange(2**32)])
    pid = rng.choice([1, 2, 9, 10, 4242, 32768, 4194304, rng.randrange(1, 2**22)])
    return {"inc": inc, "auto": auto, "exc": exc, "ns": ns, "ports": ports, "udp": rng.random() < 0.5,
            "user": gen_id(rng), "group": gen_id(rng), "tmark": tmark, "pid": pid}


def gen_name(rng, n):
    return "".join(rng.choice(NAME_ALPHABET) for _ in range(n)).encode("ascii")


def gen_hosts(rng, maxn=6):
    hs = []
    for _ in range(rng.randint(0, maxn)):
        if hs and rng.random() < 0.25:
            name = rng.choice(hs)[0]             # update of an existing name
        else:
            name = gen_name(rng, rng.choice([1, 2, 5, 12, 30, 63, rng.randint(1, 100)]))
        hs.append((name, gen_ip4(rng).encode("ascii")))
    return hs


READ_ERRORS = [ConnectionResetError, OSError, TimeoutError, ConnectionAbortedError, BrokenPipeError]

ODD_INTS = [b"+5", b"-1", b"1_0", b"_1", b"1_", b"007", b" 7", b"7 ", b"\t7", b"\x1c7", b"", b"x", b"0x10", b"65536",
            b"-0", b"99999999999999999999999", b"1.0", b"1e3", b"\x0b3\x0c", b"3\r"]


def mutate(rng, d):
    """one malformed variant of a valid dialogue"""
    lines = d.split(b"\n")[:-1]
    if not lines:
        return d + rng.choice([b"", b"\n", b"ROUTES\n", b"\xff\n"])
    k = rng.randrange(14)
    i = rng.randrange(len(lines))
    if k == 0:
        del lines[i]
    elif k == 1:
        lines.insert(i, lines[i])
    elif k == 2:
        j = rng.randrange(len(lines))
        lines[i], lines[j] = lines[j], lines[i]
    elif k == 3:
        lines.insert(i, rng.choice([b"", b" ", b"\t", b"\x1c", b"\r"]))
    elif k == 4:      # replace one numeric field by an odd integer text
        import re
        parts = re.split(rb"([, ])", lines[i])
        idx = [n for n in range(0, len(parts), 2)]
        j = rng.choice(idx)
        parts[j] = rng.choice(ODD_INTS)
        lines[i] = b"".join(parts)
    elif k == 5:
        lines[i] = lines[i] + rng.choice([b",", b",1", b" ", b" x", b",,", b"\r", b" \t "])
    elif k == 6:
        lines[i] = rng.choice([b" ", b"\t", b"\x1f", b"  "]) + lines[i]
    elif k == 7:
        b = bytearray(lines[i] or b"x")
        b[rng.randrange(len(b))] = rng.choice([0, 0x80, 0xff, 0x2c, 0x20, 0x0a, 0x1d, 0xa0, 0x85])
        lines[i] = bytes(b)
    elif k == 8:      # over-long line
        pad = rng.choice([100, 127, 128, 129, 200, 300])
        lines[i] = lines[i] + b"9" * max(0, pad - len(lines[i]))
    elif k == 9:
        lines[i] = rng.choice([b"NSLISTX", b"NSLIST ", b"PORTS", b"PORTS ", b"PORTS 1,2,3", b"PORTS 1,2,3,4,5", b"PORTS 1,2,3,65536",
                               b"PORTS -1,2,3,4", b"PORTS 1,2,x,4", b"GO", b"GO ", b"GO 1", b"GO 1 - - 0x1", b"GO 1 - - 0x1 ",
                               b"GO 1 - - 0x1 12 13", b"GO x - - 0x1 12", b"GO 2 u g m 5", b"ROUTES", b"routes", b"HOST", b"HOST ",
                               b"HOST a", b"HOST ,", b"HOST a,b,c", b"HOSTa,b", b"QUIT", b"GO 0 - - 0x1 0"])
    elif k == 10:
        lines = lines[:i]
    elif k == 11:
        lines[i] = lines[i].replace(b",", b" ,", 1)
    elif k == 12:
        lines[i] = lines[i].upper() if rng.random() < 0.5 else lines[i].lower()
    else:
        lines[i] = lines[i] + b"\r"
    out = b"".join(l + b"\n" for l in lines)
    if rng.random() < 0.15 and out:
        out = out[:-1]
    return out


# --------------------------------------------------------------------------

def classify(ctx, what, case, impl, m_fixed, m_asfound, valid_oracle_fails=None, replay=None):
    """impl agrees with the repaired model: fine.  impl agrees only with the as-found model: the
    code still has F5's reader; a violation when the oracle on the implementation fails."""
    if impl == m_fixed:
        return "ok"
    if impl == m_asfound:
        ctx.count("reader_asfound_behaviour")
        if valid_oracle_fails:
            ctx.violation(F5_WHAT, replay)
        return "asfound"
    ctx.disagree(what, case, impl[:1500], m_fixed[:1500] + "  ||asfound: " + m_asfound[:600],
                 None if valid_oracle_fails is None else (not valid_oracle_fails))
    return "disagree"


def correspondence(ctx):
    rng = ctx.rng
    import random
    erng = random.Random("C13-channel-errors-%d" % ctx.seed)      # own stream: the generated plans stay what they were
    quick = ctx.quick()
    if (AF4, AF6) != (2, 10):
        raise RuntimeError("socket.AF_INET/AF_INET6 = %r, the model assumes (2, 10)" % ((AF4, AF6),))
    import sshuttle.firewall  # noqa: F401
    import sshuttle.client    # noqa: F401

    # ---- 0: primitives: int(), strip(), split(), readline(n) against CPython
    lines, impl = [], []
    pool = list(ODD_INTS) + [b"0", b"9", b"10", b"65535", b"4294967295", b"1__0", b"+", b"-", b"--1", b"+-1", b"1 2", b" \n5\r ",
                             b"\x1c5", b"5\x1f", b"1_2_3", b"0_0", b"-_1", b"- 1", b"12a", b"a12"]
    for _ in range(300 if quick else 5000):
        n = rng.randint(0, 6)
        pool.append(bytes(rng.choice(b"0123456789_+- \t\n\r\x0b\x0c\x1c\x1f.xa,") for _ in range(n)))
    for s in pool:
        lines.append("INT %s" % hx(s))
        try:
            impl.append(str(int(s.decode("ascii"))))
        except ValueError:
            impl.append("VE")
        lines.append("STRIP %s" % hx(s))
        impl.append(hx(s.decode("ascii").strip()))
        k = rng.choice([0, 1, 4, 5, len(s)])
        sep = rng.choice([b",", b" "])
        lines.append("SPLIT %s %d %s" % (hx(sep), k, hx(s)))
        impl.append(",".join(hx(x) for x in (s.decode("ascii").split(sep.decode(), k))))
    for _ in range(200 if quick else 3000):
        n = rng.randint(0, 40)
        s = bytes(rng.choice(b"ab\n\n,") for _ in range(n))
        lim = rng.choice([None, 1, 2, 3, 5, 8, 128])
        lines.append("CHUNKS %s %s" % ("-" if lim is None else lim, hx(s)))
        f = io.BytesIO(s)
        got = []
        while True:
            c = f.readline() if lim is None else f.readline(lim)
            if not c:
                break
            got.append(c)
        impl.append(",".join(hx(c) for c in got))
    out = ctx.run_driver(lines)
    for ln, i, o in zip(lines, impl, out):
        ctx.case(("prim", ln), nontrivial=False)
        ctx.count("primitive_" + ln.split(" ")[0].lower())
        if i != o:
            ctx.disagree("primitive " + ln.split(" ")[0], ln[:300], i[:300], o[:300])

    # ---- 1: plans + host updates: render, read back, compare three ways
    nplans = 500 if quick else 20000
    cases = []
    fixed_plans = [
        {"inc": [], "auto": [], "exc": [], "ns": [], "ports": (0, 0, 0, 0), "udp": False, "user": None, "group": None,
         "tmark": "0x01", "pid": 1},
        {"inc": [(AF6, "ffff:ffff:ffff:ffff:ffff:ffff:255.255.255.255", 128, 65535, 65535)], "auto": [],
         "exc": [(AF6, "ffff:ffff:ffff:ffff:ffff:ffff:255.255.255.255", 128, 65535, 65535)],
         "ns": [(AF6, "ffff:ffff:ffff:ffff:ffff:ffff:255.255.255.255")], "ports": (65535, 65535, 65535, 65535), "udp": True,
         "user": 2**32 - 1, "group": 2**32 - 1, "tmark": "0xffffffff", "pid": 4194304},
        {"inc": [(AF4, "0.0.0.0", 0, 0, 0)], "auto": [(AF4, "10.0.0.0", 8, 0, 0)], "exc": [(AF4, "127.0.0.1", 32, 0, 0)],
         "ns": [(AF4, "8.8.8.8")], "ports": (0, 12300, 0, 12299), "udp": False, "user": 0, "group": None, "tmark": "0x1", "pid": 77},
    ]
    for n in range(nplans):
        plan = fixed_plans[n] if n < len(fixed_plans) else gen_plan(rng)
        hosts = gen_hosts(rng) if rng.random() < 0.6 else []
        cases.append((plan, hosts))
    lines, impls = [], []
    for plan, hosts in cases:
        d_plan = impl_render(plan)
        d_hosts = b""
        for name, ip in hosts:
            b = impl_sethostip(name, ip)
            if b is None:
                raise RuntimeError("generator produced a name the client rejects: %r" % name)
            d_hosts += b
        d = d_plan + d_hosts
        got = impl_main(d)
        want = expected_text(plan, hosts)
        impls.append((d_plan, d_hosts, got, want))
        tok = plan_tokens(plan)
        lines += ["RENDER " + tok, "EXPECT " + plan_tokens(plan, hosts), "MAIN - " + hx(d), "MAIN 128 " + hx(d)]
        lines += ["HOST %s %s" % (hx(n), hx(i)) for n, i in hosts]
    out = ctx.run_driver(lines)
    pos = 0
    for (plan, hosts), (d_plan, d_hosts, got, want) in zip(cases, impls):
        m_render, m_expect, m_fixed, m_asfound = out[pos:pos + 4]
        m_hosts = out[pos + 4:pos + 4 + len(hosts)]
        pos += 4 + len(hosts)
        nsub = len(plan["inc"]) + len(plan["auto"]) + len(plan["exc"])
        ctx.count("plan_subnets_%s" % ("0" if nsub == 0 else "1-4" if nsub <= 4 else "5-12" if nsub <= 12 else "13-24"))
        ctx.count("plan_hosts_%d" % min(len(hosts), 3))
        ctx.count("plan_user_" + ("none" if plan["user"] is None else "num"))
        longest = max(len(l) for l in d_plan.split(b"\n")) + 1
        ctx.extra["longest_plan_line_seen"] = max(ctx.extra.get("longest_plan_line_seen", 0), longest)
        desc = ("plan", plan_tokens(plan, hosts))
        ctx.case(desc, nontrivial=True,
                 sample={"kind": "roundtrip", "dialogue": (d_plan + d_hosts).decode("ascii")[:400], "helper": got[:300]})
        rp = {"kind": "roundtrip", "plan": plan, "hosts": [[n.decode(), i.decode()] for n, i in hosts], "finding_hint": "F5"}
        # model writer = real writer
        if m_render != "1 " + hx(d_plan):
            ctx.disagree("render_plan (or valid_plan rejected a generated plan)", plan_tokens(plan), hx(d_plan)[:1500], m_render[:1500])
        if "".join(h[3:] for h in m_hosts) != (hx(d_hosts) if d_hosts else ""):
            ctx.disagree("sethostip", repr(hosts)[:500], hx(d_hosts)[:800], " ".join(m_hosts)[:800])
        # specification side of the model = oracle computed from the plan
        if m_expect != want:
            ctx.disagree("expected_events vs the harness oracle", plan_tokens(plan, hosts)[:800], want[:1500], m_expect[:1500])
        # property on the implementation alone
        fails = got != want
        st = classify(ctx, "helper_main on a rendered dialogue", hx(d_plan + d_hosts)[:3000], got, m_fixed, m_asfound, fails, rp)
        if fails and st != "asfound":
            rp2 = dict(rp)
            rp2.pop("finding_hint")
            ctx.violation("the helper did not reconstruct what the client sent", dict(rp2, helper=got[:2000], expected=want[:2000]))
        # the client is gone when STARTED is written (EPIPE): the helper leaves through its clean-up path at once,
        # exactly as if the dialogue had ended after GO (firewall.py:360-365)
        if len(ctx.nontrivial) % 7 == 0:
            how = erng.choice(["write", "flush"])
            cls = erng.choice([BrokenPipeError, ConnectionResetError, OSError])
            got_s = impl_main(d_plan + d_hosts, started_error=(how, cls))
            want_s = expected_text(plan, [])
            ctx.count("started_%s_fails" % how)
            ctx.case(("started-fails", plan_tokens(plan, hosts), how, cls.__name__), nontrivial=True)
            if not cleanup_ok(got_s):
                ctx.violation("the helper left without undoing what it set up",
                              {"kind": "raw", "dialogue_hex": hx(d_plan + d_hosts), "started_error": [how, cls.__name__], "helper": got_s[:1500]})
            elif got_s != want_s:
                ctx.disagree("helper whose STARTED %s fails with %s vs the dialogue ending after GO" % (how, cls.__name__),
                             plan_tokens(plan, hosts)[:800], got_s[:1500], want_s[:1500], True)

    # ---- 2: host names of every length 1..253 (all of them in both tiers)
    base = fixed_plans[2]
    d_base = impl_render(base)
    lines, impls, descr = [], [], []
    reps = 1 if quick else 6
    for n in range(1, 254):
        for r in range(reps):
            name = gen_name(rng, n)
            ip = (b"255.255.255.255" if r == 0 else gen_ip4(rng).encode())
            hosts = [(name, ip)] + ([(b"after", b"1.2.3.4")] if r % 2 == 0 else [])
            d = d_base + b"".join(impl_sethostip(a, b) for a, b in hosts)
            got = impl_main(d)
            want = expected_text(base, hosts)
            impls.append((got, want))
            descr.append((n, hosts))
            lines += ["MAIN - " + hx(d), "MAIN 128 " + hx(d), "EXPECT " + plan_tokens(base, hosts)]
    out = ctx.run_driver(lines)
    f5_lengths = []
    for k, ((got, want), (n, hosts)) in enumerate(zip(impls, descr)):
        m_fixed, m_asfound, m_expect = out[3 * k:3 * k + 3]
        ctx.case(("hostlen", n, hosts[0][1]), nontrivial=True,
                 sample={"kind": "host-length", "name_len": n, "helper": got[-200:]} if n in (106, 107) else None)
        ctx.count("hostname_len_%s" % ("1-63" if n <= 63 else "64-106" if n <= 106 else "107-253"))
        if m_expect != want or m_fixed != want:
            ctx.disagree("host round trip: repaired model vs oracle", (n, hx(hosts[0][0])), want[-600:], m_fixed[-600:] + " || " + m_expect[-300:])
        fails = got != want
        rp = {"kind": "roundtrip", "plan": base, "hosts": [[a.decode(), b.decode()] for a, b in hosts], "name_len": n}
        st = classify(ctx, "helper_main on HOST lines", (n, hx(hosts[0][0])), got, m_fixed, m_asfound, fails, rp)
        if st == "asfound" and fails:
            f5_lengths.append(n)
        if fails and st != "asfound":
            ctx.violation("the helper did not reconstruct a host update", dict(rp, helper=got[-1500:], expected=want[-1500:]))
    if f5_lengths:
        ctx.notes.append("F5 present in the code under check: host updates lost/garbled for name lengths %d..%d (with a 15-char address from %d)"
                         % (min(f5_lengths), max(f5_lengths), min(f5_lengths)))
    ctx.extra["host_name_lengths_covered"] = "1..253 (every length)"

    # ---- 2b: a malformed host update (no comma after the name): the helper must leave through its clean-up,
    #          neither act on the partial record nor go on with later lines (implementation-only oracle)
    for bad in (b"HOST fileserver\n", b"HOST \n", b"HOST a.b.c\n", b"HOST 10.0.0.1\n", b"HOST name 10.0.0.1\n",
                b"HOST " + gen_name(rng, 40) + b"\n", b"HOST x;10.0.0.1\n"):
        for before in (0, 1, 2):
            pre = [(b"good%d" % i, b"10.0.0.%d" % (i + 1)) for i in range(before)]
            d = d_base + b"".join(impl_sethostip(a, b) for a, b in pre) + bad + impl_sethostip(b"later", b"10.9.9.9")
            got = impl_main(d)
            n_rewrites = got.split(" | RESTORE")[0].count("HOSTS ")      # the clean-up's own restore is not counted
            ctx.case(("badhost", bad, before), nontrivial=True)
            ctx.count("malformed_host_update_cases")
            acted = hx(b"later") in got or n_rewrites > before
            if acted or got.endswith("EXIT return"):
                ctx.violation("the helper acted on a malformed host update (no comma after the name) or went on after it "
                              "instead of leaving through its clean-up",
                              {"kind": "badhost", "dialogue_hex": hx(d), "helper": got[-600:],
                               "hosts_file_rewrites": n_rewrites, "well_formed_updates_before": before})

    # ---- 3: truncation at every byte position
    ndial = 40 if quick else 400
    lines, impls, descr = [], [], []
    for t in range(ndial):
        plan = gen_plan(rng, small=True)
        hosts = gen_hosts(rng, 3)
        d_plan = impl_render(plan)
        pieces = [impl_sethostip(a, b) for a, b in hosts]
        d = d_plan + b"".join(pieces)
        commit = len(d_plan) - 1 - len(str(plan["pid"])) + 1     # shortest prefix holding one pid digit
        bounds = {len(d_plan) + sum(len(x) for x in pieces[:j]): j for j in range(len(pieces) + 1)}
        for k in range(len(d) + 1):
            pre = d[:k]
            got = impl_main(pre)
            ctx.count("cut_" + ("before_go_commit" if k < commit else "inside_pid" if k < len(d_plan) else "after_go"))
            if k < commit:
                if got.split(" | ")[:-1]:
                    ctx.violation("the helper acted on a dialogue cut before the GO line was complete",
                                  {"kind": "cut", "dialogue_hex": hx(d), "cut": k, "helper": got[:1500]})
            if not cleanup_ok(got):
                ctx.violation("the helper left without undoing what it set up",
                              {"kind": "cut", "dialogue_hex": hx(d), "cut": k, "helper": got[:1500]})
            if k in bounds:
                want = expected_text(plan, hosts[:bounds[k]])
                if got != want:
                    ctx.violation("a dialogue cut after a whole line is not handled as the shorter dialogue",
                                  {"kind": "cut", "dialogue_hex": hx(d), "cut": k, "helper": got[:1500], "expected": want[:1500]})
            # the same prefix, the channel ending with a read error instead of EOF (firewall.py:226-237)
            if k in bounds or k % 5 == t % 5 or k == 0 or pre.endswith(b"\n"):
                cls = erng.choice(READ_ERRORS)
                got_e = impl_main(pre, read_error=cls)
                ctx.count("cut_read_error_" + ("at_line_boundary" if (k == 0 or pre.endswith(b"\n")) else "inside_a_line"))
                rpe = {"kind": "cut", "dialogue_hex": hx(d), "cut": k, "read_error": cls.__name__, "helper": got_e[:1500]}
                if k < commit and got_e.split(" | ")[:-1]:
                    ctx.violation("the helper acted on a dialogue cut before the GO line was complete", rpe)
                if not cleanup_ok(got_e):
                    ctx.violation("the helper left without undoing what it set up", rpe)
                if (k == 0 or pre.endswith(b"\n")) and got_e != got:
                    if k in bounds and got_e.split(" | ")[:-1] != got.split(" | ")[:-1]:
                        # (what the helper DID differs; a different way of leaving main alone is a changed mechanism)
                        ctx.violation("a dialogue cut after a whole line is not handled as the shorter dialogue", dict(rpe, expected=got[:1500]))
                    else:
                        ctx.disagree("dialogue ending with %s vs the same dialogue ending with EOF" % cls.__name__, hx(pre)[:3000],
                                     got_e[:1500], got[:1500], cleanup_ok(got_e))
            impls.append(got)
            descr.append((t, k, len(d)))
            lines += ["MAIN - " + hx(pre), "MAIN 128 " + hx(pre)]
    out = ctx.run_driver(lines)
    for n, (got, (t, k, ln)) in enumerate(zip(impls, descr)):
        ctx.case(("cut", t, k), nontrivial=("SETUP" in got or "fatal" in got or "crash" in got),
                 sample={"kind": "cut", "cut": k, "of": ln, "helper": got[-160:]} if (n % 997 == 0) else None)
        classify(ctx, "helper_main on a truncated dialogue", lines[2 * n][:3000], got, out[2 * n], out[2 * n + 1])
    ctx.extra["truncation"] = "every byte position of %d dialogues" % ndial

    # ---- 4: malformed stream
    nmal = 1500 if quick else 40000
    lines, impls = [], []
    seeds = [impl_render(p) + b"".join(impl_sethostip(a, b) for a, b in h) for p, h in cases[:200]]
    for _ in range(nmal):
        d = mutate(rng, rng.choice(seeds))
        if rng.random() < 0.2:
            d = mutate(rng, d) if d else d
        got = impl_main(d)
        impls.append(got)
        lines += ["MAIN - " + hx(d), "MAIN 128 " + hx(d)]
    out = ctx.run_driver(lines)
    for n, got in enumerate(impls):
        ex = got.rsplit("EXIT ", 1)[1]
        ctx.count("malformed_exit_" + ex.split(":")[0] + ("" if ":" not in ex else ":" + ex.split(":")[1]))
        ctx.case(("mal", lines[2 * n]), nontrivial=(ex != "silent"),
                 sample={"kind": "malformed", "input_hex": lines[2 * n][7:200], "helper": got[-200:]} if n < 2 else None)
        classify(ctx, "helper_main on a malformed dialogue", lines[2 * n][:3000], got, out[2 * n], out[2 * n + 1])
        if not cleanup_ok(got):
            ctx.violation("the helper left without undoing what it set up",
                          {"kind": "raw", "dialogue_hex": lines[2 * n][7:], "helper": got[:1500]})
    ctx.programs = ctx.evaluations


def replay(ctx, rp):
    """re-run a stored failing input against the real code; True if it still fails"""
    r = rp.get("replay", {})
    kind = r.get("kind")
    if kind == "roundtrip":
        plan = r["plan"]
        for key in ("inc", "auto", "exc", "ns"):
            plan[key] = [tuple(x) for x in plan[key]]
        plan["ports"] = tuple(plan["ports"])
        hosts = [(a.encode(), b.encode()) for a, b in r["hosts"]]
        d = impl_render(plan) + b"".join(impl_sethostip(a, b) for a, b in hosts)
        got, want = impl_main(d), expected_text(plan, hosts)
        print("helper  :", got[-700:])
        print("expected:", want[-700:])
        return got != want
    if kind in ("cut", "raw"):
        d = bytes.fromhex(r["dialogue_hex"]) if r["dialogue_hex"] != "-" else b""
        if kind == "cut":
            d = d[:r["cut"]]
        import builtins
        se = r.get("started_error")
        got = impl_main(d, read_error=getattr(builtins, r["read_error"]) if r.get("read_error") else None,
                        started_error=(se[0], getattr(builtins, se[1])) if se else None)
        print("helper  :", got[-700:])
        if "expected" in r:
            return got != r["expected"]
        return (not cleanup_ok(got)) or ("acted on" in rp.get("what", "") and bool(got.split(" | ")[:-1]))
    print("nothing replayable in", rp.get("kind"))
    return False


if __name__ == "__main__":
    sys.path.insert(0, os.path.join(os.path.dirname(os.path.abspath(__file__)), ".."))
    import framework
    sys.exit(framework.main(sys.modules[__name__]))
