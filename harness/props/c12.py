"""C12 — interception exists only alongside a verified, live tunnel.

Correspondence: the REAL sshuttle.client.main is called (everything before its
try/finally runs for real against a fake listener class and a FirewallClient
whose constructor alone is replaced), so the real try/finally tail, the real
client._main, the real FirewallClient.start/check/sethostip/done, the real
Mux.got_packet dispatch, the real sdnotify.send/_notify, the real
daemonize/daemon_cleanup/check_daemon run inside a scripted boundary:
ssh.connect (fake process / scripted deliveries), ssnet.runonce (scripted
per-iteration messages and injected exceptions), the helper's pipe and process
object, client.os (fork/open/unlink/kill/dup2... intercepted), client.signal,
sdnotify.socket.  The extracted Coq model (coq/Model/ClientLife.v) is run on the
same environment scripts and the two event traces are compared.
FirewallClient.__init__ (which process becomes the helper) is run for real twice over: on scripted candidates (Popen
replaced by an in-process end of the real socketpair: absent / exits at once with any status / prints anything / READY at
any line), compared with Model/FwInit.v, and on real stand-in `sudo` programs in front of the real stub helper process.
Tunnel-end part (tunnel_end_check): the REAL ssnet.runonce / Mux.handle / fill / flush / callback under the REAL `while 1`
loop of client._main on a scripted ssh channel with the kernel's select semantics (a select without timeout that has
nothing ready sleeps; end of file keeps a descriptor readable), the tunnel ending in every way while ssh's exit status
becomes visible 0, 1, 2, ... looks later or never: the client must close the control channel and never sleep for ever."""
import errno
import os
import socket as real_socket
import sys

PROP = "C12"
RULE = ("environment scripts x injection points: mostly-valid client life cycles (connect, handshake deliveries, poll, "
        "daemonize, loop iterations carrying ROUTES / HOST_LIST messages, helper dialogue, finally block) with one fault "
        "placed at every step (connect, every byte position of the handshake incl. EOF/ECONNRESET, poll after handshake, "
        "pidfile open, every loop position, helper write/read/reply/returncode, every kind of answer to GO (STARTED, EOF, partial line, near misses, other "
        "protocol lines, garbage) x helper process running / exited 0 / exited non-zero, READY/STOPPING notification, pfile.close, "
        "wait, pidfile unlink) x every exception class (Fatal, OSError with several errnos, KeyboardInterrupt, SystemExit, "
        "AssertionError, Exception, MemoryError, ValueError) x daemon on/off x auto-nets on/off, every exit status the handshake diagnosis "
        "distinguishes x --python absent/name/absolute path, SIGTERM through the handler daemonize() installs, faults at the creation of the "
        "notification socket; helper candidates: administrator or not x sudo/doas found or not x OpenBSD or not x per candidate (cannot be "
        "started, exits with a status before/after speaking, junk lines, READY at line 1..103) x method x verbosity x --syslog x PYTHONPATH prefix, "
        "and real stand-in sudo programs (lecture, refusal, running something else) in front of a real helper process; plus random scripts with "
        "several faults; a case is non-trivial when _main got past ssh.connect; distinct by script text; "
        "tunnel end under the real runonce: messages before the end (none / ROUTES / HOST_LIST / PING with ssh's stdin writable or full / "
        "PONG / stray data) x segmentation x how it ends (EOF alone, with the last message, after EXIT at once or later, inside a message, "
        "ECONNRESET) x ssh exit status visible after k = 0, 1, 2, ... looks or never x exit status x daemon on/off, listeners idle; "
        "daemon-mode liveness probe: errno of the failing os.kill(pid, 0) (ESRCH, EPERM = pid re-used by another user's process, EINVAL, "
        "EACCES, EIO) x success for k = 0..3 looks and failure from then on x tunnel ended (every way above) / still open (ssh gone, an "
        "orphan holds the channel and keeps sending PINGs) x ROUTES seen or not, and the same errnos in the scripted life cycles")
TRUSTED_BASE = [
    "modelled, not verified: CPython try/finally and exception replacement semantics, OSError errno->subclass mapping "
    "(PermissionError for EACCES/EPERM), Popen.wait returning a preset returncode, blocking raw read(n) returning 1..n bytes",
    "the fake objects of harness/props/c12.py stand for ssh (process + pipe), the helper (process + pipe), os.fork/open/"
    "unlink/kill, the systemd notification socket and ssnet.runonce's select-driven dispatch",
    "tunnel-end part: TunChan/TunW/tun_select of harness/props/c12.py stand for the kernel's view of ssh's stdout/stdin (readable = bytes, "
    "end of file or error pending, end of file is a state; writable unless the buffer is full, EPIPE once ssh is gone) and for select()",
    "helper candidates: the scripted candidate holds the other end of the REAL socketpair the constructor creates (lines, then end of output unless it is a verified helper); "
    "which(), is_admin_user(), platform.platform() are table stubs; real stand-in `sudo` = a shell script that prints / refuses / execs its command",
    "closing the control channel makes the helper restore the firewall: that is property C04 (helper side, firewall.py:365-371), "
    "not re-proved here",
]
ASSUMPTIONS = [
    "the helper reacts to EOF on its stdin by restoring the firewall (C04)",
    "exceptions are raised synchronously at the modelled steps; a signal arriving between `finally:` and fw.done() is not modelled "
    "(process exit then closes the pipe, which the helper sees as EOF as well)",
    "daemonize(): the model continues in the grandchild; the two fork()s return 0",
    "scripted ssnet.runonce (life-cycle part): message dispatch goes through the real Mux.got_packet, but select/fill/flush are C07's "
    "and C01's; that the loop REACHES its next look at ssh after the tunnel ended is checked by the tunnel-end part on the real runonce",
    "tunnel-end part: the death of ssh shows as end of file or a read error on the ssh channel, or (ssh_gone_channel_open) not at all on "
    "the channel while keep-alive traffic from whoever holds it keeps the loop turning (an ssh that dies while another process keeps "
    "its channel open AND silent wakes no select-driven loop: outside the property text); the harness knows whether ssh is gone: whenever it "
    "is and a look at the process (poll() / os.kill(pid, 0)) answered anything but `alive`/success, the next loop iteration must not be "
    "entered and the control channel must be closed (implementation-side oracle; the model's it_dead = Some _ stands for `the probe raised "
    "OSError` with any errno, so c12_dead_ssh_loop covers every errno and the errno-carrying scripts are compared with that model line); its exit status becomes visible to poll()/kill(pid,0) at the "
    "same moment or any number of looks later; no new connection arrives at the listeners; a select() without timeout with nothing ready "
    "and nothing left to arrive = the client sleeps for ever (implementation-side oracle: the Coq model has no select; "
    "c12_dead_ssh_loop / c12_dead_ssh presuppose that the next iteration is reached)",
]

SYNC = b"\0\0SSHUTTLE0001"
CMD_ROUTES = 0x4207
CMD_HOST_LIST = 0x4209
PIDFILE = "/nonexistent-verif-c12/sshuttle.pid"

EXN_ALL = ["Fatal.Injected", "OSError.32", "OSError.104", "OSError.5", "OSError.2", "OSError.13", "OSError.1",
           "KeyboardInterrupt", "SystemExit", "AssertionError", "Exception", "MemoryError", "ValueError"]


HELPER_REPLIES = [b"STARTED\n", b"", b"STARTED", b"STARTE", b"S", b"\n", b"started\n", b"STARTED \n", b" STARTED\n",
                  b"STARTED\r\n", b"STARTEDX\n", b"READY nat\n", b"QUERY_PF_NAT_SUCCESS 10.1.2.3,80\n", b"\xff\xfe\n",
                  b"\0STARTED\n"]


# errno of a failing os.kill(pid, 0) (kill(2): ESRCH, EPERM, EINVAL; the others stand for "anything else")
PROBE_ERRNOS = [3, 1, 22, 13, 5]


class Stop(BaseException):
    """private sentinel that ends a run when the script is exhausted"""


HANGS = [0]


class Asleep(BaseException):
    """tunnel-end part: the client called select() without a timeout, nothing in its wait sets is ready and nothing
    will ever become ready (every event of the environment script has happened): the process sleeps for ever.  Raised
    by the fake select only to get the harness out of the client's loop; the trace is cut at the `Sleeps` event."""


class StillLooping(BaseException):
    """tunnel-end part: the loop is still turning a bounded number of iterations after the tunnel ended"""


class HarnessWatchdog(BaseException):
    """raised by the harness's alarm when the code under check has made no exit for 10 s"""


def hx(b):
    return b.hex() if b else "-"


# ----------------------------------------------------------------------
# exceptions <-> text

def make_exc(name):
    import sshuttle.helpers as helpers
    if name.startswith("Fatal."):
        return helpers.Fatal("injected")
    if name.startswith("OSError."):
        n = int(name.split(".")[1])
        return OSError(n, os.strerror(n))
    return {"KeyboardInterrupt": KeyboardInterrupt, "SystemExit": SystemExit, "AssertionError": AssertionError,
            "Exception": Exception, "MemoryError": MemoryError, "ValueError": ValueError}[name]("injected")


def canon_exc(e):
    import sshuttle.helpers as helpers
    if isinstance(e, Stop):
        return "Stop"
    if isinstance(e, helpers.Fatal):
        m = str(e)
        if m.startswith("failed to establish ssh session (1)"):
            return "Fatal.Connect"
        if m.startswith("failed to establish ssh session (2)"):
            return "Fatal.Reset"
        if m.startswith("server died with error code"):
            return "Fatal.ServerDied"
        if m.startswith("expected server init string"):
            return "Fatal.BadSync"
        if m.startswith("failed to create/write pidfile"):
            return "Fatal.Pidfile"
        if m.startswith("ssh connection to server"):
            return "Fatal.SshExited"
        if m.startswith("cleanup: "):
            return "Fatal.Cleanup"
        if m.startswith("All attempts to run firewall client"):
            return "Fatal.NoHelper"
        if "expected STARTED" in m:
            return "Fatal.NotStarted"
        if " returned " in m:
            return "Fatal.HelperDied"
        if m == "injected":
            return "Fatal.Injected"
        if m.startswith("socket ") and m.endswith("was not used by any handler"):
            return "Fatal.UnusedDescriptor"
        if m.startswith("other end: "):
            return "Fatal.OtherEnd"
        return "Fatal.?" + m[:40].replace(" ", "_")
    if isinstance(e, OSError):
        return "OSError.%d" % (e.errno or 0)
    return type(e).__name__


# ----------------------------------------------------------------------
# script <-> driver line

def script_line(s, cmd="RUN"):
    def o(x):
        return "-" if x is None else str(x)

    def act(a):
        if a[0] == "R":
            return "R%d" % (1 if a[1] else 0)
        if a[0] == "H":
            return "H%d:%s" % (a[1], a[2])
        if a[0] == "S":
            return "X:SystemExit"          # SIGTERM: the handler daemonize() installed (client.got_signal) calls sys.exit(1)
        return "X:%s" % a[1]
    st = s["start"]
    start = "%s:%s" % (st[0], st[1]) if st[0] in "WR" else "P:%d:%s" % (1 if st[1] else 0, o(st[2]))
    w = s["wait"]
    iters = ";".join("%s/%s" % (o(it["dead"]), ",".join(act(a) for a in it["acts"])) for it in s["iters"]) or "-"
    chunks = ",".join(c.hex() for c in s["chunks"]) or "-"
    return " ".join([cmd, "1" if s["daemon"] else "0", "1" if s["auto_nets"] else "0", o(s["connect"]), chunks,
                     o(s["hs_end"]), o(s["poll0"]), o(s["daemonize"]), start, o(s["ready"]), o(s["close"]),
                     "%s:%s" % (w[0], w[1]), o(s["stop"]), o(s["cleanup"]), iters])


def base_script(**kw):
    s = {"daemon": False, "auto_nets": False, "connect": None, "chunks": [SYNC], "hs_end": None, "poll0": None,
         "daemonize": None, "iters": [{"dead": None, "acts": [("R", False)]}, {"dead": None, "acts": []}],
         "start": ("P", True, None), "ready": None, "close": None, "wait": ("V", 0), "stop": None, "cleanup": None}
    s.update(kw)
    return s


# ----------------------------------------------------------------------
# the simulated boundary

def impl_run(s, real_helper=None):
    """run the real client.main on environment script s; returns the event trace (list of str).
    real_helper = path of a stub helper program: the REAL FirewallClient constructor then starts it
    through the real socketpair/Popen path and the real pipe object is only wrapped for recording."""
    import sshuttle.client as client
    import sshuttle.ssnet as ssnet
    import sshuttle.ssh as ssh
    import sshuttle.helpers as helpers
    import sshuttle.sdnotify as sdnotify
    from sshuttle.methods import get_method

    trace = []
    st = {"it": 0, "polled0": False, "forked": False, "closed": False, "after_close_io": 0, "go": False,
          "consumed": b"", "sync_emitted": False,
          # tunnel-end part (s["tunnel"]): the real ssnet.runonce on a scripted ssh channel
          "polls_after_end": 0, "its_after_end": 0, "selects": [], "dead_reported": False, "ran_after_dead": False,
          "end_read": None, "looks": []}
    tun = s.get("tunnel")

    def sync_consumed():
        # observed at the boundary only (independent of what the client logs): the client has read,
        # from ssh's stdout, everything up to and including the correct announcement
        c = st["consumed"]
        i = c.find(b"\0")
        j = c.find(b"\0", i + 1) if i >= 0 else -1
        return j >= 0 and c[j + 1:j + 1 + len(SYNC) - 2] == SYNC[2:]

    def rec(ev):
        # "SyncOk" = the client went on (did anything observable other than giving up) after having
        # consumed the complete, correct announcement
        if not st["sync_emitted"] and sync_consumed():
            st["sync_emitted"] = True
            if ev != "MainEnd(Fatal.ServerDied)":      # the one way to give up after a correct announcement
                trace.append("SyncOk")
        trace.append(ev)

    extra = []

    def rec_extra(ev):
        extra.append(ev)

    def helper_said(line):
        # what the helper really put on the control channel, observed at the pipe (not: "start() returned")
        if line == b"STARTED\n" and st["go"]:
            rec("HelperConfirmed")
        else:
            rec("HelperSaid(%s)" % hx(line))

    class FakeR:                                   # ssh's stdout: scripted deliveries, raw read semantics
        def __init__(self):
            self.chunks = [bytes(c) for c in s["chunks"]]

        def fileno(self):
            return 0

        def read(self, n=-1):
            if not self.chunks:
                if s["hs_end"] is not None:
                    raise make_exc(s["hs_end"])
                return b""
            c = self.chunks[0]
            if n < 0 or len(c) <= n:
                self.chunks.pop(0)
                st["consumed"] += c
                return c
            self.chunks[0] = c[n:]
            st["consumed"] += c[:n]
            return c[:n]

    class FakeW:
        def fileno(self):
            return 1

        def write(self, b):
            return len(b)

        def flush(self):
            pass

    class TunChan(FakeR):
        """ssh's stdout in the tunnel-end part: the handshake chunks as before, then what the kernel holds for the
        client: bytes delivered so far, end of file, a pending error.  The environment's deliveries (`batches`) happen
        when the client sleeps in select (or are there already).  As with a real socket or pipe, end of file is a
        STATE: select reports the descriptor readable every time and every read returns b''."""
        def __init__(self):
            FakeR.__init__(self)
            self.avail = b""
            self.eof = False
            self.err = False
            self.end_delivered = False
            self.died = False                      # the ssh PROCESS is gone while the channel is still held open
            self.pending = [list(b) for b in tun["batches"]]
            self.nread = 0

        def deliver_next(self):
            if not self.pending:
                return False
            for item in self.pending.pop(0):
                if item == "DIE":
                    self.died = True
                elif item == "EOF":
                    self.eof = self.end_delivered = True
                elif item == "ERR":
                    self.err = self.eof = self.end_delivered = True
                else:
                    self.avail += bytes.fromhex(item)
            return True

        def gone(self):
            """the environment KNOWS: the ssh process no longer exists"""
            return self.end_delivered or self.died

        def readable(self):
            return bool(self.avail) or self.eof or self.err

        def read(self, n=-1):
            if self.chunks:
                return FakeR.read(self, n)
            if self.avail:
                d = self.avail if n < 0 else self.avail[:n]
                self.avail = self.avail[len(d):]
                self.nread += len(d)
                if tun.get("exit_at") is not None and st["end_read"] is None and self.nread >= tun["exit_at"]:
                    st["end_read"] = "EXIT"
                return d
            if self.err:
                self.err = False
                st["end_read"] = st["end_read"] or "ERR"
                raise OSError(104, os.strerror(104))
            if self.eof:
                st["end_read"] = st["end_read"] or "EOF"
                return b""
            raise BlockingIOError(11, os.strerror(11))

    class TunW(FakeW):
        """ssh's stdin: once ssh is gone a write fails with EPIPE (and select calls the descriptor writable)"""
        def write(self, b):
            if st["chan"].end_delivered:
                raise OSError(32, os.strerror(32))
            return len(b)

    LSOCK = type("ListenerSocket", (), {"fileno": lambda self: 7, "__repr__": lambda self: "<listener>"})()

    def tun_select(r, wl, x, timeout=None):
        """select() with the kernel's semantics on the scripted descriptors: the ssh channel is readable when bytes,
        end of file or an error are waiting; ssh's stdin is writable unless the script says its buffer is full (always
        once ssh is gone); the listeners are idle.  Without a timeout an empty answer is impossible: the process
        sleeps until the environment's next delivery, and for ever when there is none (stream_common.World.fake_select
        has the same rule)."""
        chan, wchan = st["chan"], st["wchan"]

        def ready():
            rr = [o for o in r if o is chan and chan.readable()]
            ww = [o for o in wl if o is wchan and (chan.end_delivered or not tun.get("wfull"))]
            return rr, ww

        def name(o):
            return "ssh-channel" if o is chan else "ssh-stdin" if o is wchan else "listener" if o is LSOCK else repr(o)
        rr, ww = ready()
        if timeout is None:
            asked = "r=[%s] w=[%s]" % (",".join(map(name, r)), ",".join(map(name, wl)))
            while not rr and not ww:
                if not chan.deliver_next():
                    st["selects"].append(asked + " -> nothing ready, nothing will be: sleeps")
                    rec("Sleeps(%s)" % asked.replace(" ", ";"))
                    raise Asleep()
                rr, ww = ready()
            st["selects"].append(asked + " -> ready r=[%s] w=[%s]" % (",".join(map(name, rr)), ",".join(map(name, ww))))
        return rr, ww, []

    class SelShim:
        error = OSError
        select = staticmethod(tun_select)

    def tun_dead():
        """the exit status of ssh: not visible before the channel's end has reached the client's kernel, and then only
        after `k` further looks (None = never within this run: a wrapper still running, a zombie not yet there)"""
        if not st["chan"].gone():
            return None
        st["polls_after_end"] += 1
        if tun["k"] is not None and st["polls_after_end"] > tun["k"]:
            st["dead_reported"] = True
            return tun["rv"]
        return None

    real_runonce = ssnet.runonce

    def tun_runonce(handlers, mux):
        """the REAL ssnet.runonce, counted"""
        st["it"] += 1
        if st["dead_reported"]:
            st["ran_after_dead"] = True
        if st["chan"].gone():
            st["its_after_end"] += 1
            if st["its_after_end"] > (tun["k"] if tun["k"] is not None else 4) + 3:
                rec("StillLooping(%d)" % st["its_after_end"])
                raise StillLooping()
        return real_runonce(handlers, mux)

    real_got_packet = ssnet.Mux.got_packet

    def tun_got_packet(self_, channel, cmd, data):
        if cmd == CMD_ROUTES:
            rec("Routes")
        elif cmd == CMD_HOST_LIST:
            rec("HostList")
        return real_got_packet(self_, channel, cmd, data)

    def dead_now():
        if tun:
            return tun_dead()
        # a dead process stays dead: from the iteration at which the script lets ssh die, every later look finds it gone
        for it in s["iters"][:st["it"] + 1]:
            if it["dead"] is not None:
                return it["dead"]
        return None

    class SshProc:
        pid = 4242

        def poll(self):
            if not st["polled0"]:
                st["polled0"] = True
                return s["poll0"]
            rv = dead_now()
            st["looks"].append("poll()=%r" % (rv,))
            return rv

    def fake_connect(*a, **k):
        rec("Upload")
        if s["connect"] is not None:
            raise make_exc(s["connect"])
        if tun:
            st["chan"], st["wchan"] = TunChan(), TunW()
            return SshProc(), st["chan"], st["wchan"]
        return SshProc(), FakeR(), FakeW()

    def fake_runonce(handlers, mux):
        i = st["it"]
        if st.get("probe_failed"):
            st["ran_after_probe_failed"] = True
        if i >= len(s["iters"]):
            raise Stop()
        st["it"] = i + 1
        for a in s["iters"][i]["acts"]:
            if a[0] == "R":
                rec("Routes")
                mux.got_packet(0, CMD_ROUTES, b"2,10.9.0.0\n" if a[1] else b"2,10.9.0.0,16\n2,192.168.7.0,24\n")
            elif a[0] == "H":
                rec("HostList")
                lines = [b"host%d.example,10.9.0.%d" % (k, k + 1) for k in range(a[1])]
                if a[2] == "c":
                    lines.append(b"nocomma")
                elif a[2] == "a":
                    lines.append(b"bad/name,10.9.0.99")
                mux.got_packet(0, CMD_HOST_LIST, b"\n".join(lines) + b"\n")
            elif a[0] == "S":
                h = st.get("sigterm")
                if h is None:                      # (never generated: without a handler SIGTERM kills the process)
                    raise make_exc("SystemExit")
                rec_extra("SigtermHandlerRun")
                h(15, None)
            else:
                raise make_exc(a[1])

    class HelperProc:                              # stands for the Popen object of the firewall helper
        pid = 4343
        returncode = None

        def poll(self):
            return s["start"][2] if s["start"][0] == "P" else None

        def wait(self):
            if self.returncode is not None:        # Popen.wait: a preset returncode is returned at once
                return self.returncode
            if s["wait"][0] == "X":
                raise make_exc(s["wait"][1])
            return s["wait"][1]

    class Pfile:                                   # the control channel to the helper
        def write(self, b):
            if st["closed"]:
                st["after_close_io"] += 1
            if b == b"ROUTES\n":
                rec("FwStart")
                if s["start"][0] == "W":
                    raise make_exc(s["start"][1])
            elif b.startswith(b"HOST "):
                rec("FwHost")
            elif b.startswith(b"GO "):
                st["go"] = True
            return len(b)

        def flush(self):
            pass

        def readline(self):
            if s["start"][0] == "R":
                raise make_exc(s["start"][1])
            line = s["reply"] if s.get("reply") is not None else (b"STARTED\n" if s["start"][1] else b"")
            helper_said(line)
            return line

        def close(self):
            rec("FwClose")
            st["closed"] = True
            if s["close"] is not None:
                raise make_exc(s["close"])

    RealFW = client.FirewallClient

    class StubFW(RealFW):                          # only the constructor (sudo/Popen/READY) is replaced
        def __init__(self, method_name, sudo_pythonpath):
            self.auto_nets = []
            self.p = HelperProc()
            self.pfile = Pfile()
            self.argv = ["fw-helper"]
            self.method = get_method(method_name)
            self.method.set_firewall(self)

        def start(self):
            RealFW.start(self)
            rec("FwStarted")

    class RecordingPfile:                          # the real pipe object, observed
        def __init__(self, f):
            self.f = f

        def write(self, b):
            if st["closed"]:
                st["after_close_io"] += 1
            if b == b"ROUTES\n":
                rec("FwStart")
            elif b.startswith(b"HOST "):
                rec("FwHost")
            elif b.startswith(b"GO "):
                st["go"] = True
            return self.f.write(b)

        def flush(self):
            return self.f.flush()

        def readline(self):
            line = self.f.readline()
            helper_said(line)
            return line

        def close(self):
            rec("FwClose")
            st["closed"] = True
            return self.f.close()

    class RealChannelFW(RealFW):                   # the real constructor: socketpair, Popen, READY dialogue
        def __init__(self, method_name, sudo_pythonpath):
            argv0 = sys.argv[0]
            sys.argv[0] = real_helper
            try:
                RealFW.__init__(self, method_name, sudo_pythonpath)
            finally:
                sys.argv[0] = argv0
            st["helper_pipe"] = self.pfile
            self.pfile = RecordingPfile(self.pfile)
            st["helper_proc"] = self.p

        def start(self):
            RealFW.start(self)
            rec("FwStarted")

    class Listener:                                # MultiListener that binds nothing
        def __init__(self, kind=real_socket.SOCK_STREAM, proto=0):
            self.v4 = object()
            self.v6 = None
            self.bind_called = False

        def bind(self, a6, a4):
            self.bind_called = True

        def listen(self, n):
            pass

        def setsockopt(self, *a):
            pass

        def add_handler(self, handlers, callback, method, mux):
            if tun:                                # as MultiListener.add_handler (client.py:137-150); never ready
                handlers.append(ssnet.Handler([LSOCK], lambda sock: callback(sock, method, mux, handlers)))

        def print_listening(self, what):
            pass

    class OsProxy:                                 # client.os: nothing process-wide is ever really done
        path = os.path
        devnull = os.devnull
        O_WRONLY, O_CREAT, O_EXCL = os.O_WRONLY, os.O_CREAT, os.O_EXCL
        environ = os.environ

        def getpid(self):
            return 1234

        def open(self, path, flags, mode=0o777):
            if s["daemonize"] is not None:
                raise make_exc(s["daemonize"])
            return 99

        def fork(self):
            if not st["forked"]:
                st["forked"] = True
                rec("Daemonize")
            return 0

        def _exit(self, n):
            raise AssertionError("harness: os._exit reached")

        def setsid(self):
            pass

        def write(self, fd, b):
            assert fd == 99
            return len(b)

        def close(self, fd):
            assert fd == 99

        def chdir(self, p):
            pass

        def dup2(self, a, b):
            pass

        def unlink(self, p):
            rec("DaemonCleanup")
            if s["cleanup"] is not None:
                raise make_exc(s["cleanup"])

        def kill(self, pid, sig):
            # the daemon-mode liveness probe (client.py:824-834).  The script says WHETHER ssh is gone and WITH WHICH
            # errno the kernel then answers: ESRCH (no such pid), EPERM (the pid now belongs to another user's process),
            # EINVAL, ...; OSError(n, ..) yields the subclass the interpreter would raise (ProcessLookupError,
            # PermissionError, plain OSError)
            assert pid == SshProc.pid and sig == 0
            if dead_now() is not None:
                en = (tun or s).get("probe_errno") or 3
                st["looks"].append("kill(pid,0)=%s" % errno.errorcode.get(en, en))
                st["probe_failed"] = True
                raise OSError(en, os.strerror(en))
            st["looks"].append("kill(pid,0)=success")

    class Signal:
        SIGTERM = 15

        @staticmethod
        def signal(signo, handler):
            if signo == 15:
                st["sigterm"] = handler

    class NSock:
        def sendto(self, msg, addr):
            if b"READY=1" in msg:
                rec("NotifyReady")
                inj = s["ready"]
            elif b"STOPPING=1" in msg:
                rec("NotifyStop")
                inj = s["stop"]
            else:
                rec("Notify?")
                inj = None
            if inj is not None:
                raise make_exc(inj)
            return len(msg)

    class NSockSilent:
        def sendto(self, msg, addr):
            return len(msg)

    class NSocketModule:
        AF_UNIX = real_socket.AF_UNIX
        SOCK_DGRAM = real_socket.SOCK_DGRAM

        @staticmethod
        def socket(family, kind):
            if s.get("notify_at") == "socket":
                # the fault is placed at the creation of the notification socket instead of at sendto()
                msg = sys._getframe(1).f_locals.get("message", b"")
                if b"READY=1" in msg:
                    rec("NotifyReady")
                    inj = s["ready"]
                elif b"STOPPING=1" in msg:
                    rec("NotifyStop")
                    inj = s["stop"]
                else:
                    rec("Notify?")
                    inj = None
                if inj is not None:
                    raise make_exc(inj)
                return NSockSilent()
            return NSock()

    def fake_log(m):
        pass

    real_main_ = client._main

    def wrapped_main(*a, **k):
        rec("MainEnter")
        try:
            return real_main_(*a, **k)
        except BaseException as e:
            rec("MainEnd(%s)" % canon_exc(e))
            raise

    saved = (ssh.connect, ssnet.runonce, client.log, helpers.log, client.FirewallClient, client.MultiListener,
             client.os, client.signal, sdnotify.socket, client._main, helpers.logprefix,
             os.environ.get("NOTIFY_SOCKET"), getattr(client, "_pidname", None))
    saved_admin = client.is_admin_user
    ssh.connect = fake_connect
    ssnet.runonce = tun_runonce if tun else fake_runonce
    saved_tun = (ssnet.select, ssnet.set_non_blocking_io, ssnet.log)
    if tun:
        ssnet.select = SelShim
        ssnet.set_non_blocking_io = lambda fd: None
        ssnet.Mux.got_packet = tun_got_packet
        ssnet.log = fake_log
    client.log = helpers.log = fake_log
    client.FirewallClient = RealChannelFW if real_helper else StubFW
    saved_which = client.which
    ie = s.get("init_env")
    if real_helper and ie:
        # not an administrator: the real constructor goes through its elevation candidates (stand-in programs)
        client.is_admin_user = lambda: False
        client.which = lambda name: ie["which"].get(name)
    else:
        client.is_admin_user = lambda: True        # no sudo/doas prefix in front of the stub helper
    client.MultiListener = Listener
    client.os = OsProxy()
    client.signal = Signal
    sdnotify.socket = NSocketModule
    client._main = wrapped_main
    os.environ["NOTIFY_SOCKET"] = "/run/verif-c12-notify"
    so, se = sys.stdout, sys.stderr
    # watchdog: code that never leaves a loop must not hang the check; it is reported as what it is
    import signal as _rsig

    def _on_alarm(signum, frame):
        raise HarnessWatchdog()
    _old_alarm = _rsig.signal(_rsig.SIGALRM, _on_alarm)
    # 10 s for the first few runs that hang; afterwards half a second (a scripted run needs milliseconds), so that
    # a change that makes many scripts hang cannot make the check itself take hours
    _rsig.setitimer(_rsig.ITIMER_REAL, 10.0 if HANGS[0] < 2 else 0.5)
    try:
        try:
            rv = client.main(None, ("127.0.0.1", 0), None, "remote", s.get("python"), True, 32768, False, [],
                             "nat", None, False, s["auto_nets"], [(real_socket.AF_INET, "10.0.0.0", 8, 0, 0)], [],
                             s["daemon"], None, PIDFILE, None, None, True, False, None, "0x01")
            rec("Return(%r)" % (rv,))
        except HarnessWatchdog:
            HANGS[0] += 1
            rec("Exit(Hang)")
        except (Asleep, StillLooping):
            pass                                   # the trace is cut at the Sleeps / StillLooping event below
        except BaseException as e:
            rec("Exit(%s)" % canon_exc(e))
    finally:
        _rsig.setitimer(_rsig.ITIMER_REAL, 0)
        _rsig.signal(_rsig.SIGALRM, _old_alarm)
        (ssh.connect, ssnet.runonce, client.log, helpers.log, client.FirewallClient, client.MultiListener,
         client.os, client.signal, sdnotify.socket, client._main, helpers.logprefix, ns, pidname) = saved
        if ns is None:
            os.environ.pop("NOTIFY_SOCKET", None)
        else:
            os.environ["NOTIFY_SOCKET"] = ns
        client._pidname = pidname
        (ssnet.select, ssnet.set_non_blocking_io, ssnet.log) = saved_tun
        ssnet.Mux.got_packet = real_got_packet
        client.is_admin_user = saved_admin
        client.which = saved_which
        sys.stdout, sys.stderr = so, se
    if real_helper:
        return trace, st.get("helper_proc"), st.get("helper_pipe")
    if st["after_close_io"]:
        trace.append("WriteAfterClose")
    impl_run.iters_run = st["it"]
    impl_run.extra = extra
    impl_run.looks = st["looks"]
    impl_run.ran_after_probe_failed = bool(st.get("ran_after_probe_failed"))
    if tun:
        # what the finally blocks did while the harness's own sentinel travelled up is not something the client did
        for k, e in enumerate(trace):
            if e.startswith("Sleeps(") or e.startswith("StillLooping("):
                del trace[k + 1:]
                break
        impl_run.tun = {"selects": st["selects"], "polls_after_end": st["polls_after_end"], "end_read": st["end_read"],
                        "iterations_after_end": st["its_after_end"], "ran_after_dead": st["ran_after_dead"],
                        "left_unread": len(st["chan"].avail) if st.get("chan") else None,
                        "looks": st["looks"], "daemon": bool(s["daemon"])}
    return trace


def model_view(tr):
    """the events the model speaks about; Helper* events are observations of the helper's own bytes on the
    control channel, used by the oracle only"""
    return [e for e in tr if not e.startswith("Helper")]


# ----------------------------------------------------------------------
# the property, evaluated on an implementation trace alone

def probe_text(en):
    return "os.kill(pid, 0) failed with %s (%s)" % (errno.errorcode.get(en, en), os.strerror(en))


def oracle(tr, s=None, sync_ok=None, iters_run=None, ran_after_probe_failed=False):
    """returns a list of property failures visible in the recorded trace; with the script s and the
    specification-side verdict sync_ok also those that refer to what the environment did"""
    bad = []
    if s is not None and ran_after_probe_failed:
        # `the death of the ssh process ... always results in the control channel ... being closed`, daemon mode: the
        # script KNOWS that ssh is gone, and the liveness probe did not answer success -- whatever the errno
        bad.append("daemon mode: ssh is gone and %s, yet the client went on with the next loop iteration: "
                   "the control channel to the helper stays open%s"
                   % (probe_text(s.get("probe_errno") or 3), ", interception stays installed" if "FwStart" in tr else ""))
    if s is not None:
        if sync_ok is False and "FwStart" in tr:
            bad.append("helper asked to install rules although the handshake phase did not succeed")
        dead = [k for k, it in enumerate(s["iters"]) if it["dead"] is not None]
        if dead and iters_run is not None and iters_run > dead[0]:
            bad.append("the main loop kept running after ssh was found dead")
        if dead and "MainEnd(Stop)" in tr:
            bad.append("the main loop kept running after ssh was found dead")
    if tr and tr[-1] == "Exit(Hang)":
        bad.append("the client never left its start-up / main code (no exit within the watchdog time of a scripted run that needs "
                   "milliseconds): the control channel to the helper is never closed")
    if "MainEnter" in tr:
        if "FwClose" not in tr:
            bad.append("try block entered but the helper channel was never closed")
        elif not tr[-1].startswith("Exit(") and not tr[-1].startswith("Return("):
            bad.append("run did not end")
    seen = set()
    nstart = 0
    for e in tr:
        if e == "FwStart":
            nstart += 1
            if "SyncOk" not in seen:
                bad.append("helper asked to install rules before the synchronisation string was verified")
            if "Routes" not in seen:
                bad.append("helper asked to install rules before the route message")
            if "FwClose" in seen:
                bad.append("helper asked to install rules after its channel was closed")
        if e == "NotifyReady" and "FwStarted" not in seen:
            bad.append("readiness reported before the helper confirmed")
        elif e == "NotifyReady" and "HelperConfirmed" not in seen:
            bad.append("readiness reported although the helper never answered STARTED to the GO request")
        if e == "FwHost" and "FwClose" in seen:
            bad.append("host update after the channel was closed")
        seen.add(e)
    if nstart > 1:
        bad.append("helper asked to install rules twice")
    if "WriteAfterClose" in tr:
        bad.append("write on the helper channel after close")
    return bad


# ----------------------------------------------------------------------
# case generation

def gen_cases(ctx):
    rng = ctx.rng
    quick = ctx.quick()
    exns = EXN_ALL
    cases = []

    def add(kind, s):
        cases.append((kind, s))

    R = ("R", False)
    good_loop = [{"dead": None, "acts": [("H", 1, "n")]}, {"dead": None, "acts": [R, ("H", 2, "n")]},
                 {"dead": None, "acts": []}]

    for daemon in (False, True):
        for an in (False, True):
            add("valid", base_script(daemon=daemon, auto_nets=an, iters=[dict(i) for i in good_loop]))
        # connect
        for e in exns:
            add("inj_connect", base_script(daemon=daemon, connect=e))
        # handshake: stream cut at every byte (EOF / exception at the end), delivery boundary at every position
        streams = [SYNC, b"junk\0more\0SSHUTTLE0001", b"\0\0SSHUTTLE0002", b"\0\0SSHUTTLE0001extra"]
        for stream in streams:
            for cut in range(len(stream) + 1):
                pre = stream[:cut]
                for end in [None, "OSError.104", "OSError.5", "KeyboardInterrupt"]:
                    chunks = [pre] if pre else []
                    add("hs_cut", base_script(daemon=daemon, chunks=chunks, hs_end=end))
                if 0 < cut < len(stream):
                    add("hs_split", base_script(daemon=daemon, chunks=[stream[:cut], stream[cut:]], hs_end="OSError.104"))
        add("hs_bytewise", base_script(daemon=daemon, chunks=[SYNC[i:i + 1] for i in range(len(SYNC))]))
        # poll after the handshake, with good and bad sync strings
        for rv in (0, 1, 99, 255, -9):
            add("poll0", base_script(daemon=daemon, poll0=rv))
            add("poll0_badsync", base_script(daemon=daemon, poll0=rv, chunks=[b"\0\0SSHUTTLE0009"]))
        # every exit status the diagnosis distinguishes (client.py:658-722), with and without --python
        for rv in (97, 98, 99, 127, 255, 1):
            for py in (None, "python3", "/opt/py/bin/python3"):
                add("poll0_diagnosis", base_script(daemon=daemon, poll0=rv, python=py))
        # daemonize
        if daemon:
            for e in exns:
                add("inj_daemonize", base_script(daemon=True, daemonize=e))
            # SIGTERM while the daemon runs: through the handler daemonize() registered
            for k in range(3):
                for pos in range(len(good_loop[k]["acts"]) + 1):
                    its = [dict(i) for i in good_loop]
                    its[k] = {"dead": None, "acts": good_loop[k]["acts"][:pos] + [("S",)] + good_loop[k]["acts"][pos:]}
                    add("sigterm", base_script(daemon=True, iters=its))
        # loop: ssh death at every iteration, exception of every class at every position
        for k in range(4):
            for rv in (0, 1, 255, -15):
                its = [dict(i) for i in good_loop] + [{"dead": None, "acts": []}]
                its[k] = {"dead": rv, "acts": its[k]["acts"]}
                add("ssh_dead", base_script(daemon=daemon, iters=its))
                if daemon:
                    # the errno with which the kernel answers the daemon-mode probe once ssh is gone: no such pid /
                    # pid re-used by another user's process / anything else
                    for en in PROBE_ERRNOS[1:]:
                        add("ssh_dead_errno", base_script(daemon=True, iters=[dict(i) for i in its], probe_errno=en))
        for e in exns:
            for k in range(3):
                acts_k = good_loop[k]["acts"]
                for pos in range(len(acts_k) + 1):
                    its = [dict(i) for i in good_loop]
                    its[k] = {"dead": None, "acts": acts_k[:pos] + [("X", e)] + acts_k[pos:]}
                    add("inj_loop", base_script(daemon=daemon, iters=its))
        # second ROUTES, ROUTES with bad payload, bad host lists
        add("routes_twice", base_script(daemon=daemon, iters=[{"dead": None, "acts": [R]}, {"dead": None, "acts": [R]}]))
        add("routes_twice_same", base_script(daemon=daemon, iters=[{"dead": None, "acts": [R, R]}]))
        for an in (False, True):
            add("routes_bad", base_script(daemon=daemon, auto_nets=an, iters=[{"dead": None, "acts": [("R", True)]},
                                                                            {"dead": None, "acts": [R]}]))
        for b in "ca":
            for n in (0, 2):
                add("hostlist_bad", base_script(daemon=daemon, iters=[{"dead": None, "acts": [("H", n, b), R]}]))
                add("hostlist_bad", base_script(daemon=daemon, iters=[{"dead": None, "acts": [R, ("H", n, b)]}]))
        # helper dialogue
        for e in exns:
            add("inj_start_write", base_script(daemon=daemon, start=("W", e)))
            add("inj_start_read", base_script(daemon=daemon, start=("R", e)))
            add("inj_ready", base_script(daemon=daemon, ready=e))
            add("inj_ready_socket", base_script(daemon=daemon, ready=e, notify_at="socket"))
            add("inj_stop_socket", base_script(daemon=daemon, stop=e, notify_at="socket"))
            add("inj_close", base_script(daemon=daemon, close=e))
            add("inj_wait", base_script(daemon=daemon, wait=("X", e)))
            add("inj_stop", base_script(daemon=daemon, stop=e))
            if daemon:
                add("inj_cleanup", base_script(daemon=True, cleanup=e))
                add("inj_cleanup_after_fault", base_script(daemon=True, cleanup=e, close="OSError.32"))
        for started in (True, False):
            for rv in (None, 0, 1, 99, -9):
                add("start_reply", base_script(daemon=daemon, start=("P", started, rv)))
        # every kind of answer the helper can give to GO (exact line, EOF, partial line, near misses, other protocol
        # lines, garbage) x every state of the helper process at that moment (running, exited 0, exited non-zero)
        for reply in HELPER_REPLIES:
            for rv in (None, 0, 1, 99, -9):
                add("helper_reply", base_script(daemon=daemon, start=("P", reply == b"STARTED\n", rv), reply=reply))
        for rv in (0, 1, 99, -9):
            add("done_rv", base_script(daemon=daemon, wait=("V", rv)))
            add("done_rv_after_fault", base_script(daemon=daemon, wait=("V", rv), connect="OSError.111"))
            add("done_rv_after_fault", base_script(daemon=daemon, wait=("V", rv),
                                                   iters=[{"dead": None, "acts": [R, ("X", "KeyboardInterrupt")]}]))

    # random scripts with several simultaneous faults
    def ropt(p, xs):
        return rng.choice(xs) if rng.random() < p else None

    def rstream():
        r = rng.random()
        if r < 0.6:
            return SYNC + rng.choice([b"", b"SS\0\0"])
        if r < 0.75:
            return bytes(rng.choice(b"ab\0S") for _ in range(rng.randint(0, 5))) + b"\0x\0SSHUTTLE0001"
        if r < 0.9:
            return SYNC[:rng.randint(0, len(SYNC))]
        return b"\0\0" + bytes(rng.choice(b"SHUTLE01") for _ in range(12))

    def rcut(b):
        out = []
        while b:
            k = rng.randint(1, max(1, len(b)))
            out.append(b[:k])
            b = b[k:]
        return out

    def ract():
        r = rng.random()
        if r < 0.35:
            return ("R", rng.random() < 0.2)
        if r < 0.7:
            return ("H", rng.randint(0, 3), rng.choice("nnnca"))
        return ("X", rng.choice(EXN_ALL))

    for _ in range(6000 if quick else 150000):
        st = rng.random()
        start = ("P", rng.random() < 0.8, rng.choice([None, None, 0, 1, 99])) if st < 0.7 else \
            (rng.choice("WR"), rng.choice(EXN_ALL))
        s = {"daemon": rng.random() < 0.5, "auto_nets": rng.random() < 0.5,
             "connect": ropt(0.05, EXN_ALL), "chunks": rcut(rstream()), "hs_end": ropt(0.3, EXN_ALL),
             "poll0": ropt(0.08, [0, 1, 99, 255]), "daemonize": ropt(0.1, EXN_ALL),
             "iters": [{"dead": ropt(0.07, [0, 1, 255, -9]), "acts": [ract() for _ in range(rng.choice([0, 0, 1, 1, 2, 3]))]}
                       for _ in range(rng.randint(0, 5))],
             "start": start, "ready": ropt(0.2, EXN_ALL), "close": ropt(0.15, EXN_ALL),
             "wait": ("V", rng.choice([0, 0, 0, 1, 99])) if rng.random() < 0.85 else ("X", rng.choice(EXN_ALL)),
             "stop": ropt(0.2, EXN_ALL), "cleanup": ropt(0.2, EXN_ALL)}
        if s["daemon"] and any(it["dead"] is not None for it in s["iters"]):
            s["probe_errno"] = rng.choice(PROBE_ERRNOS)
        add("random", s)
    return cases


HELPER_STUB = r"""
import os, sys
inp = os.fdopen(0, "rb", 0)
out = os.fdopen(1, "wb", 0)
got = []
with open(os.environ["VERIF_C12_MARKER"] + ".started", "ab") as f:
    f.write(b"%d\n" % os.getpid())
if os.environ.get("VERIF_C12_NOREADY") == "1":
    # answers, but never announces READY: end of its output, then waits for the client to hang up
    import socket
    out.write(b"usage: something else\n")
    socket.socket(fileno=os.dup(1)).shutdown(socket.SHUT_WR)
else:
    out.write(b"READY nat\n")
while True:
    line = inp.readline()
    if not line:
        break
    got.append(line)
    if line.startswith(b"GO "):
        if os.environ.get("VERIF_C12_SILENT") == "1":
            break                       # leaves without confirming: the client reads EOF, exit status as scripted
        out.write(b"STARTED\n")
with open(os.environ["VERIF_C12_MARKER"] + ".eof", "ab") as f:
    f.write(b"%d\n" % os.getpid())
with open(os.environ["VERIF_C12_MARKER"], "wb") as f:
    f.write(b"EOF-SEEN\n" + b"".join(got))
sys.exit(int(os.environ.get("VERIF_C12_RC", "0")))
"""


SUDO_STUB = r"""#!/bin/sh
# stand-in for sudo / doas (harness/props/c12.py): [-p PROMPT] command...
case "$VERIF_C12_SUDO" in
  fail) echo "Sorry, try again."; exit 1;;
  lecture) echo "We trust you have received the usual lecture from the local System Administrator.";;
esac
[ "$1" = "-p" ] && shift 2
exec "$@"
"""


def real_channel_check(ctx):
    """The same comparison on a handful of scripts, but with the REAL FirewallClient constructor and
    a real child process on the real socketpair: does closing the channel reach the helper as EOF,
    and do ROUTES..GO bytes reach it only in runs whose trace has FwStart?"""
    import shutil
    import time
    root = os.path.dirname(os.path.dirname(os.path.dirname(os.path.abspath(__file__))))
    work = os.path.join(root, ".work", "c12.%d" % os.getpid())
    os.makedirs(work, exist_ok=True)
    stub = os.path.join(work, "helper_stub.py")
    with open(stub, "w") as f:
        f.write(HELPER_STUB)
    R = ("R", False)
    scripts = [
        ("valid", base_script(iters=[{"dead": None, "acts": [("H", 1, "n")]}, {"dead": None, "acts": [R]}])),
        ("connect_epipe", base_script(connect="OSError.32")),
        ("bad_sync", base_script(chunks=[b"\0\0SSHUTTLE0002"])),
        ("eof_in_sync", base_script(chunks=[b"\0\0SSHUT"])),
        ("ssh_dead", base_script(iters=[{"dead": None, "acts": [R]}, {"dead": 255, "acts": []}])),
        ("kbdint_after_routes", base_script(iters=[{"dead": None, "acts": [R, ("X", "KeyboardInterrupt")]}])),
        ("sysexit_before_routes", base_script(iters=[{"dead": None, "acts": [("X", "SystemExit"), R]}])),
        ("helper_rc3", base_script(wait=("V", 3), iters=[{"dead": None, "acts": [R]}])),
        ("daemon_exception", base_script(daemon=True, iters=[{"dead": None, "acts": [R, R]}])),
        # a helper process that goes away with status 0 instead of confirming (Popen.poll() is None or 0 at that moment)
        ("helper_silent_rc0", base_script(start=("P", False, None), silent=True)),
        ("helper_silent_rc0_daemon", base_script(daemon=True, start=("P", False, None), silent=True)),
    ]
    # not an administrator: the real constructor tries `sudo ...`, `doas ...`, the bare command (stand-in programs)
    sudo = os.path.join(work, "bin", "sudo")
    os.makedirs(os.path.dirname(sudo), exist_ok=True)
    with open(sudo, "w") as f:
        f.write(SUDO_STUB)
    os.chmod(sudo, 0o755)
    absent = os.path.join(work, "bin", "doas-not-installed")
    env_na = {"which": {"sudo": sudo, "doas": absent}}
    R_ = ("R", False)
    scripts += [
        ("init_sudo_lecture_then_ready", base_script(init_env=env_na, sudo="lecture", iters=[{"dead": None, "acts": [R_]}])),
        ("init_sudo_refuses_doas_absent_direct_ready", base_script(init_env=env_na, sudo="fail", iters=[{"dead": None, "acts": [R_]}])),
        ("init_nobody_announces_ready", base_script(init_env=env_na, sudo="fail", noready=True)),
        ("init_sudo_runs_something_else", base_script(init_env=env_na, sudo="ok", noready=True)),
    ]
    if not ctx.quick():
        for e in EXN_ALL:
            scripts.append(("inj_" + e, base_script(iters=[{"dead": None, "acts": [R]}, {"dead": None, "acts": [("X", e)]}])))
    old_env = {k: os.environ.get(k) for k in ("VERIF_C12_MARKER", "VERIF_C12_RC", "VERIF_C12_SILENT", "VERIF_C12_SUDO",
                                              "VERIF_C12_NOREADY")}
    try:
        lines = [script_line(s) for _, s in scripts]
        model = ctx.run_driver(lines)
        for n, ((kind, s), ln, m) in enumerate(zip(scripts, lines, model)):
            marker = os.path.join(work, "marker%d" % n)
            os.environ["VERIF_C12_MARKER"] = marker
            os.environ["VERIF_C12_RC"] = str(s["wait"][1])
            os.environ["VERIF_C12_SILENT"] = "1" if s.get("silent") else "0"
            os.environ["VERIF_C12_SUDO"] = s.get("sudo") or "ok"
            os.environ["VERIF_C12_NOREADY"] = "1" if s.get("noready") else "0"
            tr, proc, pipe = impl_run(s, real_helper=stub)
            t0 = time.time()
            while not os.path.exists(marker) and time.time() - t0 < 3:
                time.sleep(0.01)
            time.sleep(0.02)

            def pids(suffix):
                return sorted(open(marker + suffix, "rb").read().split()) if os.path.exists(marker + suffix) else []
            while pids(".eof") != pids(".started") and time.time() - t0 < 3:
                time.sleep(0.01)
            started, hung_up = pids(".started"), pids(".eof")
            if s.get("init_env"):
                ctx.count("real_channel_helper_candidates_started", len(started))
                while True:                            # abandoned candidates are nobody's children any more: reap them
                    try:
                        if os.waitpid(-1, os.WNOHANG)[0] == 0:
                            break
                    except OSError:
                        break
            seen = open(marker, "rb").read() if os.path.exists(marker) else None
            if proc is not None:                       # never leave the child behind, whatever the client did
                if seen is None:
                    try:
                        os.kill(proc.pid, 9)
                    except OSError:
                        pass
                try:
                    os.waitpid(proc.pid, 0)            # daemon mode: main() told Popen not to wait
                except OSError:
                    pass
            if pipe is not None:
                try:
                    pipe.close()
                except Exception:
                    pass
            i = " ".join(model_view(tr))
            ctx.count("real_channel_" + kind)
            ctx.case(("real", ln), sample={"kind": "real helper process: " + kind, "script": ln, "trace": i,
                                           "helper_received": None if seen is None else seen.decode("latin1")[:200]}
                     if n < 2 else None)
            fails = oracle(tr)
            if s.get("noready"):
                # no candidate ever announced READY: no session; the process that did answer must still see the hang-up
                m = "Exit(Fatal.NoHelper)"
                if "MainEnter" in tr or "FwStart" in tr or (seen is not None and b"ROUTES\n" in seen):
                    fails.append("the client went on with a helper process that never announced READY")
            if seen is None:
                fails.append("client.main was left but the helper process never saw EOF on its control channel")
            elif started != hung_up:
                fails.append("client.main was left but a started helper candidate never saw EOF on its control channel")
            if seen is not None and (b"ROUTES\n" in seen) != ("FwStart" in tr):
                fails.append("helper received a rule set in a run without (or missed one in a run with) FwStart")
            for f in fails:
                rp = {"script": ln, "trace": tr, "real_helper": True}
                if s.get("silent"):
                    rp["helper_reply_hex"] = "-"
                ctx.violation(f, rp)
            if i != m:
                ctx.disagree("client life-cycle trace (real helper process)", ln, i, m, holds=(not fails))
    finally:
        for k, v in old_env.items():
            if v is None:
                os.environ.pop(k, None)
            else:
                os.environ[k] = v
        shutil.rmtree(work, ignore_errors=True)
        try:
            os.rmdir(os.path.dirname(work))
        except OSError:
            pass


# ----------------------------------------------------------------------
# FirewallClient.__init__: which process becomes "the helper" (scripted candidates, the REAL constructor)

INIT_METHODS = ["nat", "nft", "tproxy", "pf", "ipfw"]
JUNK = [b"We trust you have received the usual lecture\n", b"\n", b"ready nat\n", b" READY nat\n", b"READ\n", b"Password: \n",
        b"\xff\xfe\n", b"STARTED\n"]


def cand_menu(rng):
    """one candidate's behaviour: spawn?, lines on the channel (then end of file), poll() after the first line"""
    m = rng.choice(INIT_METHODS)
    ready = b"READY %s\n" % m.encode()
    k = rng.random()
    if k < 0.18:
        return {"spawn": False, "lines": [], "rv": None}
    if k < 0.36:
        return {"spawn": True, "lines": rng.choice([[], [b"Sorry, try again.\n"], [ready]]), "rv": rng.choice([1, 1, 2, 127, -9])}
    if k < 0.46:
        return {"spawn": True, "lines": rng.choice([[], [b"usage: doas\n"]]), "rv": rng.choice([0, None])}
    if k < 0.56:
        return {"spawn": True, "lines": [rng.choice(JUNK) for _ in range(rng.randint(1, 4))], "rv": rng.choice([None, None, 0])}
    if k < 0.66:
        n = rng.choice([99, 100, 100, 101, 102])             # the reader looks at 101 lines
        return {"spawn": True, "lines": [b"lecture %d\n" % i for i in range(n)] + [ready], "rv": None}
    if k < 0.8:
        return {"spawn": True, "lines": [rng.choice(JUNK) for _ in range(rng.randint(1, 3))] + [ready], "rv": rng.choice([None, None, 0])}
    return {"spawn": True, "lines": [ready], "rv": rng.choice([None, None, None, 0])}


def cand_viable(c):
    """spec side, independent of the model: could be started, no failure status, READY among the first 101 lines"""
    return c["spawn"] and c["rv"] in (None, 0) and any(l[:5] == b"READY" for l in c["lines"][:101])


def init_run(case):
    """the real FirewallClient.__init__ over scripted candidates -> observation dict"""
    import types
    import subprocess
    import sshuttle.client as client
    import sshuttle.helpers as helpers
    import sshuttle.ssyslog as ssyslog
    attempts, ends = [], {}
    SUDO, DOAS = "/opt/verif-c12/bin/sudo", "/opt/verif-c12/bin/doas"

    def kind_of(argv):
        return "sudo" if argv[0] in (SUDO, "sudo") else "doas" if argv[0] in (DOAS, "doas") else "direct"

    class FakeProc:
        pid = 4343
        returncode = None

        def __init__(self, rv):
            self.rv = rv

        def poll(self):
            return self.rv

        def wait(self):
            return self.rv or 0

    def popen(argv, stdout=None, stdin=None, env=None, preexec_fn=None, **kw):
        k = kind_of(argv)
        attempts.append((k, list(argv)))
        c = case["cands"][k]
        if not c["spawn"]:
            raise FileNotFoundError(2, "No such file or directory: %r" % argv[0])
        end = stdout.dup()                         # the candidate's end of the control channel
        if c["lines"]:
            end.sendall(b"".join(c["lines"]))
        if not cand_viable(c):
            end.shutdown(real_socket.SHUT_WR)      # its output ends (it exited or closed stdout)
        ends[k] = end
        return FakeProc(c["rv"])

    class PlatformShim:
        def __getattr__(self, n):
            import platform
            return getattr(platform, n)

        @staticmethod
        def platform():
            return "OpenBSD-7.4-amd64-64bit" if case["openbsd"] else "Linux-6.1.0-x86_64-with-glibc2.36"
    saved = (client.ssubprocess, client.which, client.is_admin_user, client.platform, client.debug1, helpers.verbose,
             ssyslog._p, sys.argv[0])
    obs = {"attempts": attempts}
    try:
        client.ssubprocess = types.SimpleNamespace(Popen=popen, PIPE=subprocess.PIPE)
        client.which = lambda name: {"sudo": SUDO if case["sudo_found"] else None, "doas": DOAS if case["doas_found"] else None}.get(name)
        client.is_admin_user = lambda: case["admin"]
        client.platform = PlatformShim()
        client.debug1 = lambda m: None
        helpers.verbose = case["verbose"]
        ssyslog._p = object() if case["syslog"] else None
        sys.argv[0] = case["argv0"]
        fw = None
        try:
            fw = client.FirewallClient(case["method"], case["sudo_pythonpath"])
            obs["outcome"] = "CHOSEN"
            obs["chosen"] = kind_of(fw.argv)
            obs["method"] = fw.method.name
        except BaseException as e:                  # noqa: B902 — the class is the observation
            obs["outcome"] = "Exit(%s)" % canon_exc(e)
    finally:
        (client.ssubprocess, client.which, client.is_admin_user, client.platform, client.debug1, helpers.verbose,
         ssyslog._p, sys.argv[0]) = saved
    # which candidates still have an open control channel on the client's side?
    open_ends = []
    for k, end in ends.items():
        end.setblocking(False)
        try:
            while True:
                d = end.recv(4096)
                if not d:
                    break
        except BlockingIOError:
            open_ends.append(k)
        except OSError:
            pass
    obs["open_channels"] = sorted(open_ends)
    if fw is not None:
        try:
            fw.pfile.close()
        except Exception:      # noqa: BLE001
            pass
    for end in ends.values():
        end.close()
    return obs


def init_expected_argv(case, kind):
    import sshuttle.client as client
    base = ([sys.executable, case["argv0"]] if case["argv0"].endswith(".py") else [case["argv0"]]) + ["-v"] * case["verbose"] + \
        ["--method", case["method"], "--firewall"] + (["--syslog"] if case["syslog"] else [])
    if kind == "direct":
        return base
    pp = ["/usr/bin/env", "PYTHONPATH=%s" % os.path.dirname(os.path.dirname(client.__file__))] if case["sudo_pythonpath"] else []
    if kind == "sudo":
        return ["/opt/verif-c12/bin/sudo" if case["sudo_found"] else "sudo", "-p", "[local sudo] Password: "] + pp + base
    return ["/opt/verif-c12/bin/doas" if case["doas_found"] else "doas"] + pp + base


def init_dimension(ctx):
    rng = ctx.rng
    cases = []
    for i in range(500 if ctx.quick() else 12000):
        case = {"admin": rng.random() < 0.2, "doas_found": rng.random() < 0.5, "sudo_found": rng.random() < 0.7,
                "openbsd": rng.random() < 0.2, "sudo_pythonpath": rng.random() < 0.7, "verbose": rng.choice([0, 0, 1, 2, 3]),
                "syslog": rng.random() < 0.2, "argv0": rng.choice(["/usr/local/bin/sshuttle", "./run.py", "sshuttle"]),
                "method": rng.choice(INIT_METHODS + ["auto"]),
                "cands": {"sudo": cand_menu(rng), "doas": cand_menu(rng), "direct": cand_menu(rng)}}
        if i % 7 == 0:
            for k in case["cands"]:                 # nobody answers
                while cand_viable(case["cands"][k]):
                    case["cands"][k] = cand_menu(rng)
        cases.append(case)
    b = lambda x: "1" if x else "0"      # noqa: E731

    def cand_tok(c):
        return "%s:%s:%s" % (b(c["spawn"]), "-" if c["rv"] is None else c["rv"], ",".join(hx(l) for l in c["lines"]) or "_")
    # the model is asked twice: for the order (a function of the environment) and, with the candidates in that order, for the choice
    orders = ctx.run_driver(["INIT %s %s %s %s -" % (b(c["admin"]), b(c["doas_found"]), b(c["sudo_found"]), b(c["openbsd"])) for c in cases])
    lines = []
    for c, o in zip(cases, orders):
        order = o.split(" ")[1].split(",")
        c["order"] = order
        lines.append("INIT %s %s %s %s %s" % (b(c["admin"]), b(c["doas_found"]), b(c["sudo_found"]), b(c["openbsd"]),
                                            ";".join(cand_tok(c["cands"][k]) for k in order)))
    model = ctx.run_driver(lines)
    for c, ln, m in zip(cases, lines, model):
        obs = init_run(c)
        order = c["order"]
        tried = [k for k, _ in obs["attempts"]]
        mf = m.split(" ")
        if mf[2] == "CHOSEN":
            k = int(mf[3])
            want = {"tried": order[:k + 1], "outcome": "CHOSEN", "chosen": order[k], "method": bytes.fromhex(mf[4]).decode()}
        else:
            want = {"tried": order, "outcome": "Exit(Fatal.NoHelper)", "chosen": None, "method": None}
        have = {"tried": tried, "outcome": obs["outcome"], "chosen": obs.get("chosen"), "method": obs.get("method")}
        desc = {"admin": c["admin"], "doas_found": c["doas_found"], "sudo_found": c["sudo_found"], "openbsd": c["openbsd"],
                "cands": dict((k, {"spawn": v["spawn"], "rv": v["rv"], "lines": [l.decode("latin-1") for l in v["lines"][:3]] +
                                   (["... %d lines" % len(v["lines"])] if len(v["lines"]) > 3 else [])}) for k, v in c["cands"].items())}
        ctx.case(("init", ln, c["method"], c["verbose"], c["syslog"], c["argv0"], c["sudo_pythonpath"]), nontrivial=True,
                 sample={"kind": "helper candidates", "case": desc, "tried": tried, "outcome": obs["outcome"], "chosen": obs.get("chosen")}
                 if len(ctx.samples) < 2 else None)
        ctx.count("init_" + ("chosen_" + obs["chosen"] if obs.get("chosen") else obs["outcome"].replace("(", "_").replace(")", "")))
        ctx.count("init_order_" + "_".join(order))
        rp = {"kind": "init", "init_case": dict(c, cands=dict((k, dict(v, lines=[l.hex() for l in v["lines"]])) for k, v in c["cands"].items())),
              "observed": have, "open_channels": obs["open_channels"]}
        fails = []
        if obs.get("chosen") is not None and not cand_viable(c["cands"][obs["chosen"]]):
            fails.append("the client goes on with a helper process that could not be verified (never announced READY, or had already failed)")
        if obs["outcome"] != "CHOSEN" and not obs["outcome"].startswith("Exit(Fatal.") and not any(cand_viable(v) for v in c["cands"].values()):
            fails.append("no helper candidate answered, but start-up did not stop with a fatal message")
        leftover = [k for k in obs["open_channels"] if k != obs.get("chosen")]
        if leftover:
            fails.append("the control channel to an abandoned helper candidate was left open")
        for f in fails:
            ctx.violation(f, rp)
        if have != want:
            ctx.disagree("FirewallClient.__init__ (helper candidates)", ln, have, want, holds=(not fails))
        for k, argv in obs["attempts"]:
            if argv != init_expected_argv(c, k):
                ctx.disagree("helper command line (%s)" % k, desc, argv, init_expected_argv(c, k), holds=(not fails))
                break


# ----------------------------------------------------------------------
# the tunnel ends while the client's loop runs: REAL ssnet.runonce under the REAL client._main loop
#
# The scripted runonce above answers "what does the loop do when poll() reports a status at iteration i"
# (Props/C12.v c12_dead_ssh_loop / c12_dead_ssh: a non-None poll at any iteration => Fatal => FwClose).  Those
# theorems PRESUPPOSE that the loop reaches its next look at ssh.  Whether it does is decided by ssnet.runonce's
# select(), which has no timeout: the only thing that wakes the client when ssh dies is the end of the ssh channel,
# and the exit status may become visible only a moment AFTER that end was read (a process closes its descriptors
# before waitpid can report it; --ssh-cmd wrappers / sshpass exit after their child).  This part therefore runs the
# real runonce, Mux.handle/fill/flush/callback and the real `while 1` loop on a scripted ssh channel with the
# kernel's select semantics, listeners idle.  The oracle is implementation-side (the Coq model has no select).

def _frame(cmd, data=b"", channel=0):
    import struct
    return struct.pack("!ccHHH", b"S", b"S", channel, cmd, len(data)) + data


TUN_HOWS = ["eof", "eof_with_last_data", "exit+eof", "exit_then_eof", "eof_mid_frame", "read_error"]
# the tunnel still OPEN while the ssh process is gone: an orphaned descendant of ssh (ProxyCommand, sshpass, a
# ControlPersist master) holds the other end of the channel and keep-alive traffic still arrives, so the loop keeps
# turning; only the look at the process itself can tell
TUN_OPEN = "ssh_gone_channel_open"
TUN_HOW_TEXT = {
    TUN_OPEN: "ssh process gone, its channel still held open by an orphan that keeps sending PINGs (no EOF)",
    "eof": "EOF on the ssh channel",
    "eof_with_last_data": "EOF on the ssh channel, arriving together with the last message",
    "exit+eof": "EXIT message and EOF on the ssh channel together",
    "exit_then_eof": "EXIT message, EOF on the ssh channel a moment later",
    "eof_mid_frame": "EOF on the ssh channel in the middle of a message",
    "read_error": "ECONNRESET reading the ssh channel",
}


def tunnel_spec(how, k, rv, pre=("routes",), wfull=False, cuts=(), probe_errno=None):
    """environment script of one tunnel life: messages `pre`, then the end `how`; ssh's exit status visible after k
    further looks (None: not within the run).  cuts = byte positions at which the pre-end bytes are split into
    separate deliveries."""
    CMD_EXIT, CMD_PING, CMD_PONG, CMD_TCP_DATA = 0x4200, 0x4201, 0x4202, 0x4206
    msgs = {"routes": _frame(CMD_ROUTES, b"2,10.9.0.0,16\n"), "hosts": _frame(CMD_HOST_LIST, b"host1.example,10.9.0.2\n"),
            "ping": _frame(CMD_PING, b"rttest"), "pong": _frame(CMD_PONG, b"rttest"),
            "stray": _frame(CMD_TCP_DATA, b"late bytes", channel=9)}
    body = b"".join(msgs[m] for m in pre)
    exit_at = None
    if how in ("exit+eof", "exit_then_eof"):
        body += _frame(CMD_EXIT)
        exit_at = len(body)
    if how == "eof_mid_frame":
        body += _frame(CMD_HOST_LIST, b"host2.example,10.9.0.3\n")[:11]
    pos = [0] + sorted(c for c in set(cuts) if 0 < c < len(body)) + [len(body)]
    batches = [[body[a:b].hex()] for a, b in zip(pos, pos[1:]) if b > a]
    end = "ERR" if how == "read_error" else "EOF"
    if how == TUN_OPEN:
        # ssh dies; every later delivery is one more PING from the orphan (enough of them for every look the script
        # lets answer "alive" and for the iterations after which a loop that is still turning is reported)
        k = 4 if k is None else k
        batches.append(["DIE", msgs["ping"].hex()])
        batches += [[msgs["ping"].hex()] for _ in range(k + 6)]
    elif how in ("eof_with_last_data", "exit+eof", "eof_mid_frame") and batches:
        batches[-1].append(end)
    else:
        batches.append([end])
    tun = {"how": how, "k": k, "rv": rv, "pre": list(pre), "wfull": bool(wfull), "batches": batches, "exit_at": exit_at}
    if probe_errno is not None:
        tun["probe_errno"] = probe_errno           # daemon mode: errno of os.kill(pid, 0) once ssh is reported gone
    return tun


def tunnel_run(tun, daemon=False, auto_nets=False):
    s = base_script(daemon=daemon, auto_nets=auto_nets, iters=[], tunnel=tun)
    tr = impl_run(s)
    return tr, impl_run.tun


def tunnel_oracle(tr, obs, tun):
    """C12: `the death of the ssh process ... always results in the control channel to the helper being closed`,
    and the title: interception exists only alongside a live tunnel.  Evaluated on what the client did after the
    tunnel had ended: it must close the control channel within a bounded number of loop iterations; it must never
    sleep for ever in a select() that nothing can wake; it must not run the loop again once a look at ssh has
    reported it dead.  HOW the client leaves (Fatal from the ssh check, Fatal for the unused descriptor, EPIPE)
    is not prescribed."""
    bad = []
    how = TUN_HOW_TEXT[tun["how"]]
    opened = tun["how"] == TUN_OPEN
    ended = "tunnel still open " if opened else "tunnel ended "
    kk = ("never visible" if tun["k"] is None else "visible at the client's next look (k=0)" if tun["k"] == 0 else
          "not yet visible for k=%d polls" % tun["k"])
    failed_looks = [l for l in obs.get("looks", []) if l.startswith("kill(") and not l.endswith("=success")]
    if obs.get("daemon") and failed_looks:
        # daemon mode: what the liveness probe answered is part of the input
        kk = "daemon mode, %s at look %d after the death" % (probe_text(tun.get("probe_errno") or 3), (tun["k"] or 0) + 1)
    else:
        kk = "ssh exit status " + kk
    installed = "FwStart" in tr
    tail = " — control channel never closed" + (", interception stays installed" if installed else "")
    last = tr[-1] if tr else ""
    if last.startswith("Sleeps("):
        asked = last[len("Sleeps("):-1].replace(";", " ")
        only = "on the listeners only" if "ssh-" not in asked else "on %s" % asked
        bad.append(ended + "(%s), %s: client sleeps in select() %s%s" % (how, kk, only, tail))
    elif last.startswith("StillLooping("):
        bad.append(ended + "(%s), %s: client loop still turning %s iterations later%s"
                   % (how, kk, last[len("StillLooping("):-1], tail))
    elif "FwClose" not in tr:
        bad.append(ended + "(%s): the client left without closing the control channel" % how)
    if obs["ran_after_dead"]:
        if obs.get("daemon") and failed_looks:
            # (how the tunnel ended is in the stored input's history; one kind of failure, not one per way of ending)
            bad.append(ended.strip() + ": ssh is gone and %s, yet the client went on with the next loop iteration%s"
                       % (probe_text(tun.get("probe_errno") or 3),
                          " — control channel still open, interception stays installed" if installed and "FwClose" not in tr else ""))
        else:
            bad.append(ended + "(%s): the main loop kept running after ssh was found dead" % how)
    # everything the general trace oracle says (order of install / confirm / ready, hang, run ended), minus its
    # generic wording for what is reported above in this part's own words
    for f in oracle(tr):
        if f.startswith("try block entered but the helper channel was never closed") or f == "run did not end":
            if bad:
                continue
        bad.append(f)
    return bad


def tunnel_cases(ctx):
    rng = ctx.rng
    cases = []
    pres = [("routes",), (), ("routes", "hosts"), ("routes", "ping"), ("routes", "stray", "pong")]
    for how in TUN_HOWS:
        for k in (0, 1, 2, None):
            for pre in pres:
                for daemon in (False, True):
                    for wfull in ((False, True) if "ping" in pre else (False,)):
                        cases.append((tunnel_spec(how, k, rng.choice([255, 0, 1, -15]), pre, wfull), daemon, rng.random() < 0.3))
    # the errno of the daemon-mode liveness probe x tunnel ended / still open x success-then-failure at the k-th look
    for how in TUN_HOWS + [TUN_OPEN]:
        for k in (0, 1, 2, 3):
            for en in PROBE_ERRNOS:
                for pre in (("routes",), ()) if how == TUN_OPEN else (("routes",),):
                    cases.append((tunnel_spec(how, k, rng.choice([255, 0, 1, -15]), pre, False, (), en), True, False))
            if how == TUN_OPEN:
                cases.append((tunnel_spec(how, k, rng.choice([255, 0, 1, -15]), ("routes",)), False, False))   # foreground: poll()
    for _ in range(150 if ctx.quick() else 5000):
        pre = tuple(rng.choice(["routes", "hosts", "ping", "pong", "stray"]) for _ in range(rng.randint(0, 4)))
        if rng.random() < 0.8:
            pre = ("routes",) + pre
        cuts = [rng.randint(1, 80) for _ in range(rng.choice([0, 0, 1, 2, 4]))]
        daemon = rng.random() < 0.5
        cases.append((tunnel_spec(rng.choice(TUN_HOWS + [TUN_OPEN]), rng.choice([0, 1, 1, 2, 3, 5, None]), rng.choice([255, 0, 1, 99, -9, -15]),
                                  pre, rng.random() < 0.3, cuts, rng.choice(PROBE_ERRNOS) if daemon else None),
                      daemon, rng.random() < 0.3))
    return cases


def tunnel_end_check(ctx):
    seen = set()
    for tun, daemon, auto_nets in tunnel_cases(ctx):
        key = ("tunnel_end", repr(sorted(tun.items(), key=lambda kv: kv[0])), daemon, auto_nets)
        if key in seen:
            continue
        seen.add(key)
        tr, obs = tunnel_run(tun, daemon, auto_nets)
        ctx.count("tunnel_end_" + tun["how"])
        ctx.count("tunnel_end_k_%s" % ("never" if tun["k"] is None else min(tun["k"], 3)))
        ctx.count("tunnel_end_left_by_" + next((e[8:-1] for e in tr if e.startswith("MainEnd(")), "none"))
        if daemon:
            ctx.count("tunnel_end_probe_%s" % errno.errorcode.get(tun.get("probe_errno") or 3))
        ctx.case(key, nontrivial="MainEnter" in tr,
                 sample={"kind": "tunnel end under the real runonce", "tunnel": tun, "daemon": daemon, "trace": " ".join(tr),
                         "selects": obs["selects"][-3:]} if ctx.rng.random() < 0.01 else None)
        for f in sorted(set(tunnel_oracle(tr, obs, tun))):
            ctx.violation(f, {"kind": "tunnel_end", "tunnel": tun, "daemon": daemon, "auto_nets": auto_nets, "trace": tr,
                              "history": {"how_the_tunnel_ended": TUN_HOW_TEXT[tun["how"]],
                                          "looks_at_ssh_answering_alive_after_the_end": tun["k"],
                                          "looks_at_ssh": obs.get("looks"),
                                          "what_select_was_asked_and_answered": obs["selects"],
                                          "loop_iterations_after_the_end": obs["iterations_after_end"]}})
    ctx.extra["tunnel_end_cases"] = len(seen)


def correspondence(ctx):
    tunnel_end_check(ctx)
    real_channel_check(ctx)
    init_dimension(ctx)
    cases = gen_cases(ctx)
    lines = [script_line(s) for _, s in cases]
    model = ctx.run_driver(lines)
    verdict = ctx.run_driver([script_line(s, "SYNC") for _, s in cases])
    seen = set()
    for (kind, s), ln, m, v in zip(cases, lines, model, verdict):
        # the model's script line carries "helper answered STARTED yes/no"; the exact bytes of another answer are
        # an input of the real code only (the model treats every other answer like no answer, as the code does)
        # likewise the errno of the failing daemon-mode probe: the model's it_dead = Some _ stands for "os.kill raised
        # OSError", whatever the errno (ClientLife.v:99-100), so every errno is compared with the same model line
        key = (ln, s.get("reply"), s.get("python"), s.get("notify_at"), any(a[0] == "S" for it in s["iters"] for a in it["acts"]),
               s.get("probe_errno"))
        if key in seen:
            continue
        seen.add(key)
        ctx.count(kind)
        ctx.count("daemon" if s["daemon"] else "foreground")
        tr = impl_run(s)
        i = " ".join(model_view(tr))
        if s.get("probe_errno"):
            ctx.count("probe_errno_%s" % errno.errorcode.get(s["probe_errno"], s["probe_errno"]))
        ctx.case(key if key[1:] != (None, None, None, False, None) else ln, nontrivial=("SyncOk" in tr or len(tr) > 5),
                 sample={"kind": kind, "script": ln, "trace": i} if kind in ("valid", "inj_loop", "ssh_dead", "random") and
                 ctx.rng.random() < 0.02 else None)
        for e in tr + impl_run.extra:
            ctx.count("ev_" + e.split("(")[0])
        fails = oracle(tr, s, v.split(" ")[0] == "1", impl_run.iters_run, impl_run.ran_after_probe_failed)
        for f in sorted(set(fails)):
            rp = {"script": ln, "trace": tr, "handshake_phase_ok": v.split(" ")[0]}
            if s["daemon"] and impl_run.looks:
                rp["looks_at_ssh"] = impl_run.looks
            if s.get("probe_errno") is not None:
                rp["probe_errno"] = s["probe_errno"]
            if s.get("reply") is not None:
                rp["helper_reply_hex"] = hx(s["reply"])
            for k2 in ("python", "notify_at"):
                if s.get(k2) is not None:
                    rp[k2] = s[k2]
            ctx.violation(f, rp)
        if i != m:
            ctx.disagree("client life-cycle trace", ln if key[1:] == (None, None, None, False, None) else
                         {"script": ln, "python": s.get("python"), "notify_at": s.get("notify_at"), "sigterm": key[4],
                          "probe_errno": s.get("probe_errno")}, i, m, holds=(not fails))
    ctx.programs = len(seen)
    ctx.extra["exception_classes"] = EXN_ALL


# ----------------------------------------------------------------------
def parse_line(ln):
    """inverse of script_line (for replays)"""
    f = ln.split(" ")
    assert f[0] in ("RUN", "SYNC") and len(f) == 15

    def o(x, conv=str):
        return None if x == "-" else conv(x)

    def act(a):
        if a in ("R0", "R1"):
            return ("R", a == "R1")
        if a.startswith("X:"):
            return ("X", a[2:])
        h, b = a.split(":")
        return ("H", int(h[1:]), b)
    st = f[8].split(":")
    start = (st[0], st[1]) if st[0] in "WR" else ("P", st[1] == "1", o(st[2], int))
    w = f[11].split(":")
    iters = []
    if f[14] != "-":
        for it in f[14].split(";"):
            d, acts = it.split("/")
            iters.append({"dead": o(d, int), "acts": [act(a) for a in acts.split(",") if a]})
    return {"daemon": f[1] == "1", "auto_nets": f[2] == "1", "connect": o(f[3]),
            "chunks": [] if f[4] == "-" else [bytes.fromhex(c) for c in f[4].split(",")],
            "hs_end": o(f[5]), "poll0": o(f[6], int), "daemonize": o(f[7]), "start": start, "ready": o(f[9]),
            "close": o(f[10]), "wait": ("V", int(w[1])) if w[0] == "V" else ("X", w[1]), "stop": o(f[12]),
            "cleanup": o(f[13]), "iters": iters}


def replay(ctx, rp):
    """re-run a stored failing input against the real code; returns True if it still fails"""
    r = rp.get("replay", {})
    if r.get("kind") == "tunnel_end":
        tun = r["tunnel"]
        tr, obs = tunnel_run(tun, r.get("daemon", False), r.get("auto_nets", False))
        fails = tunnel_oracle(tr, obs, tun)
        print("tunnel: messages %r, then %s; ssh exit status %s; ssh's stdin %s" % (
            tun["pre"], TUN_HOW_TEXT[tun["how"]], "never visible" if tun["k"] is None else
            "visible after %d more look(s): %d" % (tun["k"], tun["rv"]), "full" if tun["wfull"] else "writable"))
        print("trace:", " ".join(tr))
        for ln in obs["selects"]:
            print("  select", ln)
        print("looks at ssh:", obs.get("looks"))
        print("property failures:", fails)
        return bool(fails)
    if r.get("kind") == "init":
        c = r["init_case"]
        c["cands"] = dict((k, dict(v, lines=[bytes.fromhex(l) for l in v["lines"]])) for k, v in c["cands"].items())
        obs = init_run(c)
        bad = []
        if obs.get("chosen") is not None and not cand_viable(c["cands"][obs["chosen"]]):
            bad.append("unverified helper chosen")
        if obs["outcome"] != "CHOSEN" and not obs["outcome"].startswith("Exit(Fatal.") and not any(cand_viable(v) for v in c["cands"].values()):
            bad.append("no fatal stop")
        if [k for k in obs["open_channels"] if k != obs.get("chosen")]:
            bad.append("abandoned candidate's channel left open")
        print("tried:", [k for k, _ in obs["attempts"]], "outcome:", obs["outcome"], obs.get("chosen"), "open channels:", obs["open_channels"])
        print("property failures:", bad)
        return bool(bad)
    if "script" not in r:
        print("nothing replayable in", rp.get("kind"))
        return False
    s = parse_line(r["script"])
    if r.get("helper_reply_hex") is not None:
        s["reply"] = b"" if r["helper_reply_hex"] == "-" else bytes.fromhex(r["helper_reply_hex"])
        print("helper's answer to GO: %r, helper poll() at that moment: %r" % (s["reply"], s["start"][2] if s["start"][0] == "P" else None))
    for k2 in ("python", "notify_at", "probe_errno"):
        if r.get(k2) is not None:
            s[k2] = r[k2]
    if r.get("real_helper"):
        print("(stored from the real-helper-process run; replayed with the scripted helper)")
    tr = impl_run(s)
    hp = r.get("handshake_phase_ok")
    fails = oracle(tr, s, None if hp is None else hp == "1", impl_run.iters_run, impl_run.ran_after_probe_failed)
    if s["daemon"] and impl_run.looks:
        print("looks at ssh (daemon mode):", impl_run.looks)
    print("trace:", " ".join(tr))
    print("property failures:", fails)
    return bool(fails)


if __name__ == "__main__":
    sys.path.insert(0, os.path.join(os.path.dirname(os.path.abspath(__file__)), ".."))
    import framework
    sys.exit(framework.main(sys.modules[__name__]))
