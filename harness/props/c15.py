"""C15 — every valid option combination yields a consistent interception plan.

Correspondence: the REAL sshuttle.client.main (and, for the option layer, the real
sshuttle.options.parser and sshuttle.cmdline.main) is run up to the hand-over
(fw.setup + the call of _main) inside a simulated boundary:
  client.FirewallClient  -> for the shipped methods and `auto`: the REAL constructor; its Popen is an in-process helper whose
                            command line runs through the REAL cmdline.main up to firewall.main (recorded) and which then
                            announces READY <method> (auto: the method the case says the helper picks) on the real socketpair;
                            synthetic feature sets: a stub holding a synthetic method object
  client._main           -> recording stub returning 0
  client.socket          -> a copy of the socket module whose socket() makes fake sockets; bind()
                            fails with EADDRINUSE exactly on the (protocol, family, port) triples of `env`
  client.getpwnam/getgrnam -> table stubs
  helpers.open           -> the case's /etc/resolv.conf and /run/systemd/resolve/resolv.conf texts: the REAL
                            helpers.resolvconf_nameservers / family_ip_tuple read them; --ns-hosts texts are tagged by the real
                            family_ip_tuple (as cmdline.main does; the whole command line is also run).  The family the model and
                            the oracle use for a name server is decided on the spec side from the address text (text_family)
and the extracted Coq model (coq/Model/Startup.v, startup_gen) on the same case; the simulated kernel answers bind()
with success, EADDRINUSE or a refusal with another errno (address not local, invalid, port not permitted, IPv6 switched
off), and the same environment is handed to the model.  Implementation-only environment dimensions (expected outcome
derived from the model's by expected_outcome): no pwd/grp module, a dual-stack kernel (the IPv4 TCP socket cannot
listen beside the IPv6 one).
Command lines are also run with the real client.main behind the real cmdline.main: exit status and logged fatal message.
An oracle that looks only at the implementation's outcome decides the property."""
import errno
import io
import os
import re
import sys

PROP = "C15"
RULE = ("configurations x environments: the cross product of method (nat,nft,tproxy,pf,ipfw + synthetic feature sets) x "
        "listen form per family (none/auto/address/address:port; --disable-ipv6 = v6 none) x --dns x resolv.conf families x "
        "--ns-hosts family x name-server spelling (IPv4 dotted quad; IPv6 compressed / full / embedded IPv4 tail 64:ff9b::a.b.c.d, "
        "::ffff:a.b.c.d, ::a.b.c.d / zone id / upper case) x resolv.conf layout (one file, systemd-resolved's second file, no file, "
        "comments and other keywords) x --to-ns x include families (none = --auto-nets) x excludes x user/group (absent/existing/unknown), "
        "each with a busy-port environment (free, 12300 busy, 12300..12290 busy, the explicit port busy, everything busy, all but "
        "9001 busy, random ranges per protocol/family), explicit ports inside and outside 9001..12300 and below 1024; listen addresses and ports the "
        "kernel refuses (not local, invalid, no privilege, IPv6 off; both families, TCP/UDP/DNS listeners, combined with busy ports); --method auto x the method the helper "
        "announces; platforms without pwd/grp, kernels without IPv6, dual-stack kernels; the command line of every case also through the real "
        "cmdline.main (exit status, fatal message, no subnets and no -N); a case is non-trivial when "
        "start-up got past the feature negotiation (plan, port-search failure or internal error); distinct by content hash")
TRUSTED_BASE = [
    "modelled, not verified: the kernel's bind(): outcome is a static function of (protocol, family, address, port): success, EADDRINUSE (a busy set over "
    "protocol/family/port) or a refusal with another errno (EADDRNOTAVAIL / EINVAL per address, EACCES for ports below 1024 on an unprivileged kernel, "
    "EADDRNOTAVAIL for every IPv6 address when IPv6 is switched off), the refusal taking precedence; sockets of abandoned listeners count as closed; "
    "setsockopt() never fails, listen() only in the dual-stack dimension",
    "stubs of harness/props/c15.py standing for the helper process (in-process: real cmdline.main dispatch, firewall.main recorded, READY line on the real socketpair), "
    "_main, getpwnam/getgrnam (or their absence), the two resolv.conf files (helpers.open; the real resolvconf_nameservers reads them); FirewallClient itself is real except for synthetic feature sets",
    "modelled, not verified (implementation-only dimensions): bind() of any IPv6 address failing with EADDRNOTAVAIL when IPv6 is switched off; on a dual-stack kernel "
    "listen() of the IPv4 TCP socket failing with EADDRINUSE when an IPv6 TCP socket listens on the same port, that socket then receiving the IPv4 connections",
    "outside the Coq model (implementation-side oracle only): the address family of a name-server text.  Model/Startup.v takes (family, text) "
    "pairs as given (helpers.family_ip_tuple is not modelled); the harness hands the model the spec-side family (socket.inet_pton of the "
    "text without zone id, else `has a colon`) and the lower-cased resolv.conf text, runs the real family_ip_tuple / resolvconf_nameservers "
    "on the text, and the oracle requires: every NSLIST entry carries the family of its text, IPv6 name servers are in the plan exactly when "
    "IPv6 is active, the plan's name servers are the captured ones, `all DNS servers are IPv6` is only said when true",
    "docs/manpage.rst `--method <...>` line is read by the harness and compared with Model/Startup.v documented_methods on every run",
]
ASSUMPTIONS = [
    "explicit listen ports are <= 65535 (options.parse_ipport goes through getaddrinfo, which rejects larger ones)",
    "the method offers IPv4 (client.main asserts avail.ipv4; true of every shipped method)",
    "not daemonised (check_daemon/pidfile not modelled)",
    "name servers are address literals (a host name in --ns-hosts or resolv.conf is outside the property); --to-ns spellings are those "
    "getaddrinfo returns unchanged",
]

FEATKEYS = ["loopback_proxy_port", "ipv4", "ipv6", "udp", "dns", "user", "group"]
METHODS = ["nat", "nft", "tproxy", "pf", "ipfw"]
AF = {4: 2, 6: 10}


def hx(s):
    return s.encode().hex() if s else "-"


def text_family(text):
    """SPEC side (no sshuttle code): the address family (4 / 6) of an address text: socket.inet_pton decides (an IPv6
    zone id `%zone` is not part of the address); a text neither accepts is IPv6 exactly when it has a colon.  So
    64:ff9b::10.0.0.53, ::ffff:192.168.1.1, ::10.9.9.9, fe80::1%eth0, 2001:DB8::AB are IPv6, 10.0.0.53 is IPv4"""
    import socket as real
    t = text.split("%", 1)[0]
    for fam, af in ((4, real.AF_INET), (6, real.AF_INET6)):
        try:
            real.inet_pton(af, t)
            return fam
        except (OSError, ValueError):
            pass
    return 6 if ":" in text else 4


def resolv_files(case):
    """the texts of /etc/resolv.conf and /run/systemd/resolve/resolv.conf of the case (None = no such file):
    case["resolv"] in order; resolv_split = k: the first k servers are in /etc/resolv.conf, the others in
    systemd-resolved's file (absent: no systemd-resolved); resolv_style 1: comments, search/options lines, tabs, leading and
    trailing blanks, a `nameserver` line without an address, commented-out servers; no server at all: no /etc/resolv.conf"""
    ns = [n[1] for n in case["resolv"]]
    k = case.get("resolv_split")
    style = case.get("resolv_style", 0)

    def render(items):
        if style == 0:
            return "".join("nameserver %s\n" % t for t in items)
        out = "# Generated by NetworkManager\nsearch example.org corp.example\n"
        for i, t in enumerate(items):
            out += ("nameserver\t%s\n", "  nameserver %s  \n", "nameserver %s\n")[i % 3] % t
        return out + "options ndots:1 edns0\nnameserver\n; nameserver 10.66.66.66\n#nameserver 10.77.77.77\n"
    if k is None:
        return {"/etc/resolv.conf": None if (style == 1 and not ns) else render(ns), "/run/systemd/resolve/resolv.conf": None}
    return {"/etc/resolv.conf": render(ns[:k]), "/run/systemd/resolve/resolv.conf": render(ns[k:])}


# --------------------------------------------------------------------------- model side
def l_tok(l):
    if l is None:
        return "N"
    if l == "auto":
        return "A"
    return "X:%s:%d" % (hx(l[0]), l[1])


def id_tok(i):
    if i is None:
        return "-"
    if i == "M":
        return "M"
    return "E%d" % i[1]


def case_line(case, feats, mask):
    def lst(items, f):
        return ";".join(f(i) for i in items) if items else "-"
    return " ".join([
        "RUN", mask, "".join("1" if feats[k] else "0" for k in FEATKEYS),
        "1" if case["remote"] else "0", l_tok(case["l6"]), l_tok(case["l4"]),
        "1" if case["dns"] else "0",
        # resolv.conf is read case-insensitively (helpers.resolvconf_nameservers lower-cases each line): the model gets the
        # lower-case text; the family of every name server is the SPEC-side family of its text (text_family)
        lst(case["resolv"], lambda n: "%d,%s" % (n[0], hx(n[1].lower()))),
        lst(case["ns_hosts"], lambda n: "%d,%s" % (n[0], hx(n[1]))),
        "-" if case["to_ns"] is None else "%s,%d" % (hx(case["to_ns"][1]), case["to_ns"][2]),
        lst(case["includes"], lambda s: "%d,%s,%d,%d,%d" % (s[0], hx(s[1]), s[2], s[3], s[4])),
        lst(case["excludes"], lambda s: "%d,%s,%d,%d,%d" % (s[0], hx(s[1]), s[2], s[3], s[4])),
        "1" if case["auto_nets"] else "0", id_tok(case["user"]), id_tok(case["group"]),
        lst([("b", r) for r in case["env"]] + [("r", r) for r in refusals_of(case)],
            lambda x: "%s%d:%d:%d" % (x[1][0], x[1][1], x[1][2], x[1][3]) if x[0] == "b" else
            "r%s%d:%d:%s:%d:%d" % (x[1][0], x[1][1], x[1][2], "*" if x[1][3] is None else hx(x[1][3]), x[1][4], x[1][5])),
    ])


EADDRNOTAVAIL, EACCES, EINVAL = errno.EADDRNOTAVAIL, errno.EACCES, errno.EINVAL


def refusals_of(case):
    """bind() refusals of the case's kernel, first match decides: [proto 't'/'u', family 4/6, errno, address or None = every
    address, lo, hi].  `refuse` entries are explicit; the kernel flag no_v6 (IPv6 switched off: no IPv6 address can be
    bound) and unpriv (no privilege to bind ports below 1024) expand to entries"""
    out = [list(r) for r in case.get("refuse", [])]
    k = case.get("kernel") or {}
    if k.get("unpriv"):
        out += [[p, f, EACCES, None, 1, 1023] for p in "tu" for f in (4, 6)]
    if k.get("no_v6"):
        out += [[p, 6, EADDRNOTAVAIL, None, 0, 65535] for p in "tu"]
    return out


# --------------------------------------------------------------------------- implementation side
class World:
    def __init__(self, env, kernel=None, refuse=None):
        self.env = env
        self.binds = []
        k = kernel or {}
        self.refuse = refuse or []                   # bind() answered with an errno other than EADDRINUSE
        self.dualstack = bool(k.get("dualstack"))    # an IPv6 TCP listener also owns the IPv4 side of its port
        self.listening6 = set()

    def refused(self, proto, fam, ip, port):
        for (p, f, en, rip, lo, hi) in self.refuse:
            if p == proto and f == fam and lo <= port <= hi and (rip is None or rip == ip):
                return en
        return None

    def busy(self, proto, fam, port):
        for (p, f, lo, hi) in self.env:
            if p == proto and f == fam and lo <= port <= hi:
                return True
        return False


_SOCK_ATTRS = None


def make_socket_module(world):
    import socket as real
    global _SOCK_ATTRS
    if _SOCK_ATTRS is None:
        _SOCK_ATTRS = [(k, getattr(real, k)) for k in dir(real) if not k.startswith("__")]

    class FakeSocket:
        def __init__(self, family=real.AF_INET, type=real.SOCK_STREAM, proto=0):
            self.family, self.type, self.proto = family, type, proto
            self.addr = None

        def bind(self, address):
            ip, port = address[0], address[1]
            if not 0 <= port <= 65535:
                raise OverflowError("bind(): port must be 0-65535.")
            pr = "t" if self.type == real.SOCK_STREAM else "u"
            fam = 6 if self.family == real.AF_INET6 else 4
            world.binds.append((pr, fam, ip, port))
            en = world.refused(pr, fam, ip, port)
            if en is not None:
                raise OSError(en, os.strerror(en))
            if world.busy(pr, fam, port):
                raise OSError(errno.EADDRINUSE, "Address already in use")
            self.addr = (ip, port)

        def listen(self, n):
            if self.type != real.SOCK_STREAM or self.addr is None:
                return
            if self.family == real.AF_INET6:
                world.listening6.add(self.addr[1])
            elif world.dualstack and self.addr[1] in world.listening6:
                raise OSError(errno.EADDRINUSE, "Address already in use")

        def setsockopt(self, *a):
            pass

        def getsockname(self):
            return self.addr or ("::" if self.family == real.AF_INET6 else "0.0.0.0", 0)

        def fileno(self):
            return -1

        def close(self):
            pass

    class Mod:
        pass
    m = Mod()
    m.__dict__.update(_SOCK_ATTRS)
    m.socket = FakeSocket
    return m


def method_features(name):
    """feature dict of a method name ('nat', ... or 'synth:<7 bits>')"""
    if name.startswith("synth:"):
        bits = name.split(":")[1]
        return {k: bits[i] == "1" for i, k in enumerate(FEATKEYS)}
    import sshuttle.methods as methods
    f = methods.get_method(name).get_supported_features()
    return {k: bool(getattr(f, k)) for k in FEATKEYS}


def make_method(name):
    import sshuttle.methods as methods
    if not name.startswith("synth:"):
        return methods.get_method(name)
    feats = method_features(name)

    class Synth(methods.BaseMethod):
        @staticmethod
        def get_supported_features():
            r = methods.Features()
            for k, v in feats.items():
                setattr(r, k, v)
            return r
    return Synth(name)


FATAL_CLASSES = [
    ("You must use -r/--remote", "no_remote"),
    ("An IPv6 listen address was supplied", "ipv6_unsupported"),
    ("User ", "user_missing"),
    ("Group ", "group_missing"),
    ("Can't redirect DNS traffic since IPv6 is not", "dns_all_v6"),
    ("Could not bind the redirector listeners to", "bind_refused"),
    ("Could not bind the DNS listener to", "dns_bind_refused"),
    ("Could not bind the redirector listeners", "ports_busy"),
    ("Could not bind the DNS listener", "dns_ports_busy"),
    ("IPv6 subnets defined but not listening", "v6_subnets_no_listen"),
    ("IPv6 ns servers defined but not listening", "v6_ns_no_listen"),
    ("IPv4 subnets defined but not listening", "v4_subnets_no_listen"),
    ("IPv4 ns servers defined but not listening", "v4_ns_no_listen"),
    ("Could not bind to an IPv6 socket", "v6_unavailable"),
    ("Routing by user not available", "user_unavailable"),
    ("Routing by group not available", "group_unavailable"),
    ("All attempts to run firewall client", "no_helper"),
]


def classify_fatal(msg):
    m = re.match(r"Feature (\w+) not supported with method", msg)
    if m:
        return "feature_" + m.group(1)
    for pre, cls in FATAL_CLASSES:
        if msg.startswith(pre):
            return cls
    return "other:" + msg[:60].replace(" ", "_")


def fam_of(af):
    return 6 if af == 10 else 4


def plan_string(rec):
    inc, exc, nsl, rp6, rp4, dp6, dp4, udp, user, group, tmark = rec["setup"]
    m = rec["main"]

    def sn(s):
        return "%d,%s,%d,%d,%d" % (fam_of(s[0]), hx(s[1]), s[2], s[3], s[4])

    def lst(items, f):
        return ";".join(f(i) for i in items) if items else "-"

    def addr(sock):
        if sock is None or sock.addr is None:
            return "-"
        return "%s,%d" % (hx(sock.addr[0]), sock.addr[1])

    def lis(L):
        if L is None:
            return "-/-"
        return "%s/%s" % (addr(L.v6), addr(L.v4))
    tons = m["to_nameserver"]
    if tons is None:
        tons_s = "-"
    else:
        ip, port = tons.rsplit("@", 1)
        tons_s = "%s,%d" % (hx(ip), int(port))
    return ("inc=%s exc=%s ns=%s ports=%d,%d,%d,%d udp=%d user=%s group=%s tons=%s autonets=%d tcp=%s udpl=%s dnsl=%s"
            % (lst(inc, sn), lst(exc, sn), lst(nsl, lambda n: "%d,%s" % (fam_of(n[0]), hx(n[1]))),
               rp6, rp4, dp6, dp4, 1 if udp else 0,
               "-" if user is None else str(user), "-" if group is None else str(group),
               tons_s, 1 if m["auto_nets"] else 0, lis(m["tcp"]), lis(m["udp"]), lis(m["dns"])))


def run_helper_cmdline(args):
    """the helper's side of `sshuttle ... --method X --firewall`, in-process: the REAL cmdline.main parses the words and
    dispatches to firewall.main, which is replaced by a recorder.  -> (method, syslog) or None (usage error)"""
    import sshuttle.cmdline as cmdline
    import sshuttle.helpers as helpers
    got = {}

    def fw_main(method_name, syslog):
        got["m"] = (method_name, syslog)
        return 0
    saved = (cmdline.firewall.main, sys.argv, helpers.verbose, os.environ.pop("SSHUTTLE_ARGS", None), sys.stdout, sys.stderr)
    cmdline.firewall.main = fw_main
    sys.argv = ["sshuttle"] + list(args)
    sys.stdout = sys.stderr = io.StringIO()
    try:
        try:
            cmdline.main()
        except SystemExit:
            pass
    finally:
        cmdline.firewall.main, sys.argv, helpers.verbose = saved[:3]
        if saved[3] is not None:
            os.environ["SSHUTTLE_ARGS"] = saved[3]
        sys.stdout, sys.stderr = saved[4], saved[5]
    return got.get("m")


def impl_run(case, via_cmdline=None, info=None):
    """run the real client.main on `case`; returns the canonical outcome string.
    For the shipped methods (and `auto`) the REAL FirewallClient constructor runs: its Popen is replaced by an in-process
    helper whose command line goes through the real cmdline.main up to firewall.main (recorded) and which then announces
    `READY <method>` (for auto: the method the case says the helper picks); synthetic feature sets keep a stub constructor.
    via_cmdline = argv: the real cmdline.main is run on that command line inside the same boundary instead of calling
    client.main directly; the outcome is then 'EXIT <status> <class of the logged fatal message | ->'.
    info (dict) receives what the helper was started with."""
    import subprocess
    import types
    import sshuttle.client as client
    import sshuttle.cmdline as cmdline
    import sshuttle.helpers as helpers
    world = World(case["env"], case.get("kernel"), refusals_of(case))
    files = resolv_files(case)

    def fake_open(path, *a, **kw):                  # the only files helpers.py opens are the two resolv.conf files
        txt = files.get(path)
        if txt is None:
            # no such file - or one that exists and cannot be opened (unreadable, a directory): every OSError means
            # "this file contributes no name server" (round l, C15-l); which one is a function of the case
            e = (errno.ENOENT, errno.EACCES, errno.EISDIR)[(len(case["resolv"]) + len(path) + case.get("resolv_style", 0)) % 3]
            raise OSError(e, os.strerror(e), path)          # (the matching subclass: PermissionError, ...)
        return io.StringIO(txt)
    rec = {}
    ends = []
    RealFW = client.FirewallClient

    class StubFW:
        def __init__(self, method_name, sudo_pythonpath):
            self.auto_nets = []
            self.method = make_method(method_name)
            self.method.set_firewall(self)

        def setup(self, *a):
            rec["setup"] = a

        def done(self):
            pass

    class RealInitFW(RealFW):                       # the real constructor (READY dialogue, method from the helper's answer)
        def setup(self, *a):
            rec["setup"] = a
            RealFW.setup(self, *a)

    class HelperProc:
        pid = 4343
        returncode = None

        def poll(self):
            return None

        def wait(self):
            return 0

    def popen(argv, stdout=None, stdin=None, env=None, preexec_fn=None, **kw):
        rec.setdefault("helper_argv", []).append(list(argv))
        m = run_helper_cmdline(argv[1:])
        rec["helper_started_for"] = m
        end = stdout.dup()
        ends.append(end)
        if m is None:
            end.shutdown(2)                         # usage error on the helper's side: it exits without a word
        else:
            name = case.get("auto_resolves", "nat") if m[0] == "auto" else m[0]
            end.sendall(b"READY %s\n" % name.encode())
        return HelperProc()

    def stub_main(tcp_listener, udp_listener, fw, ssh_cmd, remotename, python, latency_control,
                  latency_buffer_size, dns_listener, seed_hosts, auto_hosts, auto_nets, daemon,
                  to_nameserver, add_cmd_delimiter, remote_shell):
        rec["main"] = {"tcp": tcp_listener, "udp": udp_listener, "dns": dns_listener,
                       "to_nameserver": to_nameserver, "auto_nets": auto_nets}
        return 0

    class Ent:
        def __init__(self, n):
            self.pw_uid = self.gr_gid = n

    def lookup(spec):
        def f(name):
            if spec is None or spec == "M":
                raise KeyError(name)
            return Ent(spec[1])
        return f

    def tup(s):
        return (AF[s[0]], s[1], s[2], s[3], s[4])
    saved = {k: getattr(client, k) for k in ("FirewallClient", "_main", "socket", "getpwnam", "getgrnam", "ssubprocess",
                                             "is_admin_user", "resolvconf_nameservers", "debug1", "debug2", "debug3", "log")}
    saved_prefix, saved_verbose, saved_argv0 = helpers.logprefix, helpers.verbose, sys.argv[0]
    so, se = sys.stdout, sys.stderr
    try:
        client.FirewallClient = StubFW if case["method"].startswith("synth:") else RealInitFW
        client.ssubprocess = types.SimpleNamespace(Popen=popen, PIPE=subprocess.PIPE)
        client.is_admin_user = lambda: True
        sys.argv[0] = "sshuttle"
        client._main = stub_main
        client.socket = make_socket_module(world)
        nopwd = case.get("nopwd")                   # a platform without the pwd / grp modules
        client.getpwnam = None if nopwd else lookup(case["user"])
        client.getgrnam = None if nopwd else lookup(case["group"])
        # the REAL helpers.resolvconf_nameservers (and with it the real family_ip_tuple) reads the case's resolv.conf texts
        helpers.open = fake_open
        client.debug1 = client.debug2 = client.debug3 = client.log = lambda s: None
        sys.stdout = io.StringIO()
        if via_cmdline is not None:
            return cmdline_outcome(via_cmdline)
        l6 = case["l6"] if case["l6"] in (None, "auto") else tuple(case["l6"])
        l4 = case["l4"] if case["l4"] in (None, "auto") else tuple(case["l4"])
        to_ns = None if case["to_ns"] is None else (AF[case["to_ns"][0]], case["to_ns"][1], case["to_ns"][2])
        try:
            rv = client.main(l6, l4, None, "remote.example" if case["remote"] else None, None, True, 32768,
                             # --ns-hosts: tagged by the real family_ip_tuple, as cmdline.main does (cmdline.py:75; the
                             # whole command line is run by check_cmdline); the case's family is the spec side's
                             case["dns"], [cmdline.family_ip_tuple(n[1]) for n in case["ns_hosts"]], case["method"],
                             None, False, case["auto_nets"],
                             [tup(s) for s in case["includes"]], [tup(s) for s in case["excludes"]],
                             False, to_ns, "./sshuttle.pid",
                             None if case["user"] is None else "someuser",
                             None if case["group"] is None else "somegroup",
                             True, False, None, "0x01")
        except helpers.Fatal as e:
            return "FATAL " + classify_fatal(str(e))
        except OSError as e:
            return "OSERR %s" % e.errno
        except Exception as e:      # noqa: BLE001 — every other exception class is an internal error
            return "CRASH " + type(e).__name__
        if rv != 0 or "setup" not in rec or "main" not in rec:
            return "RETURNED %r" % (rv,)
        return "PLAN " + plan_string(rec)
    finally:
        sys.stdout, sys.stderr = so, se
        for k, v in saved.items():
            setattr(client, k, v)
        helpers.logprefix, helpers.verbose, sys.argv[0] = saved_prefix, saved_verbose, saved_argv0
        helpers.__dict__.pop("open", None)
        for e_ in ends:
            e_.close()
        if info is not None:
            info["helper_started_for"] = rec.get("helper_started_for")
            info["helper_argv"] = rec.get("helper_argv")


def cmdline_outcome(argv):
    """the real cmdline.main on argv (inside impl_run's boundary: the real client.main runs up to the stubbed _main):
    'EXIT <status> <class of the message logged as fatal | ->' | 'USAGE <status>' | 'TRACEBACK <exception class>'"""
    import sshuttle.cmdline as cmdline
    logged = []
    saved = (sys.argv, cmdline.log, os.environ.pop("SSHUTTLE_ARGS", None))
    cmdline.log = logged.append
    sys.argv = ["sshuttle"] + list(argv)
    sys.stderr = io.StringIO()
    try:
        try:
            rv = cmdline.main()
        except SystemExit as e:
            return "USAGE %s" % e.code
        except BaseException as e:      # noqa: B902 — whatever escapes cmdline.main is a traceback for the user
            return "TRACEBACK " + type(e).__name__
        fatal = [m for m in logged if m.startswith("fatal: ")]
        return "EXIT %r %s" % (rv, classify_fatal(fatal[0][7:]) if fatal else "-")
    finally:
        sys.argv, cmdline.log = saved[:2]
        if saved[2] is not None:
            os.environ["SSHUTTLE_ARGS"] = saved[2]


def expected_outcome(case, feats, mo):
    """the model's outcome, adjusted for the implementation-only environment dimensions (no pwd/grp module, a dual-stack
    kernel): which explanatory stop / which listeners the same start-up has there.  (bind() refusals — address not
    local, privileged port, invalid address, IPv6 switched off — are part of the model's environment.)"""
    mo = strip_model(mo)
    # (a method without IPv4 trips `assert avail.ipv4` before any of this: outside the property, model says CRASH)
    early = mo.startswith("FATAL no_remote") or mo.startswith("FATAL ipv6_unsupported") or mo.startswith("CRASH")
    if early:
        return mo
    if case.get("nopwd"):
        if case["user"] is not None:
            return "FATAL user_unavailable"
        if case["group"] is not None:
            return "FATAL group_unavailable"
    k = case.get("kernel") or {}
    if k.get("dualstack") and mo.startswith("PLAN "):
        # the IPv4 TCP socket cannot listen beside the IPv6 one: it is dropped, the IPv6 listener serves both
        m_ = re.search(r" tcp=(\S+)/(\S+)", mo)
        a6, a4 = m_.groups()
        if a6 != "-" and a4 != "-" and a6.split(",")[1] == a4.split(",")[1]:
            return mo[:m_.start()] + " tcp=%s/-" % a6 + mo[m_.end():]
    return mo


# --------------------------------------------------------------------------- the property oracle (implementation side only)
def parse_plan(s):
    d = {}
    for tok in s.split(" ")[1:]:
        k, v = tok.split("=", 1)
        d[k] = v

    def items(v):
        return [] if v == "-" else [tuple(x.split(",")) for x in v.split(";")]

    def addr(a):
        if a == "-":
            return None
        ip, port = a.split(",")
        return (bytes.fromhex(ip).decode(), int(port))
    p = {"inc": [(int(a), bytes.fromhex(b).decode(), int(c), int(d_), int(e)) for a, b, c, d_, e in items(d["inc"])],
         "exc": [(int(a), bytes.fromhex(b).decode(), int(c), int(d_), int(e)) for a, b, c, d_, e in items(d["exc"])],
         "ns": [(int(a), bytes.fromhex(b).decode()) for a, b in items(d["ns"])],
         "ports": [int(x) for x in d["ports"].split(",")], "udp": d["udp"] == "1",
         "user": None if d["user"] == "-" else int(d["user"]), "group": None if d["group"] == "-" else int(d["group"])}
    for k in ("tcp", "udpl", "dnsl"):
        a6, a4 = d[k].split("/")
        p[k] = {6: addr(a6), 4: addr(a4)}
    return p


def v6_active(case, feats):
    return feats["ipv6"] and case["l6"] is not None


def oracle(case, feats, out):
    """list of violated clauses of C15, judged on the implementation's outcome alone"""
    kind = out.split(" ")[0]
    if not feats["ipv4"]:
        return []       # a method without IPv4 is outside the property (client.main asserts avail.ipv4)
    if kind == "FATAL":
        if out == "FATAL dns_all_v6":
            # the message explains the stop only when it is true: IPv6 is not active and every captured name server
            # (--ns-hosts, with --dns those of resolv.conf) is an IPv6 address (family of the address TEXT, spec side)
            texts = [n[1] for n in case["ns_hosts"]] + ([n[1] for n in case["resolv"]] if case["dns"] else [])
            v4 = [t for t in texts if text_family(t) == 4]
            if v6_active(case, feats) or v4 or not texts:
                return ["start-up stops with `all of the system DNS servers are IPv6` although %s"
                        % ("IPv6 is active" if v6_active(case, feats) else
                           "an IPv4 name server is to be captured :: %s" % v4[0] if v4 else "no name server is to be captured")]
        return []
    if kind == "CRASH":
        return ["start-up ended in an internal error: " + out.split(" ")[1]]
    if kind == "OSERR":
        return ["start-up ended in a raw OSError traceback (errno %s) instead of an explanatory fatal message" % out.split(" ")[1]]
    if kind != "PLAN":
        return ["start-up ended without handing over a plan: " + out[:60]]
    p = parse_plan(out)
    world = World(case["env"], None, refusals_of(case))
    dual = bool((case.get("kernel") or {}).get("dualstack"))
    bad = []
    rp = {6: p["ports"][0], 4: p["ports"][1]}
    dp = {6: p["ports"][2], 4: p["ports"][3]}
    loop = {4: "127.0.0.1", 6: "::1"}
    for fam, key in ((4, "l4"), (6, "l6")):
        # default listen addresses are loopback
        if case[key] == "auto" and feats["loopback_proxy_port"]:
            for L in ("tcp", "udpl", "dnsl"):
                a = p[L][fam]
                if a is not None and a[0] != loop[fam]:
                    bad.append("default listen address is not loopback")
        # each listen address is excluded unless that very address is an include
        for L in ("tcp", "udpl", "dnsl"):
            a = p[L][fam]
            if a is not None:
                width = 32 if fam == 4 else 128
                if (fam, a[0], width, 0, 0) not in p["exc"] and not any(s[0] == fam and s[1] == a[0] for s in p["inc"]):
                    bad.append("a listen address is neither excluded nor listed as a subnet")
        # every family with subnets / name servers has a bound listener on the reported port
        has_sub = any(s[0] == fam for s in p["inc"])
        has_ns = any(n[0] == fam or text_family(n[1]) == fam for n in p["ns"])
        # on a dual-stack kernel the IPv6 TCP listener on the same port also receives the IPv4 connections
        served_by_v6 = dual and fam == 4 and p["tcp"][4] is None and p["tcp"][6] is not None and p["tcp"][6][1] == rp[4] != 0
        if has_sub and not served_by_v6:
            a = p["tcp"][fam]
            if rp[fam] == 0 or a is None or a[1] != rp[fam] or world.busy("t", fam, a[1]) or world.refused("t", fam, a[0], a[1]):
                bad.append("a family with subnets has no TCP listener bound to the reported port")
            if p["udp"]:
                a = p["udpl"][fam]
                if a is None or a[1] != rp[fam] or world.busy("u", fam, a[1]) or world.refused("u", fam, a[0], a[1]):
                    bad.append("a family with subnets has no UDP listener bound to the reported port")
        if has_ns:
            a = p["dnsl"][fam]
            if dp[fam] == 0 or a is None or a[1] != dp[fam] or world.busy("u", fam, a[1]) or world.refused("u", fam, a[0], a[1]):
                bad.append("a family with name servers has no DNS listener bound to the reported port")
        # reported ports are those of the listeners, in range
        for port, L in ((rp[fam], "tcp"), (dp[fam], "dnsl")):
            a = p[L][fam]
            if L == "tcp" and served_by_v6:
                continue
            if (a is None) != (port == 0) or (a is not None and a[1] != port) or not 0 <= port <= 65535:
                bad.append("a reported port is not the port of the bound listener / out of range")
        # the DNS listener does not share the TCP listener's port
        if dp[fam] != 0 and dp[fam] == rp[fam]:
            bad.append("the DNS listener shares the TCP listener's port")
    # IPv6 entries exactly when IPv6 is active
    if dual and not any(p[L][4] is not None for L in ("tcp", "udpl", "dnsl")) and p["tcp"][6] is None and rp[4]:
        bad.append("a family with subnets has no TCP listener bound to the reported port")
    # the family of every name server entry is the family of its address text (decided on the spec side: text_family)
    for n in p["ns"]:
        if text_family(n[1]) != n[0]:
            bad.append("a name server is handed to the helper with a family that is not the family of its address text "
                       "(an IPv6 address as AF_INET or an IPv4 address as AF_INET6) :: %s is an IPv%d address, the plan has NSLIST %d,%s"
                       % (n[1], text_family(n[1]), AF[n[0]], n[1]))
    ns6 = [n[1] for n in p["ns"] if n[0] == 6 or text_family(n[1]) == 6]
    has6 = (any(s[0] == 6 for s in p["inc"] + p["exc"]) or bool(ns6) or rp[6] != 0 or dp[6] != 0
            or any(p[L][6] is not None for L in ("tcp", "udpl", "dnsl")))
    if has6 != bool(v6_active(case, feats)):
        bad.append("IPv6 entries present=%s but IPv6 active=%s" % (has6, bool(v6_active(case, feats)))
                   + (" :: the plan names the IPv6 name server %s" % ns6[0] if ns6 and not v6_active(case, feats) else ""))
    # every name server to be captured is in the plan unless it is an IPv6 one and IPv6 is not active; nothing else is
    want_ns = [(text_family(n[1]), n[1]) for n in case["ns_hosts"]] + \
        ([(text_family(n[1]), n[1].lower()) for n in case["resolv"]] if case["dns"] else [])
    if not v6_active(case, feats):
        want_ns = [n for n in want_ns if n[0] == 4]
    if sorted(n[1] for n in want_ns) != sorted(n[1] for n in p["ns"]):
        bad.append("the name servers of the plan are not the captured ones (--ns-hosts, with --dns those of resolv.conf; only the "
                   "IPv4 ones when IPv6 is not active) :: plan: %s; to be captured: %s"
                   % (",".join(n[1] for n in p["ns"]) or "none", ",".join(n[1] for n in want_ns) or "none"))
    # nothing is requested from the helper that the method cannot do
    if p["user"] is not None and not feats["user"]:
        bad.append("--user handed to a method without user support")
    if p["group"] is not None and not feats["group"]:
        bad.append("--group handed to a method without group support")
    if p["udp"] and not feats["udp"]:
        bad.append("UDP requested from a method without UDP support")
    if p["ns"] and not feats["dns"]:
        bad.append("DNS capture requested from a method without DNS support")
    return sorted(set(bad))      # `clause :: detail of this case`


# --------------------------------------------------------------------------- witnesses of the known defects
def base_case(**kw):
    c = {"method": "nat", "remote": True, "l6": "auto", "l4": "auto", "dns": False, "resolv": [], "ns_hosts": [],
         "to_ns": None, "includes": [[4, "10.0.0.0", 8, 0, 0]], "excludes": [], "auto_nets": False,
         "user": None, "group": None, "env": [], "refuse": []}
    c.update(kw)
    return c


ALLBUSY_T4 = [["t", 4, 9002, 12300]]
WITNESSES = [
    # (flag index in the fixes mask, id, case)
    (0, "F1", base_case(l6=["::1", 5006], l4=["127.0.0.1", 5004])),
    (1, "F2", base_case(l6=None, l4=["127.0.0.1", 12299], ns_hosts=[[4, "10.9.9.9"]])),
    (2, "F14", base_case(method="nft", l6=["::1", 0], l4=None, includes=[[6, "fd00::", 8, 0, 0]])),
    (3, "F15", base_case(method="nft", group=["E", 1000])),
    (4, "F21", base_case(l6=None, l4=["127.0.0.1", 5000], env=[["t", 4, 5000, 5000]])),
    (4, "F21", base_case(l6=None, ns_hosts=[[4, "10.9.9.9"]], env=ALLBUSY_T4)),
    (4, "F21", base_case(l6=None, ns_hosts=[[4, "10.9.9.9"]], env=[["u", 4, 9001, 12300]])),
    # --listen 10.99.99.99:0, not an address of this machine / --listen 127.0.0.1:80 without privilege / the DNS listener
    (5, "F131", base_case(l6=None, l4=["10.99.99.99", 0], refuse=[["t", 4, 99, "10.99.99.99", 0, 65535]])),
    (5, "F131", base_case(l6=None, l4=["127.0.0.1", 80], kernel={"unpriv": True})),
    (5, "F131", base_case(l6=None, l4=["10.99.99.99", 0], ns_hosts=[[4, "10.9.9.9"]], refuse=[["u", 4, 99, "10.99.99.99", 0, 65535]])),
]
FIX_IDS = ["F1", "F2", "F14", "F15", "F21", "F131"]


def detect_fixes(ctx):
    """which of the pending repairs the code under test already contains: for each witness compare the real outcome
    with the model with and without that repair"""
    mask = ["1"] * len(FIX_IDS)
    lines, meta = [], []
    for idx, fid, case in WITNESSES:
        feats = method_features(case["method"])
        for bit in "10":
            m = ["1"] * len(FIX_IDS)
            m[idx] = bit
            lines.append(case_line(case, feats, "".join(m)))
        meta.append((idx, fid, case, feats))
    outs = ctx.run_driver(lines)
    for i, (idx, fid, case, feats) in enumerate(meta):
        impl = impl_run(case)
        fixed, asfound = strip_model(outs[2 * i]), strip_model(outs[2 * i + 1])
        ctx.case(("witness", fid, i), sample={"kind": "witness " + fid, "impl": impl[:160], "model_repaired": fixed[:80],
                                              "model_asfound": asfound[:80]} if fid in ("F2", "F14") else None)
        ctx.count("witness_" + fid)
        if impl == fixed:
            continue
        if impl == asfound:
            mask[idx] = "0"
        else:
            ctx.disagree("witness %s matches neither the repaired nor the as-found model" % fid, case, impl, fixed, None)
    return "".join(mask)


def strip_model(o):
    """drop the model-only trailing fields of a PLAN line"""
    return re.sub(r" v6active=\d hasv6=\d$", "", o)


# --------------------------------------------------------------------------- option layer
def manual_methods():
    repo = os.environ.get("VERIF_REPO", "/repo")
    txt = open(os.path.join(repo, "docs", "manpage.rst")).read()
    m = re.search(r"^\.\. option:: --method <([^>]+)>", txt, re.M)
    if not m:
        raise RuntimeError("docs/manpage.rst: `.. option:: --method <...>` not found")
    return m.group(1).split("|")


def parser_accepts(method):
    from sshuttle.options import parser
    so, se = sys.stdout, sys.stderr
    sys.stdout = sys.stderr = io.StringIO()
    try:
        try:
            opt = parser.parse_args(["--method", method, "-r", "host", "10.0.0.0/8"])
            return opt.method == method
        except SystemExit:
            return False
    finally:
        sys.stdout, sys.stderr = so, se


def check_option_layer(ctx):
    import sshuttle.options as options
    # (1) the manual's --method list against the model's and against the real parser
    doc = manual_methods()
    out = ctx.run_driver(["METHODS"])[0].split(" ")
    model_doc = [x.split(":")[0] for x in out]
    model_acc = {x.split(":")[0]: x.split(":")[1] == "1" for x in out}
    if model_doc != doc:
        ctx.disagree("documented --method names", "docs/manpage.rst", doc, model_doc, None)
    for mname in doc:
        acc = parser_accepts(mname)
        ctx.case(("method-name", mname),
                 sample={"kind": "method name", "name": mname, "parser_accepts": acc} if mname == "nft" else None)
        ctx.count("method_name_checked")
        if acc != (mname in options.method_choices):
            ctx.disagree("parser acceptance vs options.method_choices", mname, acc, mname in options.method_choices, None)
        if model_acc.get(mname) != acc:
            ctx.disagree("accepted_by method_choices", mname, acc, model_acc.get(mname), acc)
        if not acc:
            ctx.violation("a documented --method name is rejected by the option parser",
                          {"finding_hint": "F11", "argv": ["--method", mname, "-r", "host", "10.0.0.0/8"], "method": mname})
    # (2) feature tables
    for mname in METHODS:
        feats = method_features(mname)
        got = ctx.run_driver(["FEATURES " + hx(mname)])[0]
        want = "".join("1" if feats[k] else "0" for k in FEATKEYS)
        ctx.case(("features", mname))
        if got != want:
            ctx.disagree("get_supported_features", mname, want, got, None)


def argv_of_case(case):
    """command line producing `case` at the client.main boundary, or None when no command line does"""
    l6, l4 = case["l6"], case["l4"]
    argv = ["--method", case["method"], "-r", "remote.example"]
    dis = False
    if l4 == "auto" and l6 in ("auto", None):
        dis = l6 is None
    elif l4 == "auto" or l6 == "auto" or (l4 is None and l6 is None):
        return None, None, None
    else:
        items = []
        if l6 is not None:
            items.append((6, l6[0], l6[1]))
        if l4 is not None:
            items.append((4, l4[0], l4[1]))
        lis = ",".join(("[%s]:%d" % (ip, port)) if fam == 6 else "%s:%d" % (ip, port) for fam, ip, port in items)
        argv += ["--listen", lis]
    if dis:
        argv.append("--disable-ipv6")
    if case["dns"]:
        argv.append("--dns")
    if case["ns_hosts"]:
        argv += ["--ns-hosts", ",".join(n[1] for n in case["ns_hosts"])]
    if case["to_ns"] is not None:
        t = case["to_ns"]
        argv += ["--to-ns", ("[%s]:%d" if t[0] == 6 else "%s:%d") % (t[1], t[2])]
    if case["auto_nets"]:
        argv.append("--auto-nets")
    if case["user"] is not None:
        argv += ["--user", "someuser"]
    if case["group"] is not None:
        argv += ["--group", "somegroup"]

    def sn(s):
        host = "[%s/%d]" % (s[1], s[2]) if s[0] == 6 else "%s/%d" % (s[1], s[2])
        if s[3]:
            host += ":%d" % s[3] + ("-%d" % s[4] if s[4] != s[3] else "")
        return host
    for s in case["excludes"]:
        argv += ["-x", sn(s)]
    argv += [sn(s) for s in case["includes"]]
    listen_items = None
    if "--listen" in argv:
        listen_items = items
    return argv, dis, listen_items


def run_cmdline(argv):
    """real cmdline.main with client.main replaced by a recorder; returns the recorded arguments or an outcome string"""
    import sshuttle.cmdline as cmdline
    got = {}

    def rec(*a):
        got["a"] = a
        return 0
    saved = (cmdline.client.main, sys.argv, cmdline.log, os.environ.pop("SSHUTTLE_ARGS", None))
    so, se = sys.stdout, sys.stderr
    try:
        cmdline.client.main = rec
        cmdline.log = lambda s: None
        sys.argv = ["sshuttle"] + argv
        sys.stdout = sys.stderr = io.StringIO()
        try:
            rv = cmdline.main()
        except SystemExit as e:
            return "USAGE %s" % e.code
        except Exception as e:      # noqa: BLE001
            return "CRASH " + type(e).__name__
        if "a" not in got:
            return "RETURNED %r" % (rv,)
        return got["a"]
    finally:
        sys.stdout, sys.stderr = so, se
        cmdline.client.main, sys.argv, cmdline.log = saved[:3]
        if saved[3] is not None:
            os.environ["SSHUTTLE_ARGS"] = saved[3]


def check_cmdline(ctx, case, accepted, impl=None):
    """the command line of `case` must reach client.main with exactly the arguments the case stands for"""
    argv, dis, listen_items = argv_of_case(case)
    if argv is None or case["method"].startswith("synth:") or not case["remote"]:
        return
    if not case["includes"] and not case["auto_nets"]:
        # neither a subnet nor -N: an explanatory usage error
        got = impl_run(case, via_cmdline=argv)
        ctx.count("cmdline_no_subnets_" + got.split(" ")[0])
        if got != "USAGE 2" and accepted.get(case["method"], True):
            ctx.violation("a command line with neither subnets nor -N does not end in a usage error",
                          {"case": case, "argv": argv, "outcome": got, "clause": "cmdline"})
        return
    if impl is not None:
        # the same command line with the real client.main behind it: a fatal stop must reach the user as the logged
        # message `fatal: ...` and exit status 99, a handed-over plan as status 0
        got = impl_run(case, via_cmdline=argv)
        want = "EXIT 99 " + impl.split(" ")[1] if impl.startswith("FATAL ") else "EXIT 0 -" if impl.startswith("PLAN ") else None
        ctx.count("cmdline_exit_" + "_".join(got.split(" ")[:2]))
        g = got.split(" ")
        # property: the stop is an explanatory message (the same one), not a traceback, and not reported as success
        ok = want is None or got == want or (impl.startswith("FATAL ") and g[0] == "EXIT" and g[1] not in ("0", "None") and g[2] == impl.split(" ")[1])
        if not ok and accepted.get(case["method"], True):
            ctx.violation("a fatal stop of start-up does not reach the user as its explanatory message with a failure status "
                          "(or a handed-over plan as status 0) when started from the command line",
                          {"case": case, "argv": argv, "outcome": got, "expected": want, "clause": "cmdline"})
        elif want is not None and got != want:
            ctx.disagree("exit status of cmdline.main", argv, got, want, True)
    got = run_cmdline(argv)
    ctx.count("cmdline_cases")
    ctx.case(("cmdline", tuple(argv)), nontrivial=False)
    if isinstance(got, str):
        if got.startswith("USAGE") and not accepted.get(case["method"], True):
            return      # reported once by check_option_layer
        ctx.disagree("cmdline.main did not reach client.main", argv, got, "client.main(...)", None)
        return
    (l6, l4, _ssh, remote, _py, _lc, _lb, dns, nslist, method, _sh, _ah, auto_nets, inc, exc, _daemon, to_ns, _pid,
     user, group, _spp, _acd, _rsh, tmark) = got

    def canon_l(x):
        return x if x in (None, "auto") else [x[0], x[1]]
    want = {"l6": case["l6"], "l4": case["l4"], "dns": case["dns"], "ns": [[n[0], n[1]] for n in case["ns_hosts"]],
            "method": case["method"], "auto_nets": case["auto_nets"], "inc": [list(s) for s in case["includes"]],
            "exc": [list(s) for s in case["excludes"]], "to_ns": case["to_ns"],
            "user": None if case["user"] is None else "someuser", "group": None if case["group"] is None else "somegroup",
            "tmark": "0x01"}
    have = {"l6": canon_l(l6), "l4": canon_l(l4), "dns": bool(dns), "ns": [[fam_of(n[0]), n[1]] for n in nslist],
            "method": method, "auto_nets": bool(auto_nets),
            "inc": [[fam_of(s[0]), s[1], s[2], s[3], s[4]] for s in inc],
            "exc": [[fam_of(s[0]), s[1], s[2], s[3], s[4]] for s in exc],
            "to_ns": None if to_ns is None else [fam_of(to_ns[0]), to_ns[1], to_ns[2]],
            "user": user, "group": group, "tmark": tmark}
    wrong = [n for n in have["ns"] if text_family(n[1]) != n[0]]
    if wrong:
        ctx.violation("cmdline.main hands client.main a --ns-hosts name server with a family that is not the family of its address text",
                      {"case": case, "argv": argv, "clause": "cmdline ns family", "handed_over": have["ns"],
                       "detail": "%s is an IPv%d address, handed over with family IPv%d" % (wrong[0][1], text_family(wrong[0][1]), wrong[0][0])})
    elif want != have:
        ctx.disagree("cmdline.main -> client.main arguments", argv, have, want, None)
    # the model's listen post-processing
    its = "-" if listen_items is None else ";".join("%d,%s,%d" % (f, hx(ip), port) for f, ip, port in listen_items)
    LISTEN_BATCH.append(("LISTEN %d %s" % (1 if dis else 0, its), argv, "%s %s" % (l_tok(canon_l(l6)), l_tok(canon_l(l4)))))


LISTEN_BATCH = []


def flush_listen_batch(ctx):
    """model's listen_of_options against what the real cmdline.main handed to client.main (one driver call)"""
    if not LISTEN_BATCH:
        return
    out = ctx.run_driver([b[0] for b in LISTEN_BATCH])
    for (line, argv, want), got in zip(LISTEN_BATCH, out):
        if got != want:
            ctx.disagree("listen_of_options", argv, want, got, None)
    del LISTEN_BATCH[:]


# --------------------------------------------------------------------------- case generation
V4NETS = [[4, "10.0.0.0", 8, 0, 0], [4, "192.168.7.0", 24, 80, 80], [4, "172.16.0.0", 12, 8000, 8080], [4, "0.0.0.0", 0, 0, 0]]
V6NETS = [[6, "fd00::", 8, 0, 0], [6, "2001:db8::", 32, 443, 443], [6, "::", 0, 0, 0]]
NS4 = [[4, "10.9.9.9"], [4, "192.168.7.1"]]
NS6 = [[6, "fd00::53"], [6, "2001:db8::53"]]
# spellings of name-server addresses (resolv.conf, --ns-hosts): IPv4 dotted quads; IPv6 compressed, full, with an embedded
# IPv4 tail (NAT64 64:ff9b::a.b.c.d, IPv4-mapped ::ffff:a.b.c.d, IPv4-compatible ::a.b.c.d), with a zone id, in upper case.
# The family stored in a case is the spec side's (text_family); the code under test only ever sees the text
NS4X = ["10.9.9.9", "192.168.7.1", "8.8.8.8", "127.0.0.53", "10.0.0.53", "1.1.1.1"]
NS6X = ["fd00::53", "2001:db8::53", "64:ff9b::10.0.0.53", "::ffff:192.168.1.1", "::10.9.9.9", "fe80::1%eth0", "2001:DB8::AB",
        "64:FF9B::8.8.8.8", "2001:db8:0:0:0:0:0:35", "::FFFF:10.0.0.53", "fe80::53%2", "::1"]


def respell(rng, case, p=0.6):
    """replace name servers of the case by other spellings of the same family (distinct within resolv.conf / --ns-hosts)"""
    for key in ("resolv", "ns_hosts"):
        if case[key] and rng.random() < p:
            out = []
            for n in case[key]:
                menu = [t for t in (NS4X if n[0] == 4 else NS6X) if t.lower() not in [o[1].lower() for o in out]]
                t = rng.choice(menu)
                out.append([text_family(t), t])
            case[key] = out
    if len(case["resolv"]) and rng.random() < 0.3:
        case["resolv_split"] = rng.randint(0, len(case["resolv"]))      # systemd-resolved's second file
    if rng.random() < 0.3:
        case["resolv_style"] = 1
    return case


def listen_forms(fam, rng=None):
    ip = "127.0.0.1" if fam == 4 else "::1"
    alt = "192.168.7.5" if fam == 4 else "fd00::5"
    return [None, "auto", [ip, 0], [alt, 0], [ip, 12299], [alt, 5000 + fam]]


def env_menu(rng, case):
    exp = []
    for key, fam in (("l4", 4), ("l6", 6)):
        l = case[key]
        if isinstance(l, list) and l[1]:
            exp.append(["t", fam, l[1], l[1]])
    menu = [[], [], [["t", 4, 12300, 12300]], [["t", 6, 12300, 12300]],
            [["t", 4, 12290, 12300], ["t", 6, 12295, 12300]], [["u", 4, 12290, 12300]],
            [["u", 4, 12299, 12299], ["u", 6, 12298, 12298]],
            [["t", 4, 12296, 12300], ["u", 4, 12291, 12295], ["u", 6, 12285, 12290]]]
    if exp:
        menu += [exp, exp[:1]]
    return menu


def random_refusals(rng, case, p=0.5):
    """bind() refusals for the case's explicit listen addresses / ports: the address is not one of the machine's
    (EADDRNOTAVAIL), is invalid for bind (EINVAL: e.g. a link-local address without its scope), or — via the kernel
    flag `unpriv` — the port is below 1024 and the process has no privilege (EACCES); for both protocols, sometimes one"""
    out = []
    for key, fam in (("l4", 4), ("l6", 6)):
        l = case[key]
        if isinstance(l, list) and rng.random() < p:
            en = rng.choice([EADDRNOTAVAIL, EADDRNOTAVAIL, EADDRNOTAVAIL, EINVAL, EACCES])
            protos = rng.choice(["tu", "tu", "tu", "u", "t"])
            lo, hi = rng.choice([(0, 65535), (0, 65535), (0, 65535), (12290, 12299), (l[1], l[1])])
            out += [[pr, fam, en, l[0], lo, hi] for pr in protos]
    return out


def random_env(rng, case):
    r = rng.random()
    if r < 0.08:
        return [["t", 4, 9002, 12300]] + ([["t", 6, 9002, 12300]] if rng.random() < 0.5 else [])
    if r < 0.14:
        return [[rng.choice("tu"), rng.choice([4, 6]), 9001, 12300]]
    if r < 0.18:
        return [["t", 4, 0, 65535], ["t", 6, 0, 65535]]
    env = []
    for _ in range(rng.randint(0, 4)):
        hi = rng.choice([12300, 12300, 12299, 12298, rng.randint(9001, 12300)])
        lo = max(0, hi - rng.choice([0, 0, 1, 2, 5, 10, 40]))
        env.append([rng.choice("tu"), rng.choice([4, 6]), lo, hi])
    for key, fam in (("l4", 4), ("l6", 6)):
        l = case[key]
        if isinstance(l, list) and l[1] and rng.random() < 0.3:
            env.append([rng.choice("tu"), fam, l[1], l[1]])
    return env


def cross_product():
    ids = [(None, None), (["E", 1000], None), ("M", None), (None, ["E", 2000]), (None, "M")]
    for method in METHODS:
        for l6 in (None, "auto", ["::1", 0], ["::1", 12299]):
            for l4 in (None, "auto", ["127.0.0.1", 0], ["127.0.0.1", 12299]):
                for dns, resolv in ((False, []), (True, []), (True, NS4[:1]), (True, NS6[:1]), (True, NS4[:1] + NS6[:1])):
                    for nsh in ([], NS4[1:], NS6[1:]):
                        for to_ns in (None, [4, "10.1.1.1", 53]):
                            for inc in ([], V4NETS[:1], V6NETS[:1], V4NETS[:1] + V6NETS[:1]):
                                for exc in ([], [[4, "10.5.0.0", 16, 0, 0], [6, "fd00:5::", 32, 0, 0]]):
                                    for user, group in ids:
                                        yield {"method": method, "remote": True, "l6": l6, "l4": l4, "dns": dns,
                                               "resolv": resolv, "ns_hosts": nsh, "to_ns": to_ns, "includes": inc,
                                               "excludes": exc, "auto_nets": not inc, "user": user, "group": group,
                                               "env": []}


def random_case(rng):
    method = rng.choice(METHODS) if rng.random() < 0.85 else \
        "synth:" + "".join(rng.choice("01") if i != 1 or rng.random() < 0.1 else "1" for i in range(7))

    def rl(fam):
        l = rng.choice(listen_forms(fam))
        if isinstance(l, list):
            l = list(l)
            if rng.random() < 0.5:
                l[1] = rng.choice([0, 12300, 12299, 12298, 9001, 9000, 12301, 80, 53, 443, 1023, 1024, 65535, rng.randint(9001, 12300)])
            if rng.random() < 0.15:
                l[0] = rng.choice([s[1] for s in (V4NETS if fam == 4 else V6NETS)])
        return l
    inc = rng.sample(V4NETS, rng.randint(0, 2)) + rng.sample(V6NETS, rng.randint(0, 2))
    rng.shuffle(inc)
    if rng.random() < 0.2:
        inc.append([4, "127.0.0.1", rng.choice([32, 8]), 0, 0])
    if rng.random() < 0.2:
        inc.append([6, "::1", 128, 0, 0])
    exc = rng.sample([[4, "10.5.0.0", 16, 0, 0], [6, "fd00:5::", 32, 0, 0], [4, "127.0.0.1", 32, 0, 0], [4, "10.0.0.1", 32, 22, 22]],
                     rng.randint(0, 2))
    dns = rng.random() < 0.5
    l6c, l4c = rl(6), rl(4)
    # an exclude that names a listen address but only for some ports (it does not exclude the listener itself)
    for l, fam, loop in ((l4c, 4, "127.0.0.1"), (l6c, 6, "::1")):
        ip = loop if l == "auto" else (l[0] if isinstance(l, list) else None)
        if ip and rng.random() < 0.3:
            lo = rng.choice([22, 80, 5000, 8080, 12300])
            exc.append([fam, ip, 32 if fam == 4 else 128, lo, lo + rng.choice([0, 0, 10])])
    case = {"method": method, "remote": rng.random() < 0.97, "l6": l6c, "l4": l4c, "dns": dns,
            "resolv": rng.sample(NS4 + NS6, rng.randint(0, 3)) if rng.random() < 0.8 else [],
            "ns_hosts": rng.sample(NS4 + NS6, rng.randint(0, 2)) if rng.random() < 0.5 else [],
            "to_ns": rng.choice([None, [4, "10.1.1.1", 53], [6, "fd00::1", 5353], [6, "::ffff:10.1.1.1", 53]]),
            "includes": inc, "excludes": exc, "auto_nets": (not inc) or rng.random() < 0.2,
            "user": rng.choice([None, None, None, None, None, ["E", 1000], ["E", 0], "M"]),
            "group": rng.choice([None, None, None, None, None, ["E", 2000], "M"]), "env": []}
    case["env"] = random_env(rng, case)
    respell(rng, case)
    if not method.startswith("synth:") and rng.random() < 0.12:
        case["method"], case["auto_resolves"] = "auto", method           # the helper picks; the client learns it from READY
    r = rng.random()
    explicit = [l for l in (l4c, l6c) if isinstance(l, list)]
    if explicit and rng.random() < 0.35:
        case["refuse"] = random_refusals(rng, case)
        if rng.random() < 0.5:
            case["kernel"] = {"unpriv": True}
    elif explicit and any(0 < l[1] < 1024 for l in explicit):
        case["kernel"] = {"unpriv": True}
    elif r < 0.06:
        case["kernel"] = {"no_v6": True}
    elif r < 0.14:
        case["kernel"] = {"dualstack": True}
    elif r < 0.2 and (case["user"] is not None or case["group"] is not None or rng.random() < 0.2):
        case["nopwd"] = True
    return case


# --------------------------------------------------------------------------- the run
def describe(case):
    d = {k: case[k] for k in ("method", "l6", "l4", "dns", "resolv", "ns_hosts", "includes", "user", "group", "env")}
    d.update((k, case[k]) for k in ("refuse", "kernel", "nopwd", "resolv_split", "resolv_style") if case.get(k) is not None and case.get(k) != [])
    return d


def correspondence(ctx):
    rng = ctx.rng
    quick = ctx.quick()
    check_option_layer(ctx)
    accepted = {m: parser_accepts(m) for m in METHODS}
    mask = detect_fixes(ctx)
    ctx.extra["repairs_present_in_code_under_test"] = {f: mask[i] == "1" for i, f in enumerate(FIX_IDS)}
    ctx.notes.append("fix mask detected on the code under test (%s): %s" % (" ".join(FIX_IDS), mask))

    cases = []
    for _idx, fid, c in WITNESSES:
        cases.append(("witness", c))
    cp = list(cross_product())
    ctx.extra["cross_product_size"] = len(cp)
    if quick:
        cp = rng.sample(cp, 1500)
    else:
        ctx.extra["exhaustive"] = True
    for c in cp:
        menu = env_menu(rng, c)
        c["env"] = rng.choice(menu)
        respell(rng, c)
        if rng.random() < 0.1:
            c["refuse"] = random_refusals(rng, c, 0.7)
        cases.append(("cross", c))
    for _ in range(1500 if quick else 20000):
        cases.append(("random", random_case(rng)))

    feats_cache = {}
    lines = []
    def eff_method(c):
        return c.get("auto_resolves", "nat") if c["method"] == "auto" else c["method"]
    for _k, c in cases:
        if eff_method(c) not in feats_cache:
            feats_cache[eff_method(c)] = method_features(eff_method(c))
        lines.append(case_line(c, feats_cache[eff_method(c)], mask))
    model = ctx.run_driver(lines)
    ncmd = 0
    for (kind, c), line, mo in zip(cases, lines, model):
        feats = feats_cache[eff_method(c)]
        info = {}
        impl = impl_run(c, info=info)
        mo = expected_outcome(c, feats, mo) + (re.search(r" v6active=\d hasv6=\d$", mo).group(0) if mo.startswith("PLAN") else "")
        for flag in ("nopwd",) + tuple((c.get("kernel") or {}).keys()) + (("auto",) if c["method"] == "auto" else ()):
            if c.get(flag) or flag in (c.get("kernel") or {}) or flag == "auto":
                ctx.count("env_" + flag)
        if not c["method"].startswith("synth:") and info.get("helper_argv"):
            # the helper was started: for the method named on the command line, as a firewall helper
            hs = info.get("helper_started_for")
            ctx.count("helper_started_through_real_cmdline")
            if hs is None or hs[0] != c["method"]:
                ctx.violation("the helper is not started for the method named on the command line",
                              {"case": c, "helper_argv": info["helper_argv"][-1], "helper_dispatched_to": hs, "clause": "helper method"})
        for key in ("resolv", "ns_hosts"):
            for n in c[key]:
                t = n[1]
                ctx.count("ns_spelling_%s_%s" % (key, "v4" if n[0] == 4 else "v6_zone" if "%" in t else "v6_embedded_v4" if "." in t
                                                else "v6_upper" if t != t.lower() else "v6_hex"))
        if c.get("resolv_split") is not None:
            ctx.count("resolv_conf_systemd_second_file")
        cls = impl.split(" ")[0] + ("" if impl.startswith("PLAN") else " " + impl.split(" ")[1])
        ctx.count("outcome_" + cls.replace(" ", "_"))
        ctx.count("kind_" + kind)
        ctx.count("method_" + c["method"].split(":")[0])
        nontrivial = impl.split(" ")[0] in ("PLAN", "CRASH", "OSERR") or any(x in impl for x in ("busy", "no_listen", "refused", "v6_unavailable"))
        ctx.case(("case", line), nontrivial=nontrivial,
                 sample={"kind": kind, "case": describe(c), "outcome": impl[:300]} if kind == "random" and impl.startswith("PLAN") else None)
        bad = oracle(c, feats, impl)
        if impl != strip_model(mo):
            ctx.disagree("startup", line, impl[:600], strip_model(mo)[:600], not bad)
        elif impl.startswith("PLAN"):
            # the model-side spec functions agree with the python oracle's reading
            m = re.search(r" v6active=(\d) hasv6=(\d)$", mo)
            if (m.group(1) == "1") != bool(v6_active(c, feats)):
                ctx.disagree("ipv6_active", line, bool(v6_active(c, feats)), m.group(1), None)
        for b in bad:
            b, _sep, detail = b.partition(" :: ")
            rp_ = {"case": c, "outcome": impl[:400], "clause": b}
            if detail:
                rp_["detail"] = detail
            if impl.startswith("OSERR ") and impl != "OSERR %d" % errno.EADDRINUSE and refusals_of(c):
                # finding F131: a bind() refused by the kernel (not EADDRINUSE) is re-raised raw by the two bind loops
                rp_["finding_id"] = "F131"
                argv_, _d, _l = argv_of_case(c)
                if argv_ is not None and not c["method"].startswith("synth:") and c["remote"] and (c["includes"] or c["auto_nets"]):
                    rp_["command_line"] = "sshuttle " + " ".join(argv_)
                    rp_["argv"] = argv_
                    rp_["command_line_outcome"] = impl_run(c, via_cmdline=argv_)
                    if rp_["command_line_outcome"].startswith("TRACEBACK"):
                        ctx.violation("the command line ends in a traceback of the socket layer instead of an explanatory fatal message "
                                      "(a listen address / port the kernel refuses)", dict(rp_, clause="cmdline traceback"))
                ctx.count("F131_raw_oserror_%s" % impl.split(" ")[1])
            ctx.violation(b, rp_)
        plain = not c.get("nopwd") and not c.get("kernel")
        if kind == "cross" and (not quick or ncmd < 300) and c["env"] == []:
            ncmd += 1
            check_cmdline(ctx, c, accepted, impl if ncmd % 3 == 0 else None)
        elif kind == "random" and ncmd < (600 if quick else 6000) and rng.random() < 0.3:
            ncmd += 1
            check_cmdline(ctx, c, accepted, impl if plain or ncmd % 2 else None)
    # neither subnets nor -N
    for _ in range(12 if quick else 200):
        c = random_case(rng)
        if c["method"].startswith("synth:") or not c["remote"]:
            continue
        c["includes"], c["auto_nets"] = [], False
        c.pop("kernel", None)
        c.pop("nopwd", None)
        check_cmdline(ctx, c, accepted)
    flush_listen_batch(ctx)
    ctx.programs = ctx.evaluations


def replay(ctx, rp):
    """re-run a stored failing input against the real code; True if it still fails"""
    r = rp.get("replay", {})
    if "argv" in r and "method" in r:
        acc = parser_accepts(r["method"])
        print("option parser accepts --method %s: %s" % (r["method"], acc))
        return not acc
    if "case" in r and r.get("clause") == "cmdline":
        got = impl_run(r["case"], via_cmdline=r["argv"])
        print("sshuttle %s -> %s ; expected %s" % (" ".join(r["argv"]), got, r.get("expected", "USAGE 2")))
        want = r.get("expected", "USAGE 2")
        g, w_ = got.split(" "), want.split(" ")
        return not (got == want or (w_[:2] == ["EXIT", "99"] and g[0] == "EXIT" and g[1] not in ("0", "None") and g[2] == w_[2]))
    if "case" in r and r.get("clause") == "cmdline traceback":
        got = impl_run(r["case"], via_cmdline=r["argv"])
        print("%s -> %s" % (r["command_line"], got))
        return got.startswith("TRACEBACK")
    if "case" in r and r.get("clause") == "cmdline ns family":
        got = run_cmdline(r["argv"])
        ns = got if isinstance(got, str) else [[fam_of(n[0]), n[1]] for n in got[8]]
        print("sshuttle %s -> client.main nslist %s" % (" ".join(r["argv"]), ns))
        return not isinstance(got, str) and any(text_family(n[1]) != n[0] for n in ns)
    if "case" in r and r.get("clause") == "helper method":
        info = {}
        impl_run(r["case"], info=info)
        print("helper started as %r -> firewall.main%r" % ((info.get("helper_argv") or [None])[-1], info.get("helper_started_for")))
        return info.get("helper_started_for") is None or info["helper_started_for"][0] != r["case"]["method"]
    if "case" in r:
        c = r["case"]
        feats = method_features(c.get("auto_resolves", "nat") if c["method"] == "auto" else c["method"])
        impl = impl_run(c)
        bad = oracle(c, feats, impl)
        print("outcome:", impl[:400])
        print("violated clauses:", bad)
        return bool(bad)
    print("nothing replayable in", rp.get("kind"))
    return False


if __name__ == "__main__":
    sys.path.insert(0, os.path.join(os.path.dirname(os.path.abspath(__file__)), ".."))
    import framework
    sys.exit(framework.main(sys.modules[__name__]))
