"""C04 — firewall changes are undone on every exit path.

Correspondence: the real sshuttle.firewall.main drives the real method modules
(nat, nft, tproxy, pf) while every external command (iptables/ip6tables/nft via
sshuttle.linux.ssubprocess, pfctl/ioctl/kldload via sshuttle.methods.pf) is
answered by the EXTRACTED kernel model running as a co-process (drivers/c04_driver.ml,
KSET/KCMD/KGET).  The extracted `session` function is run on the same
configuration, dialogue cut, fault set and initial kernel state; the full
argv/rc trace, the exit class and the final kernel state are compared.
Oracles that look only at the implementation's run decide violations.

Logging dimension: sys.stdout / sys.stderr of the helper are streams whose k-th
operation can raise (OSError(EIO) of a hung-up terminal, BrokenPipeError,
ValueError of a closed file, ...), once or from then on, at helpers.verbose 0/1/2;
the real helpers.log / debug1 / debug2 run against them.  The same oracles apply
(a failing log write must not keep the helper from cleaning up); the runs are also
compared with the model without logging (theorem c04_log_faults_invisible) and, for
nat/nft/tproxy, with the extracted model WITH log points (sessionL), which also
fixes where the real code logs.  helpers.log's except clauses are tied to the
model's log_swallows by running the real log() on failing streams for every modelled
exception class and by a fail-closed ast check.

Foreign text: rules the session does not own carry arbitrary bytes in their comments
(and foreign chains in their names); the kernel model prints them verbatim in the
`-nL` listing that the real linux.ipt_chain_exists decodes and parses.  Such rules are
present before the session and (nat, tproxy) appear while it runs — a foreign command
applied at STARTED.  The real ipt_chain_exists is also run directly on random tables
and compared with chain_in_output / chain_in_listing and with plain membership; its
decode mode is pinned by a fail-closed ast check (codec ASCII, errors='replace').

Environment outside the packet filter (coverage-gap review): the helper's stdin may END WITH A READ ERROR instead of
EOF (ECONNRESET of the socketpair when the client died with unread data), the write / flush of STARTED may fail
(EPIPE), rewrite_etc_hosts may fail for a HOST line or at restore, the REAL flush_systemd_dns_cache runs against a
simulated `which` / resolvectl (absent, present, non-zero exit, failing to start in the try block or in the finally
block), UDP is asked of a method that refuses it, the method is chosen by the REAL get_auto_method / refused by the
REAL is_supported against a simulated PATH.  All of these are compared with the extracted session_e (Model/FwEnv.v,
theorems c04_wait_phase_invisible, c04_started_failure_is_cut, c04_read_error_is_eof) and go through the C04 oracles.

Signals (harness/props/c04_sig.py): the REAL setup_daemon and firewall.main run in a forked child whose stdin/stdout
is a real socketpair and whose stderr is a real pipe; the parent plays the client and the kernel (every command of
the child is answered by the same kernel model), and sends REAL SIGHUP / SIGPIPE / SIGINT / SIGTERM at chosen
moments (before GO, at the k-th command of set-up, while waiting, at the k-th command of tear-down), lets the client
die (channel closed with or without unread data, terminal hang-up, stderr reader gone) and checks that the helper is
never killed by a signal, relays SIGINT/SIGTERM as SIGINT to the pid named in GO, terminates once the channel is
closed, issues the same commands as the signal-free in-process run, and leaves the packet filter as the C04 oracles
demand."""
import ast
import copy
import errno
import io
import os
import random
import struct
import subprocess
import sys
from socket import AF_INET, AF_INET6

sys.path.insert(0, os.path.dirname(os.path.abspath(__file__)))
import c04_sig  # noqa: E402

PROP = "C04"
RULE = ("sessions = method (nat, nft, tproxy, pf on FreeBSD/OpenBSD/Darwin) x plan (0-4 subnets and 0-2 name servers per family, "
        "with/without UDP (tproxy), user/group (nat)) x initial kernel state (empty, foreign rules and chains, a second instance "
        "on port p*10 or p+1 built by the real set-up, stale residue of an earlier faulted session) x exit path (dialogue cut after "
        "every line incl. mid-line, every single failing command index k, sampled double faults, a non-HOST line in the wait loop) "
        "x foreign free text (comments of foreign rules before and after the session's hooks, in foreign chains and inside the other "
        "instance's chains, legal foreign chain names: Latin-1 and other bytes that are not UTF-8, lone continuation bytes, overlong / "
        "surrogate / out-of-range sequences, valid 2-4 byte UTF-8, control characters, the text of an own chain's header on the same line) "
        "x foreign change while the session runs (nat, tproxy: a comment rule of each text class appended/inserted after STARTED into a "
        "chain of the table listed at tear-down, and of another table; with cuts and tear-down command faults) "
        "x environment outside the packet filter (stdin ending with a read error of 5 OSError classes or a non-OSError class at section "
        "boundaries and inside the wait loop; write / flush of STARTED failing; rewrite_etc_hosts failing at each HOST line and at restore; "
        "resolvectl / systemd-resolve absent, present, exiting non-zero, failing to start or to be waited for in the try block and in the "
        "finally block; UDP asked of nat / nft / pf; `auto` and explicit methods against PATHs with and without their programs) "
        "x slow commands (the k-th external command of set-up / tear-down -- quick: every tear-down command and up to 24 per plan, thorough: every "
        "k -- windows of consecutive commands, all commands, with cuts and with a failing command, takes longer than any timeout the code "
        "passes to subprocess: every method; the stand-in raises subprocess.TimeoutExpired iff the code passed a timeout) "
        "x signals (real helper process: SIGHUP, SIGPIPE, SIGINT, SIGTERM and pairs of them before GO, at sampled / thorough: every command "
        "of set-up and tear-down, while waiting; the client dying at those moments with and without unread output, terminal hang-up, dead "
        "stderr; -v 0..2; setsid refused; with a failing command; the client's pid gone when the helper is signalled); "
        "a case is non-trivial when at least one external command was issued or the cut fell inside the dialogue; distinct by content hash")
TRUSTED_BASE = [
    "commands outside the model: the kernel model also answers `nft create chain` (not issued by methods/nft.py: succeeds as `add chain` on a fresh name, fails with EEXIST on an existing chain or a missing table; validated against the real nft in a network namespace; c04_nft_create_chain_exact, c04_nft_create_chain_not_reentrant, c04_nft_create_over_leftover vs. c04_nft_add_chain_reentrant). Any other command the model cannot parse is answered as a failing command without effect, the run goes on, and the command is reported with the input that produced it as a break of the correspondence (report_unknown) - the check never stops on it, so the implementation-side oracles (identity, nothing own remains, a later session on the same port can start) still judge the run",
    "modelled, not verified: iptables/ip6tables/nft/pfctl command semantics of coq/Model/FwLife.v (DESIGN Appendix B): -N fails if the chain exists, -F empties, -X fails if absent/non-empty/referenced, -I c 1 prepends, -A appends, -D removes the first equal rule, -nL prints one 'Chain <name> (' header per chain; nft add table/chain idempotent, delete table removes everything; pf anchors replaced atomically, -e/-d fail when already in that state, Darwin -E/-X reference tokens, kldload fails when loaded; a failing command has no effect",
    "rules are opaque argv token lists; only the token after '-j' is interpreted (jump target); the rule bodies of a plan are taken from the fault-free run of the real set-up (their meaning is C03's subject)",
    "`iptables -nL` as modelled (validated by hand against iptables 1.8.9 in a network namespace): per chain a 'Chain <name> (...)' header with the name verbatim, a column header, one line per rule starting with the target name padded to 9 columns, then the rule's text with comment bytes VERBATIM (the model prints all argv tokens of the rule verbatim), a blank line; chain names contain no white space (iptables refuses them) but any other byte",
    "no rule text contains a line feed: iptables accepts one inside --comment and prints it verbatim, which forges listing lines (finding F90; the session model tests the listing line by line, c04_output_lines / c04_chain_exists_bytes_exact relate that to the raw bytes under tbl_nolf); no NUL bytes (C strings)",
    "pf cannot be validated against a real kernel on this image (no BSD): pfctl -f replacing the main ruleset, kldunload discarding all pf state",
    "a foreign change while the session runs is ONE command of another tool applied to the kernel model at the moment the helper writes STARTED (appending/inserting a comment rule into a chain the session does not own); the model's session has no such event: the harness compares the session's own commands with the event-free model run and the final state with the model's final state plus that command",
    "harness, in-process runs: monkey-patched sshuttle.linux.ssubprocess / pf.ssubprocess (call, check_output, Popen: the real pf.pfctl runs) / firewall.ssubprocess (Popen + wait of the resolver-cache flush: the real flush_systemd_dns_cache runs) / pf.ioctl / pf.pf_get_dev / firewall.setup_daemon (scripted stdin and stdout, either of which can raise) / rewrite_etc_hosts (recorder that can raise) / helpers.which and the methods' `which` (a simulated PATH, silent: the real one logs at debug2; the real is_supported and get_auto_method run) / the name `os` in sshuttle.firewall (real module; _exit ends the simulated helper instead of the check); set-up/restore entry points wrapped to record phase marks; sys.stdout / sys.stderr replaced by recording streams that raise the injected exception",
    "harness, the subprocess stand-in honours the keyword arguments the code passes: call / check_output / Popen(...).communicate(input, timeout) / Popen(...).wait take **kw; a command scripted as slow (World.slow: takes longer than ANY timeout) is killed without effect on the packet filter and subprocess.TimeoutExpired(argv, timeout) is raised if and only if a timeout was passed, otherwise it runs and answers as usual (time itself is not simulated: there is no clock, `slow` means `longer than whatever bound the code set`); env, stdin/stdout/stderr and every other keyword are recorded per API and tool in the evidence (subprocess_keyword_arguments) and compared with what linux.py / pf.py / firewall.py are read to pass (env=get_env() = PATH + LC_ALL=C, pipes for pfctl and the resolver flush, no timeout) -- a deviation is reported as a break of the correspondence; the content of PATH and the effect of LC_ALL on the tools' output are not simulated",
    "harness, signal runs (c04_sig.py): the helper is a forked child of the check running the REAL setup_daemon (signal dispositions, setsid) and firewall.main on a real socketpair (stdin/stdout) and a real pipe (stderr) with real sys.std* objects; before main runs the child restores the dispositions of a freshly started CPython (SIGINT -> KeyboardInterrupt, SIGTERM/SIGHUP default, SIGPIPE ignored BY THE INTERPRETER — so line firewall.py:106 cannot be told from its absence, as in a real helper); every external command is answered by the parent's kernel model over a pipe; the name `os` in sshuttle.firewall is a proxy that delivers kill() only if it is SIGINT for the check's own pid or aims at a pid above PID_MAX_LIMIT (the kernel then answers ESRCH: 'the client is gone') and records everything else without delivering it; the client is played by the check itself (it closes the channel when it receives the relayed SIGINT, as client.py's finally block does; it 'dies' by closing the channel, with SIGHUP to the helper for the terminal going away and by closing the read end of the stderr pipe); a signal 'at command k' is sent while the child is blocked waiting for the answer to its k-th command, which the kernel model then still executes",
    "Model/FwEnv.v (session_e): read errors, STARTED write failures, hosts-file failures and resolver-flush failures are OUTCOMES given to the model; which exception classes a socket / pipe / file really raises is not modelled (any class is allowed; `except IOError` = subclass of OSError)",
    "logging: a stream operation either succeeds or raises an instance of a built-in exception class (Model/FwLog.v lists Exception and 35 built-in classes below it; single inheritance, compared with issubclass on every pair; sshuttle's own Fatal is never raised by a stream); every sys.stdout.flush() on this code path is the first statement of a helpers.log call (used to delimit log calls); verbosity 3 (debug3) is not exercised",
]
ASSUMPTIONS = [
    "a failing external command changes nothing (no partial effect) and at most the injected commands fail",
    "no other process changes the packet filter while the session runs (the other instance's objects are present but static) — except, in the harness, one foreign rule added between STARTED and the tear-down (nat, tproxy)",
    "the kernel answers SIGKILL of the client / a closed control channel as EOF on the helper's stdin (modelled as a cut) — or, when the client died with unread helper output, as ECONNRESET (Model/FwEnv.v CErr; produced for real on the socketpair of the signal runs); SIGTERM/SIGHUP of the client = the same plus SIGHUP / EPIPE / EIO for the helper when terminal and stderr go with it",
    "signals reach the helper only at the moments the signal runs choose (Python-level handlers run between bytecodes or on EINTR of a blocking call); a handler interrupting helpers.log in the middle of a stderr write (re-entrant BufferedWriter) is not produced",
    "body rules of a plan only jump to built-in targets or, for tproxy's tproxy chain, to the divert chain (checked on every generated plan)",
    "the general theorems c04_nat_all_exits / c04_tproxy_all_exits / c04_nft_all_exits (every plan body, every initial kernel state, every k, every cut) assume: "
    "chain names without blanks and built-in OUTPUT/PREROUTING present in every iptables table (kst_wf), ports printed in 7-bit ASCII without blanks (pname_ok: they are decimal numbers, so the chain names the helper looks for are ASCII), the initial state holds "
    "no object named for the session's own ports (erase c s0 = s0; anything else is allowed), tproxy bodies respect the restore order (tp_body_ordered), "
    "nft body rules name a chain nft.py creates (nft_body_ok); nat with --user/--group (c04_all_exits_full) additionally excludes exactly the F41 command (a failing tear-down `-t mangle -D OUTPUT ... MARK`); pf (c04_pf_identity for fault-free exits; c04_pf_every_exit / c04_pf_all_exits / c04_pf_flush_ok_clean / c04_pf_restartable for EVERY set of failing pfctl/kldload commands, excluding exactly a failing tear-down `pfctl -d` / `pfctl -X <token>` = finding F150 (a failing flush only leaves its own anchor's content, which the next session removes), and with F43 characterised as `the first two set-up commands succeed`) assumes anchor names of the main ruleset and ports without newline, no anchor named for the session's ports in the start state, on Darwin the next two -E tokens not outstanding, and for the main ruleset itself FreeBSD or no `set skip on lo`",
    "chain listing: c04_chain_exists_exact (the line-by-line test the session model uses) holds for ARBITRARY bytes in rule text and in the other chains' names; "
    "c04_chain_exists_bytes_exact (decode + split on the raw output, as the code does it) needs rule text and chain names without line feeds (tbl_nolf; F90 otherwise)",
    "log faults: the theorems c04_log_total / c04_log_faults_invisible / c04_log_faults_same_commands assume that every exception a write or flush of the "
    "helper's stdout/stderr raises is an OSError or a ValueError (any subclass) — what the except clauses of helpers.log name; sessionL models the log "
    "points of nat, nft and tproxy sessions (pf logs inside pfctl(): harness only)",
]

HERE = os.path.dirname(os.path.abspath(__file__))


def hx(b):
    if isinstance(b, str):
        b = b.encode()
    return b.hex() if b else "-"


def unhx(s):
    return b"" if s == "-" else bytes.fromhex(s)


# ---------------------------------------------------------------- state encoding (mirrors drivers/c04_driver.ml)
def enc_rule(r):
    return ".".join(hx(t) for t in r)


def enc_table(t):
    if not t:
        return "-"
    return ";".join("%s:%s" % (hx(n), ",".join(enc_rule(r) for r in rs)) for n, rs in t)


def dec_rule(s):
    return [] if s == "" else [unhx(x) for x in s.split(".")]


def dec_table(s):
    if s == "-":
        return []
    out = []
    for c in s.split(";"):
        n, _, rest = c.partition(":")
        out.append((unhx(n), [dec_rule(r) for r in rest.split(",")] if rest else []))
    return out


def enc_state(st):
    nft = "|".join("%s=%s" % (hx(n), enc_table(t)) for n, t in st["nft"]) or "-"
    p = st["pf"]
    pf = ",".join(["1" if p["loaded"] else "0", "1" if p["on"] else "0", ".".join(hx(t) for t in p["refs"]),
                   str(p["next"]), "1" if p["skip"] else "0", ".".join(hx(t) for t in p["main"]),
                   "+".join(("r." if r else "p.") + hx(a) for r, a in p["calls"]),
                   "+".join(hx(a) + "." + hx(t) for a, t in p["anchors"])])
    return " ".join([enc_table(st["v6nat"]), enc_table(st["v6mangle"]), enc_table(st["v4nat"]),
                     enc_table(st["v4mangle"]), nft, pf])


def dec_state(s):
    f = s.split(" ")
    assert len(f) == 6, s
    nft = []
    if f[4] != "-":
        for x in f[4].split("|"):
            n, _, t = x.partition("=")
            nft.append((unhx(n), dec_table(t)))
    q = f[5].split(",")
    pf = {"loaded": q[0] == "1", "on": q[1] == "1", "refs": [unhx(x) for x in q[2].split(".")] if q[2] else [],
          "next": int(q[3]), "skip": q[4] == "1", "main": [unhx(x) for x in q[5].split(".")] if q[5] else [],
          "calls": [(c[0] == "r", unhx(c[2:])) for c in q[6].split("+")] if q[6] else [],
          "anchors": [tuple(unhx(y) for y in c.split(".")) for c in q[7].split("+")] if q[7] else []}
    return {"v6nat": dec_table(f[0]), "v6mangle": dec_table(f[1]), "v4nat": dec_table(f[2]),
            "v4mangle": dec_table(f[3]), "nft": nft, "pf": pf}


NAT_BUILTIN = [b"PREROUTING", b"INPUT", b"OUTPUT", b"POSTROUTING"]
MANGLE_BUILTIN = [b"PREROUTING", b"INPUT", b"FORWARD", b"OUTPUT", b"POSTROUTING"]
BUILTIN = set(MANGLE_BUILTIN)


def empty_state():
    return {"v6nat": [(n, []) for n in NAT_BUILTIN], "v6mangle": [(n, []) for n in MANGLE_BUILTIN],
            "v4nat": [(n, []) for n in NAT_BUILTIN], "v4mangle": [(n, []) for n in MANGLE_BUILTIN],
            "nft": [],
            "pf": {"loaded": True, "on": False, "refs": [], "next": 1, "skip": False, "main": [], "calls": [], "anchors": []}}


# ---------------------------------------------------------------- the kernel co-process
class Kernel:
    def __init__(self, driver):
        self.p = subprocess.Popen(["bash", "-c", "ulimit -s unlimited 2>/dev/null; exec %s" % driver],
                                  stdin=subprocess.PIPE, stdout=subprocess.PIPE)
        self.unknown = []        # argv of every command the kernel model could not parse (see cmd)

    def ask(self, line):
        self.p.stdin.write(line.encode() + b"\n")
        self.p.stdin.flush()
        r = self.p.stdout.readline().decode().rstrip("\n")
        if r.startswith("ERROR"):
            raise RuntimeError("kernel co-process: %s on %s" % (r, line[:300]))
        return r

    def set(self, enc):
        assert self.ask("KSET " + enc) == "OK"

    def get(self):
        return self.ask("KGET")

    def cmd(self, argv, stdin=b"", fault=False):
        """one external command against the held state.  A command the kernel model does not know (parse_cmd = None,
        Model/FwLife.v) is NOT a reason to stop the check: it is recorded in `self.unknown` (the caller reports it together
        with the input that produced it) and answered the way the real tools answer something they cannot carry out:
        non-zero exit, nothing written to stdout, state unchanged.  (`nft create chain` is known to the model: fails with
        EEXIST on an existing chain, checked against the real nft in a namespace.)"""
        line = "KCMD %d %s %s" % (1 if fault else 0, hx(stdin), " ".join(hx(a) for a in argv))
        self.p.stdin.write(line.encode() + b"\n")
        self.p.stdin.flush()
        r = self.p.stdout.readline().decode().rstrip("\n")
        if r == "ERROR unparsed":
            self.unknown.append(list(argv))
            return 1, b"", b"Error: command not known to the kernel model"
        if r.startswith("ERROR") or not r:
            raise RuntimeError("kernel co-process: %s on %s" % (r, line[:300]))
        rc, out, err = r.split(" ")
        return int(rc), unhx(out), unhx(err)

    def close(self):
        try:
            self.p.stdin.close()
            self.p.wait(timeout=5)
        except Exception:
            self.p.kill()


# ---------------------------------------------------------------- running the real helper
# exception classes a stream operation may raise (names as in coq/Model/FwLog.v / drivers/c04_driver.ml)
LOG_CLASS_NAMES = [
    "Exception", "OSError", "BlockingIOError", "ChildProcessError", "ConnectionError", "BrokenPipeError",
    "ConnectionAbortedError", "ConnectionRefusedError", "ConnectionResetError", "FileExistsError", "FileNotFoundError",
    "InterruptedError", "IsADirectoryError", "NotADirectoryError", "PermissionError", "ProcessLookupError", "TimeoutError",
    "ValueError", "UnicodeError", "UnicodeEncodeError", "UnicodeDecodeError", "UnicodeTranslateError",
    "RuntimeError", "RecursionError", "NotImplementedError", "TypeError", "AttributeError", "LookupError", "KeyError",
    "IndexError", "ArithmeticError", "ZeroDivisionError", "MemoryError", "AssertionError", "EOFError", "BufferError"]
# what a dead / closed / non-blocking / mis-encoded stream really raises: the oracles apply to these
LOG_REALISTIC = ["OSError", "BrokenPipeError", "ValueError", "BlockingIOError", "UnicodeEncodeError", "InterruptedError",
                 "ConnectionResetError", "TimeoutError", "PermissionError"]
_OS_ERRNO = {"OSError": errno.EIO, "BlockingIOError": errno.EAGAIN, "ChildProcessError": errno.ECHILD,
             "ConnectionError": None, "BrokenPipeError": errno.EPIPE, "ConnectionAbortedError": errno.ECONNABORTED,
             "ConnectionRefusedError": errno.ECONNREFUSED, "ConnectionResetError": errno.ECONNRESET,
             "FileExistsError": errno.EEXIST, "FileNotFoundError": errno.ENOENT, "InterruptedError": errno.EINTR,
             "IsADirectoryError": errno.EISDIR, "NotADirectoryError": errno.ENOTDIR, "PermissionError": errno.EACCES,
             "ProcessLookupError": errno.ESRCH, "TimeoutError": errno.ETIMEDOUT}


def log_class(name):
    import builtins
    return getattr(builtins, name)


def make_exc(name):
    """an instance of exactly the named class, as a stream would raise it"""
    cls = log_class(name)
    if name in _OS_ERRNO:
        e = cls(_OS_ERRNO[name], os.strerror(_OS_ERRNO[name])) if _OS_ERRNO[name] else cls("connection error")
    elif name in ("UnicodeEncodeError", "UnicodeTranslateError"):
        e = cls("ascii", "\u20ac", 0, 1, "ordinal not in range(128)") if name == "UnicodeEncodeError" \
            else cls("\u20ac", 0, 1, "cannot translate")
    elif name == "UnicodeDecodeError":
        e = cls("ascii", b"\xff", 0, 1, "ordinal not in range(128)")
    elif name == "ValueError":
        e = cls("I/O operation on closed file")
    else:
        e = cls("injected by the C04 harness")
    assert type(e) is cls, (name, type(e))
    return e


class LogStream:
    """stands for sys.stdout (kind 'out') / sys.stderr (kind 'err') of the helper"""

    def __init__(self, world, kind):
        self.world, self.kind = world, kind

    def write(self, s):
        self.world.logop(self.kind, "write")
        return len(s)

    def flush(self):
        self.world.logop(self.kind, "flush")

    def isatty(self):
        return False


class World:
    """the simulated boundary for one run of firewall.main"""

    def __init__(self, kernel, faults, snapshots=False, log=None, event=None, env=None):
        self.k = kernel
        # what is outside the packet filter (see run_real): {"programs": [...], "resolver": {"tool", "rv": {"setup","teardown"},
        #   "raise": [phase, "popen"|"wait", cls]}, "read_error": cls, "started_error": ["write"|"flush", cls],
        #   "hosts_error": ["loop", cls, k] | ["restore", cls]}
        self.env = env or {}
        self.programs = set(self.env.get("programs", DEFAULT_PROGRAMS))
        tool = (self.env.get("resolver") or {}).get("tool")
        if tool:
            self.programs.add(tool)
        self.hosts_calls = 0
        self.flush_log = []       # (phase, argv) of every resolver-cache flush command
        self.which_asked = []
        self.ready = None         # the method name of the READY line
        self.dead = False         # os._exit was called
        # a foreign tool changes the packet filter while the session runs: argv (hex tokens) of ONE command applied to the
        # kernel when the helper reports STARTED; it is not a command of the session (no fault index, not in the trace)
        self.event = event
        self.event_rc = None
        self.faults = set(faults)
        self.n = 0
        self.trace = []
        self.snap = [] if snapshots else None
        self.in_setup = False
        # logging environment: log = {"v": verbosity, "k": index of the first failing operation (None = none),
        #   "mode": "once"|"from", "cls": class name, "both": stdout.flush counts and fails as well}
        self.log = log or {}
        self.calls = 0           # log calls begun (every log() starts with sys.stdout.flush())
        self.iop = 0             # operation index inside the current log call
        self.ops = 0             # operations the fault index counts
        self.ops_all = 0
        self.fired = None        # (call j, operation i) of the first injected exception
        self.nfired = 0
        self.fired_after_started = False
        self.ops_started = None  # (counted, all) operations seen when STARTED was written
        self.anomaly = None
        self.unknown = []        # commands of this run the kernel model does not know (hex argv)
        # slow commands: indices (the fault index: countable commands of this run) of commands that take longer than ANY
        # timeout the code passes to subprocess (a foreign program holds the xtables lock, `iptables -w` waits): the
        # stand-in then does what subprocess.call / check_output / Popen.communicate do -- the child is killed (no effect
        # on the packet filter) and subprocess.TimeoutExpired is raised -- and NOT if the code passed no timeout (the
        # command then is only late: it runs and answers as usual)
        self.slow = set(self.env.get("slow") or [])
        self.timeouts = []       # (index, argv text, the timeout the code passed) of every TimeoutExpired raised

    def note_call(self, api, argv, kw):
        """called by the subprocess stand-in before a command runs: records the keyword arguments the code passes
        for this tool, and plays a slow command"""
        record_kwargs(api, argv, kw)
        if self.dead:
            return
        t = kw.get("timeout")
        if self.n in self.slow and t is not None:
            idx = self.n
            self.n += 1
            av = [a.encode() if isinstance(a, str) else a for a in argv]
            self.trace.append("T:%s" % ".".join(hx(a) for a in av))
            if self.snap is not None:
                self.snap.append(self.k.get())
            self.timeouts.append([idx, b" ".join(av).decode("latin-1"), t])
            raise subprocess.TimeoutExpired(list(argv), t)

    def logop(self, kind, what):
        if kind == "out":
            if what != "flush":
                self.anomaly = "write to sys.stdout"
                return
            self.calls += 1
            self.iop = 0
        else:
            self.iop += 1
            if self.calls == 0:
                self.anomaly = "write to sys.stderr outside helpers.log"
        self.ops_all += 1
        lf = self.log
        if kind == "out" and not lf.get("both"):
            return
        idx = self.ops
        self.ops += 1
        k = lf.get("k")
        if k is None:
            return
        if idx == k or (idx > k and lf["mode"] == "from"):
            if self.fired is None:
                self.fired = (self.calls - 1, self.iop)
                self.fired_after_started = self.ops_started is not None
            self.nfired += 1
            raise make_exc(lf["cls"])

    def external(self, argv, stdin=b"", countable=True):
        if self.dead:             # the helper process has ended (os._exit): nothing it "does" afterwards happens
            return 1, b"", b""
        argv = [a.encode() if isinstance(a, str) else a for a in argv]
        fault = countable and self.n in self.faults
        if countable:
            self.n += 1
        nu = len(self.k.unknown)
        rc, out, err = self.k.cmd(argv, stdin, fault)
        if len(self.k.unknown) > nu:
            self.unknown.append([hx(a) for a in argv])
        self.trace.append("%d:%s%s" % (rc, ".".join(hx(a) for a in argv), (":" + hx(stdin)) if stdin else ""))
        if self.snap is not None:
            self.snap.append(self.k.get())
        return rc, out, err

    def mark(self, m):
        self.trace.append("M:" + m)
        if m == "started":
            self.ops_started = (self.ops, self.ops_all)
            if self.event:
                self.event_rc = self.k.cmd([unhx(x) for x in self.event])[0]


DEFAULT_PROGRAMS = ("iptables", "ip6tables", "nft", "pfctl")


class FlushShim:
    """stands for the `subprocess` module inside sshuttle.firewall (flush_systemd_dns_cache, firewall.py:162-190)"""
    PIPE = subprocess.PIPE

    def __init__(self, shim):
        self.shim = shim

    def Popen(self, argv, **kw):
        w = self.shim.world
        record_kwargs("Popen+wait", argv, kw)
        phase = "teardown" if any(t.startswith("M:restore") for t in w.trace) else "setup"
        w.flush_log.append((phase, list(argv)))
        r = w.env.get("resolver") or {}
        rs = r.get("raise")
        if rs and rs[0] == phase and rs[1] == "popen":
            raise make_exc(rs[2])

        class Proc:
            def wait(self):
                if rs and rs[0] == phase and rs[1] == "wait":
                    raise make_exc(rs[2])
                return (r.get("rv") or {}).get(phase, 0)
        return Proc()


class SubprocessShim:
    """stands for the `subprocess` module inside sshuttle.linux / sshuttle.methods.pf"""
    CalledProcessError = subprocess.CalledProcessError
    PIPE = subprocess.PIPE

    def __init__(self):
        self.world = None

    TimeoutExpired = subprocess.TimeoutExpired
    DEVNULL = subprocess.DEVNULL
    STDOUT = subprocess.STDOUT

    def _note(self, api, argv, kw):
        """the keyword arguments are honoured as subprocess honours them: a timeout makes a slow command raise
        TimeoutExpired (World.note_call); all of them are recorded per tool (KW_SEEN) and compared with KW_EXPECTED"""
        note = getattr(self.world, "note_call", None)
        if note is not None:
            note(api, argv, kw)
        else:
            record_kwargs(api, argv, kw)

    def call(self, argv, **kw):
        self._note("call", argv, kw)
        return self.world.external(argv)[0]

    def check_output(self, argv, **kw):
        self._note("check_output", argv, kw)
        rc, out, _ = self.world.external(argv)
        if rc:
            raise subprocess.CalledProcessError(rc, argv)
        return out

    def Popen(self, argv, **kw):
        """pf.pfctl (pf.py:387-402): Popen(...).communicate(stdin), .returncode"""
        shim = self

        class Proc:
            returncode = None

            def communicate(self, input=None, timeout=None):
                shim._note("Popen+communicate", argv, dict(kw, **({"timeout": timeout} if timeout is not None else {})))
                rc, out, err = shim.world.external(argv, input or b"")
                self.returncode = rc
                return (out, err)
        return Proc()


# ---- which keyword arguments the code passes to subprocess, per API and tool (evidence; a change is a disagreement)
KW_SEEN = {}        # "api tool" -> {canonical keyword text: number of commands}
KW_EXPECTED = {     # read off linux.py:22,38,49 and pf.py:185,195,394-397: env=get_env() (PATH, LC_ALL=C), no timeout
    "call": "env={LC_ALL=C,PATH}",
    "check_output": "env={LC_ALL=C,PATH}",
    "Popen+communicate": "env={LC_ALL=C,PATH} stderr=PIPE stdin=PIPE stdout=PIPE",
    "Popen+wait": "env={LC_ALL=C,PATH} stdout=PIPE",        # firewall.py:185-191, the resolver-cache flush
}


def canon_kwargs(kw):
    out = []
    for k in sorted(kw):
        v = kw[k]
        if k == "env" and isinstance(v, dict):
            t = "{" + ",".join(("%s=%s" % (n, v[n])) if n != "PATH" else "PATH" for n in sorted(v)) + "}"
        elif v is subprocess.PIPE:
            t = "PIPE"
        elif v is subprocess.DEVNULL:
            t = "DEVNULL"
        elif v is subprocess.STDOUT:
            t = "STDOUT"
        elif v is None or isinstance(v, (int, float, str, bool)):
            t = repr(v)
        else:
            t = type(v).__name__
        out.append("%s=%s" % (k, t))
    return " ".join(out)


def record_kwargs(api, argv, kw):
    tool = argv[0] if argv else ""
    tool = tool.decode("latin-1") if isinstance(tool, bytes) else str(tool)
    d = KW_SEEN.setdefault("%s %s" % (api, tool), {})
    c = canon_kwargs(kw)
    d[c] = d.get(c, 0) + 1


_LOADED = {}


def load_real():
    """import the real modules once and install the boundary"""
    if _LOADED:
        return _LOADED
    import sshuttle.helpers as helpers
    import sshuttle.firewall as firewall
    import sshuttle.linux as linux
    import sshuttle.methods.nat as m_nat
    import sshuttle.methods.nft as m_nft
    import sshuttle.methods.tproxy as m_tproxy
    import sshuttle.methods.pf as m_pf
    import sshuttle.methods.ipfw as m_ipfw
    shim = SubprocessShim()
    linux.ssubprocess = shim
    m_pf.ssubprocess = shim
    firewall.ssubprocess = FlushShim(shim)
    L = _LOADED
    L.update(helpers=helpers, firewall=firewall, linux=linux, nat=m_nat, nft=m_nft, tproxy=m_tproxy, pf=m_pf, shim=shim,
             pf_context0=copy.deepcopy(m_pf._pf_context), setup_daemon0=firewall.setup_daemon,
             rewrite_etc_hosts0=firewall.rewrite_etc_hosts, pf0=m_pf.pf)

    def fake_which(name, *a, **k):
        """the PATH look-up (helpers.which -> shutil.which): answered from the simulated PATH; silent (the real one
        logs at debug2)"""
        w = shim.world
        w.which_asked.append(name)
        return ("/usr/sbin/" + name) if name in w.programs else None
    helpers.which = fake_which
    for mod in (m_nat, m_nft, m_tproxy, m_pf, m_ipfw):
        mod.which = fake_which

    def fake_ioctl(dev, req, buf):
        pfo = m_pf.pf
        if req == pfo.DIOCCHANGERULE:
            raw = bytes(buf)
            action = struct.unpack("I", raw[pfo.ACTION_OFFSET:pfo.ACTION_OFFSET + 4])[0]
            if action == pfo.PF_CHANGE_ADD_TAIL:
                name = raw[pfo.ANCHOR_CALL_OFFSET:pfo.ANCHOR_CALL_OFFSET + pfo.MAXPATHLEN].split(b"\0")[0]
                kind = struct.unpack("I", raw[pfo.RULE_ACTION_OFFSET:pfo.RULE_ACTION_OFFSET + 4])[0]
                shim.world.external(["ioctl-add-anchor", "rdr" if kind == pfo.PF_RDR else "pass", name], countable=False)
        return 0

    m_pf.ioctl = fake_ioctl
    m_pf.pf_get_dev = lambda: 99

    for mod in (m_nat, m_nft, m_tproxy, m_pf):
        cls = mod.Method
        orig_setup, orig_restore = cls.setup_firewall, cls.restore_firewall

        def setup(self, port, dnsport, nslist, family, *a, _o=orig_setup):
            shim.world.mark("setup6" if family == AF_INET6 else "setup4")
            shim.world.in_setup = True
            try:
                return _o(self, port, dnsport, nslist, family, *a)
            finally:
                shim.world.in_setup = False

        def restore(self, port, family, *a, _o=orig_restore):
            if not shim.world.in_setup:       # set-up's own call of restore_firewall is not a phase
                shim.world.mark("restore6" if family == AF_INET6 else "restore4")
            return _o(self, port, family, *a)
        cls.setup_firewall, cls.restore_firewall = setup, restore
    return L


class Out:
    def __init__(self, world):
        self.world = world
        self.pending_started = False

    def write(self, b):
        if b.startswith(b"READY "):
            self.world.ready = b[6:].rstrip(b"\n").decode("latin-1")
        if b == b"STARTED\n":
            self.world.mark("started")
            self.pending_started = True
            e = self.world.env.get("started_error")
            if e and e[0] == "write":
                raise make_exc(e[1])

    def flush(self):
        if self.pending_started:
            self.pending_started = False
            e = self.world.env.get("started_error")
            if e and e[0] == "flush":
                raise make_exc(e[1])


class In:
    """the helper's stdin: the bytes of `data`, then EOF — or, with env read_error, an exception of readline (a buffered
    reader that meets the error while looking for the end of a line raises without handing out the partial line)"""

    def __init__(self, data, err):
        self.f, self.err = io.BytesIO(data), err

    def readline(self, *a):
        line = self.f.readline(*a)
        if self.err and not line.endswith(b"\n"):
            raise make_exc(self.err)
        return line


class HelperExit(BaseException):
    """os._exit called by the helper (in-process runs): the process is gone, no finally block runs"""


class InProcOs:
    """the name `os` inside sshuttle.firewall for in-process runs: the real module, except that _exit ends the simulated
    helper process (everything it would still do is without effect) instead of the check"""

    def __init__(self, world):
        self._w = world

    def __getattr__(self, name):
        return getattr(os, name)

    def _exit(self, code=0):
        self._w.dead = True
        raise HelperExit(code)


def prepare_method(L, method):
    """-> the name firewall.main is given; installs the pf flavour and a fresh pf context"""
    pfm = L["pf"]
    name = method
    if method.startswith("pf-"):
        name = "pf"
        pfm.pf = {"pf-freebsd": pfm.FreeBsd, "pf-openbsd": pfm.OpenBsd, "pf-darwin": pfm.Darwin, "pf-pfsense": pfm.PfSense}[method]()
        pfm._pf_context.clear()
        pfm._pf_context.update(copy.deepcopy(L["pf_context0"]))
    return name


def hosts_recorder(w):
    """stands for rewrite_etc_hosts (C14's subject): records the restore, raises what env hosts_error says"""
    def hosts(hostmap, port):
        he = w.env.get("hosts_error")
        if not hostmap:
            w.mark("hosts")
            if he and he[0] == "restore":
                raise make_exc(he[1])
        else:
            k = w.hosts_calls
            w.hosts_calls += 1
            if he and he[0] == "loop" and he[2] == k:
                raise make_exc(he[1])
    return hosts


def fin_at_of(trace, n):
    fin_at = 0
    for t in trace:
        if t.startswith("M:restore"):
            return fin_at
        if not t.startswith("M:") and not t.split(":")[1].startswith(hx(b"ioctl-add-anchor")):
            fin_at += 1
    return n


def run_real(kernel, method, state_enc, data, faults, snapshots=False, log=None, event=None, env=None, invoke=None):
    """method: nat|nft|tproxy|pf-freebsd|pf-openbsd|pf-darwin; data: the bytes the helper can read;
    log: the logging environment (see World); event: a foreign command applied at STARTED (see World);
    env: what is outside the packet filter (see World); invoke: the method name firewall.main is given instead of
    the plan's ("auto").
    returns dict(outcome, trace, final, fin_at, snaps, nlog, log_fired, ...)"""
    L = load_real()
    fw, pfm = L["firewall"], L["pf"]
    kernel.set(state_enc)
    w = World(kernel, faults, snapshots, log, event, env)
    L["shim"].world = w
    name = prepare_method(L, method)
    if invoke:
        name = invoke
    fw.setup_daemon = lambda: (In(data, w.env.get("read_error")), Out(w))
    fw.rewrite_etc_hosts = hosts_recorder(w)
    fw.os = InProcOs(w)
    old_err, old_out = sys.stderr, sys.stdout
    sys.stderr = LogStream(w, "err")
    sys.stdout = LogStream(w, "out")
    L["helpers"].verbose = int((log or {}).get("v", 0))
    crash = None
    try:
        try:
            fw.main(name, False)
            outcome = "RETURN"
        except L["helpers"].Fatal:
            outcome = "FATAL"
        except Exception as e:       # noqa
            outcome = "CRASH"
            crash = repr(e)
        except BaseException as e:       # noqa  SystemExit / KeyboardInterrupt / os._exit: the helper ended itself
            outcome = "EXITED"
            crash = repr(e)
    finally:
        sys.stderr, sys.stdout = old_err, old_out
        L["helpers"].verbose = 0
        fw.os = os
    fin_at = fin_at_of(w.trace, w.n)
    py = ""
    if method.startswith("pf-"):
        c = pfm._pf_context
        py = "%d,%d,%s" % (c["started_by_sshuttle"], 1 if c["loaded_by_sshuttle"] else 0, ".".join(hx(t) for t in c["Xtoken"]))
    return {"outcome": outcome, "trace": w.trace, "final": kernel.get(), "ncmds": w.n, "fin_at": fin_at,
            "snaps": w.snap, "py": py, "crash": crash, "nlog": w.calls, "log_fired": w.fired, "log_nfired": w.nfired,
            "log_ops": w.ops, "log_ops_all": w.ops_all, "ops_started": w.ops_started, "log_anomaly": w.anomaly,
            "log_fired_after_started": w.fired_after_started, "event_rc": w.event_rc,
            "ready": w.ready, "flush_log": w.flush_log, "which_asked": w.which_asked, "unknown": w.unknown,
            "timeouts": w.timeouts}


# ---------------------------------------------------------------- plans and dialogues
class Plan:
    def __init__(self, method, p6, p4, sub6, sub4, ns6, ns4, udp=False, user=None, group=None, hosts=0, bogus=False):
        self.method, self.p6, self.p4 = method, p6, p4
        self.sub6, self.sub4, self.ns6, self.ns4 = sub6, sub4, ns6, ns4
        self.udp, self.user, self.group, self.hosts, self.bogus = udp, user, group, hosts, bogus

    def header(self, pid=12345):
        ls = ["ROUTES"]
        for (w, ex, ip, fp, lp) in self.sub6:
            ls.append("%d,%d,%d,%s,%d,%d" % (AF_INET6, w, ex, ip, fp, lp))
        for (w, ex, ip, fp, lp) in self.sub4:
            ls.append("%d,%d,%d,%s,%d,%d" % (AF_INET, w, ex, ip, fp, lp))
        ls.append("NSLIST")
        ls += ["%d,%s" % (AF_INET6, ip) for ip in self.ns6] + ["%d,%s" % (AF_INET, ip) for ip in self.ns4]
        ls.append("PORTS %d,%d,%d,%d" % (self.p6, self.p4, self.p6 + 2 if self.p6 else 0, self.p4 + 3 if self.p4 else 0))
        ls.append("GO %d %s %s 0x01 %d" % (1 if self.udp else 0, self.user or "-", self.group or "-", pid))
        return ls

    def tail(self):
        ls = ["HOST host%d,10.9.8.%d" % (i, i + 1) for i in range(self.hosts)]
        if self.bogus:
            ls.append("BOGUS LINE")
            ls.append("HOST never,10.9.8.99")
        return ls

    def lines(self, pid=12345):
        return self.header(pid) + self.tail()

    def data(self, cut):
        return "".join(l + "\n" for l in self.lines()[:cut]).encode()

    def on6(self):
        return bool(self.sub6 or self.ns6)

    def on4(self):
        return bool(self.sub4 or self.ns4)

    def owner(self):
        if self.user is None and self.group is None:
            return "none"
        r = []
        if self.user is not None:
            r += [b"--uid-owner", self.user.encode()]
        if self.group is not None:
            r += [b"--gid-owner", self.group.encode()]
        return enc_rule(r)

    def desc(self):
        return "%s p6=%d p4=%d sub6=%d sub4=%d ns6=%d ns4=%d udp=%d user=%s group=%s hosts=%d bogus=%d" % (
            self.method, self.p6, self.p4, len(self.sub6), len(self.sub4), len(self.ns6), len(self.ns4),
            self.udp, self.user, self.group, self.hosts, self.bogus)

    def as_dict(self):
        return dict(self.__dict__)


def plan_from_dict(d):
    p = Plan.__new__(Plan)
    p.__dict__.update(d)
    for k in ("sub6", "sub4"):
        setattr(p, k, [tuple(x) for x in getattr(p, k)])
    return p


def own_names(plan):
    """names of the objects the session for this plan owns, per state component"""
    p6, p4 = str(plan.p6).encode(), str(plan.p4).encode()
    m = plan.method
    own = {"v6nat": set(), "v6mangle": set(), "v4nat": set(), "v4mangle": set(), "nft": set(), "anchors": set(),
           "v6mark": None, "v4mark": None}
    if m == "nat":
        if plan.on6():
            own["v6nat"].add(b"sshuttle-" + p6)
        if plan.on4():
            own["v4nat"].add(b"sshuttle-" + p4)
        if plan.owner() != "none":
            o = dec_rule(plan.owner())
            if plan.on6():
                own["v6mark"] = [b"-m", b"owner"] + o + [b"-j", b"MARK", b"--set-mark", p6]
            if plan.on4():
                own["v4mark"] = [b"-m", b"owner"] + o + [b"-j", b"MARK", b"--set-mark", p4]
    elif m == "tproxy":
        if plan.on6():
            own["v6mangle"] |= {b"sshuttle-%s-" % x + p6 for x in (b"m", b"t", b"d")}
        if plan.on4():
            own["v4mangle"] |= {b"sshuttle-%s-" % x + p4 for x in (b"m", b"t", b"d")}
    elif m == "nft":
        if plan.on6():
            own["nft"].add(b"sshuttle-ipv6-" + p6)
        if plan.on4():
            own["nft"].add(b"sshuttle-ipv4-" + p4)
    else:
        if plan.on6():
            own["anchors"].add(b"sshuttle6-" + p6)
        if plan.on4():
            own["anchors"].add(b"sshuttle-" + p4)
    return own


def jump_target(rule):
    for i, t in enumerate(rule):
        if t == b"-j":
            return rule[i + 1] if i + 1 < len(rule) else None
    return None


def erase(st, own):
    """the kernel state without the objects named for this session (spec side, python)"""
    out = copy.deepcopy(st)
    for key in ("v6nat", "v6mangle", "v4nat", "v4mangle"):
        names = own[key]
        mark = own["v6mark"] if key == "v6mangle" else own["v4mark"] if key == "v4mangle" else None
        t = []
        for n, rs in st[key]:
            if n in names:
                continue
            t.append((n, [r for r in rs if jump_target(r) not in names and not (mark is not None and r == mark and n == b"OUTPUT")]))
        out[key] = t
    out["nft"] = [(n, t) for n, t in st["nft"] if n not in own["nft"]]
    out["pf"]["anchors"] = [(a, t) for a, t in st["pf"]["anchors"] if a not in own["anchors"]]
    return out


def diverting(st, own):
    """(ii): some built-in/foreign chain still jumps into a non-empty owned chain, an owned nft table or a
    non-empty owned anchor remains while pf is enabled"""
    for key in ("v6nat", "v6mangle", "v4nat", "v4mangle"):
        names = own[key]
        tbl = dict(st[key])
        for n, rs in st[key]:
            if n in names:
                continue
            for r in rs:
                j = jump_target(r)
                if j in names and tbl.get(j):
                    return "%s: %s -> %s" % (key, n.decode("latin-1"), j.decode("latin-1"))
    for n, t in st["nft"]:
        if n in own["nft"]:
            return "nft table %s" % n.decode("latin-1")
    for a, t in st["pf"]["anchors"]:
        if a in own["anchors"]:
            return "pf anchor %s" % a.decode("latin-1")
    return None


def pf_view(st, drop_calls=True):
    """pf state modulo what sshuttle never undoes by design of pf.py: the anchor calls it appends to the main ruleset"""
    p = dict(st["pf"])
    if drop_calls:
        p["calls"] = []
    p["next"] = 0
    return p


def same_modulo(a, b):
    x, y = copy.deepcopy(a), copy.deepcopy(b)
    x["pf"], y["pf"] = pf_view(a), pf_view(b)
    return x == y


# ---------------------------------------------------------------- model side
def body_from_trace(plan, trace):
    """the opaque rule bodies (per family) of the plan, read off the fault-free real run"""
    b6, b4 = [], []
    fam = None
    nft_seen = {6: 0, 4: 0}
    for t in trace:
        if t == "M:setup6":
            fam = 6
        elif t == "M:setup4":
            fam = 4
        elif t.startswith("M:"):
            if t == "M:started" or t.startswith("M:restore"):
                break
        else:
            parts = t.split(":")
            av = [unhx(x) for x in parts[1].split(".")]
            dst = b6 if fam == 6 else b4
            if av[0] in (b"iptables", b"ip6tables") and av[4] == b"-A":
                dst.append("%s:%s" % (hx(av[5]), enc_rule(av[6:])))
            elif av[0] == b"nft" and av[1] == b"add rule":
                nft_seen[fam] += 1
                if nft_seen[fam] > 2:
                    dst.append("%s:%s" % (hx(av[4].split(b" ")[0]), enc_rule(av[4:])))
            elif av[0] == b"pfctl" and b"-f" in av and b"-a" in av:
                dst.append("%s:%s" % (hx(av[2]), hx(unhx(parts[2]) if len(parts) > 2 else b"")))
    return (",".join(b6) or "-"), (",".join(b4) or "-")


def cfg_fields(plan, bodies, repaired=True):
    tail = "".join("H" for _ in range(plan.hosts)) + ("XH" if plan.bogus else "")
    return " ".join([plan.method, "1" if repaired else "0", "1" if plan.udp else "0", plan.owner(),
                     str(len(plan.header())), tail or "-",
                     "1" if plan.on6() else "0", hx(str(plan.p6)), bodies[0],
                     "1" if plan.on4() else "0", hx(str(plan.p4)), bodies[1]])


def session_line(plan, bodies, cut, faults, state_enc, repaired=True):
    return "SESSION %s %d %s %s" % (cfg_fields(plan, bodies, repaired), cut,
                                    ",".join(str(k) for k in sorted(faults)) or "-", state_enc)


def parse_session(out):
    head, ev, fin = out.split(" | ")
    h = head.split(" ")
    return {"outcome": h[0], "ncmds": int(h[1]), "fin_at": int(h[2]), "py": h[3],
            "trace": ev.split(" ") if ev else [], "final": fin, "nlog": int(h[4]) if len(h) > 4 else None}


def pre_levels(plan, cut):
    """levels of the debug calls firewall.main makes before `try:` (firewall.py:205-326) for a dialogue
    cut after `cut` lines: debug1 'Starting firewall', debug1 'ready method', then debug2 'Got subnets' when the
    NSLIST line arrives, 'Got partial nslist' per name server, 'Got nslist' + 'Got ports' with PORTS, 'Got udp' with GO"""
    lv = [1, 1]
    hdr = plan.header()
    in_ns = False
    for line in hdr[:min(cut, len(hdr))]:
        if line == "NSLIST":
            lv.append(2)
            in_ns = True
        elif line.startswith("PORTS "):
            lv += [2, 2]
            in_ns = False
        elif line.startswith("GO "):
            lv.append(2)
        elif in_ns:
            lv.append(2)
    return lv


def log_env_fields(log, real):
    """the logging environment as the model takes it: the injected fault named by the (call, operation) at which
    it first fired in the real run (it did not fire: no fault)"""
    fired = real["log_fired"]
    if log.get("k") is None or fired is None:
        return "ok 0 0 OSError 0", 1
    j0, i0 = fired
    return "%s %d %d %s %d" % (log["mode"], j0, i0, log["cls"], 1 if log.get("both") else 0), max(1, i0)


def sessionL_line(plan, bodies, cut, faults, state_enc, log, real):
    env, nl = log_env_fields(log, real)
    return "SESSIONL %d %s %d %s %s %d %s %s" % (
        log.get("v", 0), env, nl, ",".join(str(x) for x in pre_levels(plan, cut)),
        cfg_fields(plan, bodies, True), cut, ",".join(str(k) for k in sorted(faults)) or "-", state_enc)


def obs(r, pf):
    return (r["outcome"], tuple(r["trace"]), r["final"], r["ncmds"], r["fin_at"], r["py"] if pf else "")


# ---------------------------------------------------------------- generators
def rand_plan(rng, method, p, variant):
    def subs4(n):
        pool = [(24, 0, "10.1.2.0", 0, 0), (32, 1, "10.1.2.66", 8080, 8080), (8, 0, "10.0.0.0", 0, 0),
                (0, 0, "0.0.0.0", 0, 0), (16, 1, "10.9.0.0", 0, 0), (24, 0, "192.168.7.0", 8000, 9000)]
        return rng.sample(pool, n)

    def subs6(n):
        pool = [(64, 0, "2404:6800:4004:80c::", 0, 0), (128, 1, "2404:6800:4004:80c::101f", 80, 80),
                (0, 0, "::", 0, 0), (48, 0, "fd00:1:2::", 8000, 9000)]
        return rng.sample(pool, n)
    pf = method.startswith("pf")
    lo = 1 if pf else 0
    n4, n6 = rng.randint(lo, 3), rng.randint(lo, 2)
    k4, k6 = rng.randint(0, 2), rng.randint(0, 1)
    fam = variant % 4          # 0: both, 1: v4 only, 2: v6 only, 3: both
    sub4, ns4 = subs4(n4), ["10.0.0.%d" % (53 + i) for i in range(k4)]
    sub6, ns6 = subs6(n6), ["fd00::%d" % (53 + i) for i in range(k6)]
    if fam == 1:
        sub6, ns6 = [], []
    if fam == 2:
        sub4, ns4 = [], []
    if not pf and not (sub4 or ns4 or sub6 or ns6):
        sub4 = subs4(1)
    p6 = p if (sub6 or ns6) else 0
    p4 = (p if rng.random() < 0.7 else p + 1) if (sub4 or ns4) else 0
    udp = method == "tproxy" and rng.random() < 0.5
    user = group = None
    if method == "nat" and variant % 3 != 0:
        user = rng.choice([None, "1000", "alice"])
        group = rng.choice([None, "100"]) if user else "100"
    return Plan(method, p6, p4, sub6, sub4, ns6, ns4, udp, user, group, hosts=rng.choice([0, 0, 1, 2]),
                bogus=rng.random() < 0.15)


# free text as other tools put it into `-m comment --comment` (the kernel stores the bytes, `iptables -nL` prints them
# verbatim): Latin-1, bytes that are not UTF-8 at all, valid multi-byte UTF-8, control characters (no NUL: C strings;
# the line feed is finding F90 and is exercised by listing_correspondence only)
ODD_INVALID = [b"r\xe8gle caf\xe9", b"\xff\xfe", b"\x80", b"\xbf\x80", b"\xc3", b"\xe2\x82", b"\xc0\xaf", b"\xed\xa0\x80",
               b"\xf4\x90\x80\x80", b"gr\xfc\xdfe", b"\xa4\x99"]
ODD_UTF8 = ["r\u00e8gle caf\u00e9".encode(), "\u20ac".encode(), "\U0001f600".encode(), "\u00a0\u2028".encode(), "\ufffd".encode(),
            "\u4e2d\u6587".encode()]
ODD_CTRL = [b"\x01\x02", b"\x07\x08", b"\t", b"\r", b"\x0b\x0c", b"\x1b[31m", b"\x7f", b"\x1c\x1d\x1e\x1f"]
ODD_ASCII = [b"plain", b"a b  c", b"/* x */", b"Chain", b"(0 references)", b"-", b"%s", b"\\n"]


def odd_text(rng, kind, port=None):
    """kind: invalid (contains bytes that are not UTF-8) | utf8 (valid, non-ASCII) | ctrl | ascii | any"""
    pools = {"invalid": [ODD_INVALID], "utf8": [ODD_UTF8], "ctrl": [ODD_CTRL], "ascii": [ODD_ASCII],
             "any": [ODD_INVALID, ODD_UTF8, ODD_CTRL, ODD_ASCII], "valid": [ODD_UTF8, ODD_CTRL, ODD_ASCII]}[kind]
    parts = [rng.choice(pools[0])] + [rng.choice(rng.choice(pools)) for _ in range(rng.randint(0, 3))]
    if len(pools) > 1:
        rng.shuffle(parts)
    if port is not None and rng.random() < 0.4:
        # the text of a chain header for the session's own chain, on the SAME line: must not be taken for one
        parts.insert(rng.randint(0, len(parts)), rng.choice([b"Chain sshuttle-%d (0 references)", b"Chain sshuttle-m-%d (1 references)",
                                                             b" Chain sshuttle-%d "]) % port)
    out = rng.choice([b"", b" "]).join(parts)
    return out if out != b"-j" else b"-j."


def comment_rule(rng, kind, port=None, target=b"RETURN"):
    return [b"-m", b"comment", b"--comment", odd_text(rng, kind, port), b"-j", target]


def odd_chain_name(rng, kind, port):
    """a legal foreign chain name (iptables refuses white space, nothing else; at most 28 bytes)"""
    if kind == "invalid":
        return rng.choice([b"caf\xe9", b"DOCKER-\xff\x80", b"sshuttle-%d\xe9" % port, b"\xe8\xe9", b"sshuttle-\xb9%d" % port])
    if kind == "utf8":
        return rng.choice(["caf\u00e9".encode(), "\u20ac-chain".encode(), ("sshuttle-%d\u00e9" % port).encode()])
    return rng.choice([b"Chain", b"DOCKER", b"sshuttle-x", b"sshuttle-%d-x" % port, b"ssh\x01ttle", b"sshuttle-%d\x7f" % port])


def foreign_state(rng, st, odd="ascii", port=1230, orng=None):
    """foreign rules and chains in every table; mutates and returns st.  odd: which bytes the free text of foreign
    rules and the foreign chain names carry (any | valid = everything that still is valid UTF-8 | ascii)"""
    for key in ("v6nat", "v6mangle", "v4nat", "v4mangle"):
        t = dict(st[key])
        order = [n for n, _ in st[key]]
        fc = b"DOCKER" if rng.random() < 0.5 else b"sshuttle-x"
        order.append(fc)
        t[fc] = [[b"-j", b"RETURN", b"-p", b"tcp"]]
        for b in (b"OUTPUT", b"PREROUTING"):
            t[b] = list(t[b]) + [[b"-j", fc], [b"-p", b"udp", b"-j", b"ACCEPT"]][: rng.randint(1, 2)]
        if odd != "ascii":
            kinds = ["invalid", "utf8", "ctrl", "ascii"] if odd == "any" else ["utf8", "ctrl", "ascii"]
            rng0, rng = rng, (orng or rng)      # the odd parts draw from their own stream (derived from the same seed)
            # a second foreign chain with an odd (but legal) name, jumped to from a built-in chain
            nm = odd_chain_name(rng, rng.choice(kinds), port)
            if nm not in t:
                order.append(nm)
                t[nm] = [comment_rule(rng, rng.choice(kinds), port)]
                t[rng.choice([b"OUTPUT", b"PREROUTING"])].append([b"-j", nm])
            # odd free text in the built-in chains (before and after where the session hooks in) and in the foreign chain
            for b in (b"OUTPUT", b"PREROUTING", fc):
                for _ in range(rng.randint(0, 2)):
                    t[b].insert(rng.randint(0, len(t[b])), comment_rule(rng, rng.choice(kinds), port))
            rng = rng0
        st[key] = [(n, t[n]) for n in order]
    st["nft"].append((b"filter", [(b"input", [[b"tcp dport 22 accept"]])]))
    st["pf"]["anchors"].append((b"com.apple", b"pass all\n"))
    st["pf"]["calls"].append((False, b"com.apple"))
    return st


# ---------------------------------------------------------------- the correspondence
def correspondence(ctx):
    rng = ctx.rng
    quick = ctx.quick()
    kern = Kernel(ctx.driver)
    try:
        _correspondence(ctx, rng, quick, kern)
    finally:
        kern.close()


METHODS = ["nat", "tproxy", "nft", "pf-freebsd", "pf-openbsd", "pf-darwin"]


def other_instance(kern, method, q, st_enc):
    """state after the REAL set-up of another instance on port q (both families), left running"""
    L = load_real()
    other = Plan(method, q, q, [(64, 0, "2001:db8::", 0, 0)], [(16, 0, "172.16.0.0", 0, 0)], [], ["172.16.0.53"])
    kern.set(st_enc)
    w = World(kern, [])
    L["shim"].world = w
    mod = L["pf" if method.startswith("pf") else method]
    if method.startswith("pf"):
        mod.pf = {"pf-freebsd": mod.FreeBsd, "pf-openbsd": mod.OpenBsd, "pf-darwin": mod.Darwin}[method]()
        mod._pf_context.clear()
        mod._pf_context.update(copy.deepcopy(L["pf_context0"]))
    m = mod.Method(method)
    old_err = sys.stderr
    sys.stderr = io.StringIO()
    try:
        m.setup_firewall(q, q + 2, [], AF_INET6, [(AF_INET6, 64, False, "2001:db8::", 0, 0)], False, None, None, "0x01")
        m.setup_firewall(q, q + 3, [(AF_INET, "172.16.0.53")], AF_INET, [(AF_INET, 16, False, "172.16.0.0", 0, 0)],
                         False, None, None, "0x01")
    finally:
        sys.stderr = old_err
    return kern.get()


def _correspondence(ctx, rng, quick, kern):
    nplans = 3 if quick else 40
    pending = []          # (model line repaired, model line asfound, real observation, case info)
    pendingL = []         # (SESSIONL line, real observation, case info): runs compared with the model WITH log points
    pendingE = []         # (model line, real observation, case info): runs with a foreign change while the session runs
    orng = random.Random("C04-odd-bytes-%d" % ctx.seed)   # free text / foreign events: own stream, same seed
    grng = random.Random("C04-environment-%d" % ctx.seed)  # environment outside the packet filter, signals: own stream
    pendingV = []         # (SESSIONE line, real observation, case info): runs compared with session_e (Model/FwEnv.v)
    srng = random.Random("C04-slow-commands-%d" % ctx.seed)  # slow commands: own stream

    def one(plan, bodies, cut, faults, st_enc, kind, snapshots=False):
        real = run_real(kern, plan.method, st_enc, plan.data(cut), faults, snapshots)
        info = {"plan": plan.as_dict(), "cut": cut, "faults": sorted(faults), "state": st_enc, "kind": kind}
        pending.append((session_line(plan, bodies, cut, faults, st_enc, True),
                        session_line(plan, bodies, cut, faults, st_enc, False), real, info))
        return real

    for method in METHODS:
        pf = method.startswith("pf")
        for pi in range(nplans):
            p = rng.choice([1230, 12300, 1024, 8080])
            plan = rand_plan(rng, method, p, pi)
            # initial states
            st0 = empty_state()
            skind = pi % 4
            # free text of foreign rules / foreign chain names: kind 1 and 3 any bytes (incl. not UTF-8), kind 2 everything
            # that still is valid UTF-8 (so that bytes which are not can APPEAR while the session runs)
            odd = {0: "none", 1: "any", 2: "valid", 3: "any"}[skind]
            if skind >= 1:
                foreign_state(rng, st0, odd, p, orng)
            ctx.count("foreign_text_%s" % odd)
            if pf:
                st0["pf"]["on"] = rng.random() < 0.5
                st0["pf"]["skip"] = rng.random() < 0.4
                if method == "pf-freebsd":
                    st0["pf"]["loaded"] = skind >= 2 or rng.random() < 0.6
                    if pi == 0:
                        st0["pf"]["loaded"] = False      # every run: kldload succeeds, the module is unloaded again (pf.py:182-194)
                    if not st0["pf"]["loaded"]:
                        st0["pf"].update(on=False, anchors=[], calls=[], skip=False)
                elif pi == 1:
                    st0["pf"]["skip"] = True             # every run: `set skip on lo` in force on OpenBSD and Darwin (pf.py:277-278, 357-358)
            st_enc = enc_state(st0)
            if skind >= 2:
                q = p * 10 if p < 6000 else p + 1
                st_enc = other_instance(kern, method, q, st_enc)
                if not pf and method != "nft":
                    st_enc = odd_in_other_instance(orng, kern, method, q, st_enc, odd, p)
            ctx.count("method_%s" % method)
            ctx.count("state_kind_%d" % skind)
            nl = len(plan.lines())
            nh = len(plan.header())
            # fault-free full run first: it also yields the opaque rule bodies
            base = run_real(kern, plan.method, st_enc, plan.data(nl), [], snapshots=True)
            bodies = body_from_trace(plan, base["trace"])
            check_bodies(ctx, plan, bodies)
            pending.append((session_line(plan, bodies, nl, [], st_enc, True), session_line(plan, bodies, nl, [], st_enc, False),
                            base, {"plan": plan.as_dict(), "cut": nl, "faults": [], "state": st_enc, "kind": "full"}))
            N = base["ncmds"]
            ctx.count("commands_total", N)
            # every cut position
            for cut in range(nl):
                one(plan, bodies, cut, [], st_enc, "cut")
                ctx.count("cuts")
            # mid-line cuts: oracle only (before GO nothing may be issued)
            data = plan.data(nh)
            # (a cut inside the last field of the GO line, the pid, still is a complete GO line)
            for pos in sorted(set(rng.randint(1, len(data) - 6) for _ in range(6))):
                r = run_real(kern, plan.method, st_enc, data[:pos], [])
                ctx.case(("midcut", plan.desc(), pos, st_enc))
                ctx.count("midline_cuts")
                if r["ncmds"] or r["final"] != st_enc:
                    ctx.violation("commands issued although the dialogue was cut before GO",
                                  {"plan": plan.as_dict(), "bytes": pos, "state": st_enc, "trace": r["trace"][:20]})
            # every single fault
            ks = range(N) if (not quick or N <= 70) else sorted(rng.sample(range(N), 70))
            for k in ks:
                one(plan, bodies, nl, [k], st_enc, "fault")
                ctx.count("single_faults")
            for _ in range(4 if quick else 25):
                if N >= 2:
                    one(plan, bodies, rng.randint(nh, nl), rng.sample(range(N), 2), st_enc, "fault2")
                    ctx.count("double_faults")
            log_dimension(ctx, rng, quick, kern, plan, bodies, st_enc, base, pending, pendingL, pi)
            if method in ("nat", "tproxy"):
                event_dimension(ctx, orng, quick, kern, plan, bodies, st_enc, base, pendingE)
            env_dimension(ctx, grng, quick or pi >= 6, kern, plan, bodies, st_enc, base, pending, pendingV, pi)
            slow_dimension(ctx, srng, quick or pi >= 6, kern, plan, bodies, st_enc, base, pending)
            if pi == 0 or (not quick and pi < 3):
                c04_sig.signal_dimension(ctx, sys.modules[__name__], grng, quick, kern, plan, bodies, st_enc, base)

    log_correspondence(ctx)
    listing_correspondence(ctx, orng, quick, kern)
    kwargs_evidence(ctx)

    # ---- model side in one batch
    lines = [p[0] for p in pending]
    outs = ctx.run_driver(lines)
    redo = []
    for (l1, l2, real, info), out in zip(pending, outs):
        m = parse_session(out)
        pf = info["plan"]["method"].startswith("pf")
        info["agree"] = obs(real, pf) == obs(m, pf)
        if not info["agree"]:
            redo.append((l2, real, info, m))
    outs2 = ctx.run_driver([r[0] for r in redo])
    asfound_only = 0
    for (l2, real, info, m), out in zip(redo, outs2):
        m2 = parse_session(out)
        pf = info["plan"]["method"].startswith("pf")
        if obs(real, pf) == obs(m2, pf):
            info["asfound"] = True
            asfound_only += 1
        else:
            first = next((i for i, (a, b) in enumerate(zip(real["trace"] + ["<end>"], m["trace"] + ["<end>"])) if a != b), None)
            ctx.disagree("session trace / final state" + (" under a log fault the real log() should swallow" if info.get("log") else ""),
                         {k: info.get(k) for k in ("plan", "cut", "faults", "kind", "log")},
                         {"outcome": real["outcome"], "first_diff_at": first,
                          "trace_at": real["trace"][first:first + 3] if first is not None else None,
                          "final": real["final"][:300], "py": real["py"]},
                         {"outcome": m["outcome"], "trace_at": m["trace"][first:first + 3] if first is not None else None,
                          "final": m["final"][:300], "py": m["py"]})
    ctx.extra["runs_matching_only_the_as_found_model"] = asfound_only

    # ---- the model WITH log points (nat, nft, tproxy): exit class, trace, final state and number of log calls
    outsL = ctx.run_driver([p[0] for p in pendingL])
    for (line, real, info), out in zip(pendingL, outsL):
        m = parse_session(out)
        a = obs(real, False) + (real["nlog"],)
        b = obs(m, False) + (m["nlog"],)
        ctx.count("sessionL_compared")
        if a != b:
            first = next((i for i, (x, y) in enumerate(zip(real["trace"] + ["<end>"], m["trace"] + ["<end>"])) if x != y), None)
            ctx.disagree("session with log points (sessionL): trace / final state / number of log calls",
                         {k: info.get(k) for k in ("plan", "cut", "faults", "kind", "log")},
                         {"outcome": real["outcome"], "crash": real["crash"], "nlog": real["nlog"], "ncmds": real["ncmds"],
                          "fired": real["log_fired"], "first_diff_at": first,
                          "trace_at": real["trace"][first:first + 3] if first is not None else None},
                         {"outcome": m["outcome"], "nlog": m["nlog"], "ncmds": m["ncmds"],
                          "trace_at": m["trace"][first:first + 3] if first is not None else None})

    # ---- sessions with a foreign change after STARTED: the model has no such event; the session's own commands are the
    #      same, and the final state is the model's final state with the foreign command applied to it
    outsE = ctx.run_driver([p[0] for p in pendingE])
    for (line, real, info), out in zip(pendingE, outsE):
        m = parse_session(out)
        exp = m["final"]
        if real["event_rc"] is not None:
            kern.set(m["final"])
            kern.cmd([unhx(x) for x in info["event"]])
            exp = kern.get()
        ctx.count("event_runs_compared")
        if (real["outcome"], tuple(real["trace"]), real["ncmds"], real["fin_at"], real["final"]) != \
                (m["outcome"], tuple(m["trace"]), m["ncmds"], m["fin_at"], exp):
            first = next((i for i, (x, y) in enumerate(zip(real["trace"] + ["<end>"], m["trace"] + ["<end>"])) if x != y), None)
            ctx.disagree("session with a foreign rule appearing while it runs: trace / final state",
                         {k: info.get(k) for k in ("plan", "cut", "faults", "kind", "event_note")},
                         {"outcome": real["outcome"], "crash": real["crash"], "ncmds": real["ncmds"], "first_diff_at": first,
                          "trace_at": real["trace"][first:first + 3] if first is not None else None, "final": real["final"][:300]},
                         {"outcome": m["outcome"], "ncmds": m["ncmds"],
                          "trace_at": m["trace"][first:first + 3] if first is not None else None, "final": exp[:300]})
        pending.append((line, line, real, info))       # the oracles below apply (against the state incl. the foreign change)

    # ---- sessions under an environment outside the packet filter, against session_e (Model/FwEnv.v)
    outsV = ctx.run_driver([p[0] for p in pendingV])
    for (line, real, info), out in zip(pendingV, outsV):
        m = parse_session(out)
        pf = info["plan"]["method"].startswith("pf")
        ctx.count("env_runs_compared_with_session_e")
        if obs(real, pf) != obs(m, pf):
            first = next((i for i, (x, y) in enumerate(zip(real["trace"] + ["<end>"], m["trace"] + ["<end>"])) if x != y), None)
            ctx.disagree("session under an environment outside the packet filter (session_e): outcome / trace / final state",
                         {k: info.get(k) for k in ("plan", "cut", "faults", "kind", "env")},
                         {"outcome": real["outcome"], "crash": real["crash"], "ncmds": real["ncmds"], "first_diff_at": first,
                          "trace_at": real["trace"][first:first + 3] if first is not None else None, "final": real["final"][:300]},
                         {"outcome": m["outcome"], "ncmds": m["ncmds"],
                          "trace_at": m["trace"][first:first + 3] if first is not None else None, "final": m["final"][:300]})
        pending.append((line, line, real, info))

    # ---- oracles on the implementation alone
    for (l1, l2, real, info) in pending:
        plan = plan_from_dict(info["plan"])
        ncmd = real["ncmds"]
        ctx.case((plan.desc(), info["cut"], tuple(info["faults"]), info["state"], repr(info.get("log")), repr(info.get("event")),
                  repr(info.get("env")), info.get("invoke")),
                 nontrivial=bool(ncmd) or 0 < info["cut"] < len(plan.header()),
                 sample={"plan": plan.desc(), "kind": info["kind"], "cut": info["cut"], "faults": info["faults"],
                         "outcome": real["outcome"], "commands": ncmd, "trace_head": real["trace"][:4]}
                 if info["kind"] in ("fault", "full") and len(ctx.samples) < 6 and ncmd else None)
        oracle(ctx, kern, plan, info, real)
    ctx.programs = len(pending)
    ctx.extra["exhaustive"] = not quick
    ctx.notes.append("every cut position and (thorough: every; quick: up to 70 per plan) single fault index of each generated plan was run")


# ---------------------------------------------------------------- the environment outside the packet filter
def env_fields(env):
    """the environment as the driver's SESSIONE takes it (Model/FwEnv.v wenv)"""
    rs = (env.get("resolver") or {}).get("raise")
    se, he = env.get("started_error"), env.get("hosts_error")
    return " ".join([env.get("read_error") or "eof",
                     rs[2] if rs and rs[0] == "setup" else "-",
                     se[1] if se else "-",
                     str(he[2]) if he and he[0] == "loop" else "-",
                     "1" if he and he[0] == "restore" else "0",
                     "1" if rs and rs[0] == "teardown" else "0"])


def sessionE_line(plan, bodies, cut, faults, st_enc, env):
    return "SESSIONE %s %s %d %s %s" % (env_fields(env), cfg_fields(plan, bodies, True), cut,
                                        ",".join(str(k) for k in sorted(faults)) or "-", st_enc)


def env_note(env):
    out = []
    if env.get("read_error"):
        out.append("the helper's stdin ends with %s instead of EOF" % env["read_error"])
    if env.get("started_error"):
        out.append("stdout.%s of STARTED raises %s" % tuple(env["started_error"]))
    he = env.get("hosts_error")
    if he:
        out.append("rewrite_etc_hosts raises %s %s" % (he[1], "at restore" if he[0] == "restore" else "for HOST line #%d" % he[2]))
    r = env.get("resolver")
    if r:
        out.append("PATH has %s, exit codes %r%s" % (r.get("tool"), r.get("rv") or {},
                                                     (", %s raises %s during %s" % (r["raise"][1], r["raise"][2], r["raise"][0])) if r.get("raise") else ""))
    if "programs" in env:
        out.append("PATH has only %s" % (", ".join(sorted(env["programs"])) or "nothing"))
    if env.get("slow"):
        out.append("external command(s) #%s of the session (counted from 0 over set-up and tear-down) take longer than any timeout "
                   "the code passes to subprocess: with a timeout the stand-in kills the command (no effect) and raises "
                   "subprocess.TimeoutExpired as subprocess does, without one the command is only late"
                   % ",".join(str(k) for k in env["slow"]))
    return "; ".join(out)


def hosts_reached(plan, cut, env):
    """HOST lines whose name the helper put into its map (the restore of the hosts file is due iff > 0)"""
    n = min(plan.hosts, max(0, cut - len(plan.header())))
    env = env or {}
    rs = (env.get("resolver") or {}).get("raise")
    if env.get("started_error") or (rs and rs[0] == "setup"):
        return 0
    he = env.get("hosts_error")
    if he and he[0] == "loop":
        n = min(n, he[2] + 1)
    return n


def env_dimension(ctx, rng, quick, kern, plan, bodies, st_enc, base, pending, pendingV, pi):
    """sessions of `plan` whose exits come from outside the packet filter: read error instead of EOF, failing STARTED
    write, failing hosts-file update, the resolver-cache flush, UDP asked of a method that refuses it, the method
    found by get_auto_method / refused by is_supported.  Compared with session_e / session; C04 oracles apply."""
    pf = plan.method.startswith("pf")
    plan = copy.copy(plan)
    plan.hosts, plan.bogus = 2, False            # two HOST lines, then EOF
    nl, nh = len(plan.lines()), len(plan.header())
    N, fin_at = base["ncmds"], base["fin_at"]
    td = list(range(fin_at, N))

    def go(cut, faults, env, kind):
        real = run_real(kern, plan.method, st_enc, plan.data(cut), faults, snapshots=(kind == "env-started"), env=env)
        info = {"plan": plan.as_dict(), "cut": cut, "faults": sorted(faults), "state": st_enc, "kind": kind, "env": env}
        pendingV.append((sessionE_line(plan, bodies, cut, faults, st_enc, env), real, info))
        ctx.count("env_runs")
        ctx.count(kind.replace("-", "_"))
        return real

    def tdf():
        return [rng.choice(td)] if td and rng.random() < 0.4 else []
    io_classes = ["ConnectionResetError", "OSError", "TimeoutError", "BrokenPipeError", "ConnectionAbortedError"]
    # (a) the channel ends with a read error: at every section boundary and inside the wait loop
    cuts = sorted(set([0, nh, nl] + [rng.randrange(1, nh) for _ in range(1 if quick else 4)] + [rng.randint(nh, nl)]))
    for cut in (cuts if quick else range(nl + 1)):
        go(cut, tdf() if cut >= nh else [], {"read_error": rng.choice(io_classes)}, "env-read-error")
    go(rng.choice([0, rng.randrange(1, nh), nl]), [], {"read_error": rng.choice(["ValueError", "RuntimeError", "EOFError"])},
       "env-read-error-not-an-ioerror")
    # (b) the client is gone when STARTED is written
    for how in ("write", "flush"):
        for cls in (rng.sample(io_classes, 2) if quick else io_classes):
            go(nl, tdf(), {"started_error": [how, cls]}, "env-started")
    go(nl, [], {"started_error": [rng.choice(["write", "flush"]), rng.choice(["ValueError", "RuntimeError"])]}, "env-started-not-an-ioerror")
    # (c) the hosts file cannot be rewritten
    for k in range(plan.hosts):
        go(nl, tdf(), {"hosts_error": ["loop", rng.choice(["OSError", "PermissionError", "UnicodeDecodeError", "FileNotFoundError"]), k]},
           "env-hosts-update-fails")
    go(nl, tdf(), {"hosts_error": ["restore", rng.choice(["OSError", "PermissionError", "UnicodeDecodeError"])]}, "env-hosts-restore-fails")
    go(nh + 1, [], {"hosts_error": ["restore", "OSError"], "read_error": "ConnectionResetError"}, "env-hosts-restore-fails")
    # (d) flush_systemd_dns_cache against a simulated PATH / resolvectl
    for tool in ("resolvectl", "systemd-resolve"):
        r = go(nl, [], {"resolver": {"tool": tool, "rv": {"setup": 0, "teardown": 0}}}, "env-resolver-present")
        want = ["resolvectl", "flush-caches"] if tool == "resolvectl" else ["systemd-resolve", "--flush-caches"]
        if r["flush_log"] != ([("setup", want)] if "M:started" in r["trace"] else []) + [("teardown", want)]:
            ctx.disagree("flush_systemd_dns_cache: commands", {"tool": tool, "plan": plan.desc(), "trace": [t for t in r["trace"] if t.startswith("M:")]},
                         r["flush_log"], "once after a completed set-up, once in the finally block")
    go(nl, tdf(), {"resolver": {"tool": "resolvectl", "rv": {"setup": rng.choice([1, 127]), "teardown": rng.choice([0, 1])}}}, "env-resolver-exit-code")
    for phase in ("setup", "teardown"):
        for how in ("popen", "wait"):
            go(nl, tdf(), {"resolver": {"tool": rng.choice(["resolvectl", "systemd-resolve"]), "rv": {},
                                         "raise": [phase, how, rng.choice(["OSError", "FileNotFoundError", "PermissionError", "BlockingIOError"])]}},
               "env-resolver-raises-in-%s" % phase)
    # (e) UDP asked of a method that refuses it (nat.py:21-22,89-90; nft.py:17-18,91-92; pf.py:456-457,481-482)
    if plan.method != "tproxy":
        p3 = copy.copy(plan)
        p3.udp = True
        for cut in (nl, nh):
            real = run_real(kern, p3.method, st_enc, p3.data(cut), [])
            pending.append((session_line(p3, bodies, cut, [], st_enc, True), session_line(p3, bodies, cut, [], st_enc, False), real,
                            {"plan": p3.as_dict(), "cut": cut, "faults": [], "state": st_enc, "kind": "udp-refused"}))
            ctx.count("udp_refused_runs")
            # (what the run leaves behind is judged by the oracles below; that it refuses at once, by the model comparison)
    # (g) pfSense = FreeBSD with another layout of the ioctl structure (pf.py:369-374): the same sessions, the same model
    if plan.method == "pf-freebsd":
        for cut, faults in ((nl, []), (rng.randint(nh, nl), tdf()), (nl, [rng.randrange(N)] if N else [])):
            real = run_real(kern, "pf-pfsense", st_enc, plan.data(cut), faults)
            pending.append((session_line(plan, bodies, cut, faults, st_enc, True), session_line(plan, bodies, cut, faults, st_enc, False), real,
                            {"plan": plan.as_dict(), "cut": cut, "faults": sorted(faults), "state": st_enc, "kind": "pfsense"}))
            ctx.count("pfsense_runs")
    # (f) the method is chosen by the real get_auto_method / refused by the real is_supported, against a simulated PATH
    needs = {"nat": ["iptables"], "nft": ["nft"], "tproxy": ["iptables", "ip6tables"], "pf": ["pfctl"]}
    short = "pf" if pf else plan.method
    if short != "tproxy":
        progs = {"nat": list(DEFAULT_PROGRAMS), "nft": ["nft", "pfctl", "ip6tables"], "pf": ["pfctl", "ip6tables"]}[short]
        for cut, faults in ((nl, []), (nl, tdf()), (rng.randint(nh, nl), [rng.randrange(N)] if N else [])):
            env = {"programs": progs}
            real = run_real(kern, plan.method, st_enc, plan.data(cut), faults, env=env, invoke="auto")
            info = {"plan": plan.as_dict(), "cut": cut, "faults": sorted(faults), "state": st_enc, "kind": "auto", "env": env, "invoke": "auto"}
            pending.append((session_line(plan, bodies, cut, faults, st_enc, True), session_line(plan, bodies, cut, faults, st_enc, False), real, info))
            ctx.count("auto_method_runs")
            if real["ready"] != short:
                ctx.disagree("get_auto_method: method announced in READY", {"PATH": progs}, real["ready"], short)
    cases = [(None, []), (None, [x for x in DEFAULT_PROGRAMS if x not in needs[short]]), ("auto", []), ("auto", ["ip6tables"])]
    if short == "tproxy":
        cases += [(None, ["iptables", "nft", "pfctl"]), (None, ["ip6tables"])]
    for invoke, progs in cases:
        env = {"programs": progs}
        real = run_real(kern, plan.method, st_enc, plan.data(nl), [], env=env, invoke=invoke)
        ctx.count("unsupported_method_runs")
        ctx.case(("unsupported", plan.desc(), tuple(progs), invoke, st_enc))
        if real["ncmds"] or real["final"] != st_enc or real["ready"] is not None or real["outcome"] != "FATAL":
            # (not what C04 states: which method runs is not its subject — reported as a changed mechanism)
            ctx.disagree("a method whose programs are not in PATH was not refused before anything was done",
                         {"plan": plan.desc(), "PATH": progs, "invoke": invoke or short},
                         {"outcome": real["outcome"], "ready": real["ready"], "commands": real["ncmds"]},
                         "Fatal before READY, no command issued")


# ---------------------------------------------------------------- slow commands
def slow_dimension(ctx, rng, quick, kern, plan, bodies, st_enc, base, pending):
    """sessions of `plan` in which the k-th external command (every k of set-up and tear-down; windows of consecutive
    commands; combined with cuts and with a failing command) takes longer than any timeout the code passes to subprocess
    (another program holds the xtables lock and `iptables -w` waits; a wedged pfctl).  The stand-in honours the keyword
    arguments as subprocess does: with a timeout the command is killed without effect and TimeoutExpired is raised,
    without one it is only late.  The model has no notion of time: a late command is a command -- the runs are compared
    with the model's session WITHOUT the slow script (same cut, same failing commands) and judged by the C04 oracles
    (identity / nothing left diverting / a later session starts); a command the code gave up on counts as the single
    failing command of the property text."""
    nl, nh = len(plan.lines()), len(plan.header())
    N, fin_at = base["ncmds"], base["fin_at"]
    if not N:
        return

    def go(cut, faults, slow, kind):
        env = {"slow": sorted(slow)}
        real = run_real(kern, plan.method, st_enc, plan.data(cut), faults, env=env)
        info = {"plan": plan.as_dict(), "cut": cut, "faults": sorted(faults), "state": st_enc, "kind": kind, "env": env}
        pending.append((session_line(plan, bodies, cut, faults, st_enc, True), session_line(plan, bodies, cut, faults, st_enc, False),
                        real, info))
        ctx.count("slow_command_runs")
        ctx.count(kind.replace("-", "_"))
        if real["timeouts"]:
            ctx.count("slow_command_runs_in_which_the_code_had_passed_a_timeout")
        return real
    cap = 24 if quick else N
    ks = list(range(N))
    if N > cap:
        # every tear-down command (they are few) and a sample of the set-up
        td = list(range(fin_at, N))[:cap]
        ks = sorted(set(td + rng.sample(range(fin_at), max(0, cap - len(td))))) if fin_at else td
    for k in ks:
        go(nl, [], [k], "slow-teardown" if k >= fin_at else "slow-setup")
    for _ in range(2 if quick else 8):
        a = rng.randrange(N)
        go(nl, [], range(a, min(N, a + rng.randint(2, 6))), "slow-window")        # the lock is held over several commands
    go(nl, [], range(N + 8), "slow-all")
    for _ in range(2 if quick else 8):
        go(rng.randint(nh, nl), [], [rng.randrange(N)], "slow-with-cut")
        k = rng.randrange(N)
        go(nl, [rng.choice([x for x in range(N) if x != k] or [k])], [k], "slow-with-fault")


def kwargs_evidence(ctx):
    """which keyword arguments the code passed to subprocess for each tool in this run (evidence), and any deviation from
    what linux.py / pf.py / firewall.py are read to pass (env=get_env(), pipes for pfctl, NO timeout: the model's
    commands run to completion) as a disagreement"""
    ctx.extra["subprocess_keyword_arguments"] = {k: dict(v) for k, v in sorted(KW_SEEN.items())}
    for key, seen in sorted(KW_SEEN.items()):
        api, tool = key.split(" ", 1)
        want = KW_EXPECTED.get(api)
        for c, n in sorted(seen.items()):
            if c != want:
                ctx.disagree("keyword arguments passed to subprocess.%s for `%s` (%d commands)" % (api, tool, n),
                             {"api": api, "tool": tool}, c, want + " (nothing else: no timeout -- the model's commands run to completion)")


# ---------------------------------------------------------------- the logging dimension
def log_dimension(ctx, rng, quick, kern, plan, bodies, st_enc, base, pending, pendingL, pi):
    """sessions of `plan` under logging environments: verbosity x failing stream operation x class x mode,
    combined with cuts and failing commands.  Runs with a class the spec says log() must swallow (OSError / ValueError
    subclasses — decided by Python's issubclass, not by the code under test) go through the C04 oracles and are compared
    with the model WITHOUT logging; nat/nft/tproxy runs are also compared with the model with log points."""
    nl, nh = len(plan.lines()), len(plan.header())
    N, fin_at = base["ncmds"], base["fin_at"]
    with_L = not plan.method.startswith("pf")

    def go(cut, faults, log, kind, oracle_applies=True):
        real = run_real(kern, plan.method, st_enc, plan.data(cut), faults,
                        snapshots=oracle_applies and kind in ("log-hangup", "log-base"), log=log)
        info = {"plan": plan.as_dict(), "cut": cut, "faults": sorted(faults), "state": st_enc, "kind": kind, "log": log}
        if real["log_anomaly"]:
            ctx.disagree("log stream used outside helpers.log", info["log"], real["log_anomaly"], "every stream operation belongs to a log call")
        if oracle_applies:
            pending.append((session_line(plan, bodies, cut, faults, st_enc, True),
                            session_line(plan, bodies, cut, faults, st_enc, False), real, info))
        if with_L:
            pendingL.append((sessionL_line(plan, bodies, cut, faults, st_enc, log, real), real, info))
        ctx.count("log_runs")
        ctx.count("log_verbose_%d" % log["v"])
        if log.get("k") is not None:
            ctx.count("log_class_%s" % log["cls"])
            ctx.count("log_mode_%s%s" % (log["mode"], "_stdout_too" if log.get("both") else ""))
            ctx.count("log_fault_fired" if real["log_fired"] else "log_fault_beyond_last_operation")
            if real["log_fired"]:
                ctx.count("log_fault_first_fired_%s" % ("after_STARTED_wait_loop_or_tear_down" if real["log_fired_after_started"]
                                                        else "before_STARTED_dialogue_or_set_up"))
        else:
            ctx.count("log_no_fault")
        if faults:
            ctx.count("log_with_command_fault")
        if cut < nl:
            ctx.count("log_with_cut")
        return real

    # fault-free runs at every verbosity: where the operations fall
    ops = {}
    for v in (0, 1, 2):
        r = go(nl, [], {"v": v}, "log-base")
        ops[v] = (r["log_ops"], r["ops_started"][0] if r["ops_started"] else None, r["log_ops_all"], r["ops_started"][1] if r["ops_started"] else None)
        ctx.count("log_operations_total", r["log_ops_all"])
    classes = ["OSError", "BrokenPipeError", "ValueError"]
    # (a) the terminal / pipe / file goes away while the session runs: every write fails from the first
    #     operation after STARTED on, at -v and -vv
    for v in (1, 2):
        if ops[v][1] is None:
            continue
        for cls in classes:
            go(nl, [], {"v": v, "k": ops[v][1], "mode": "from", "cls": cls, "both": False}, "log-hangup")
            ctx.count("log_hangup_after_started")
    # (b) not verbose, stderr dead from the start, one tear-down command fails: nonfatal() logs at any verbosity
    td = list(range(fin_at, N))
    for kc in (td if not quick else rng.sample(td, min(2, len(td)))):
        for cls in (classes if not quick else ["OSError", "ValueError"]):
            go(nl, [kc], {"v": 0, "k": 0, "mode": "from", "cls": cls, "both": rng.random() < 0.3}, "log-quiet-teardown-fault")
            ctx.count("log_dead_stderr_quiet_with_teardown_fault")
    # (c) every operation index at -v / -vv (thorough: all of the first plans of each method; otherwise a sample)
    more = LOG_REALISTIC
    for v in (1, 2):
        n_ops = ops[v][0]
        if quick:
            ks = sorted(rng.sample(range(n_ops), min(3, n_ops)))
        elif pi < 6:
            ks = range(n_ops)
        else:
            ks = sorted(rng.sample(range(n_ops), min(12, n_ops)))
        for k in ks:
            go(nl, [], {"v": v, "k": k, "mode": "from" if rng.random() < 0.6 else "once", "cls": rng.choice(more), "both": False},
               "log-every-op")
            ctx.count("log_operation_sweep")
    # (d) random combinations with cuts and failing commands, stdout flush failing as well
    for _ in range(5 if quick else 30):
        v = rng.choice([0, 1, 1, 2, 2])
        both = rng.random() < 0.35
        n_ops = ops[v][2] if both else ops[v][0]
        log = {"v": v, "k": rng.randint(0, n_ops + 1), "mode": rng.choice(["once", "from", "from"]),
               "cls": rng.choice(more), "both": both}
        faults = [rng.randrange(N)] if N and rng.random() < 0.5 else []
        go(rng.randint(nh, nl) if rng.random() < 0.6 else rng.randint(0, nl), faults, log, "log-random")
        ctx.count("log_random")
    # (e) a class log() does NOT swallow (no stream raises these; no oracle): fixes where the real code logs and
    #     what an escaping exception skips, against the model with log points
    if with_L:
        for _ in range(3 if quick else 12):
            v = rng.choice([1, 2])
            log = {"v": v, "k": rng.randint(0, ops[v][0]), "mode": rng.choice(["once", "from"]),
                   "cls": rng.choice(["RuntimeError", "TypeError", "KeyError", "Exception", "EOFError"]), "both": rng.random() < 0.3}
            faults = [rng.randrange(N)] if N and rng.random() < 0.5 else []
            go(rng.randint(nh, nl), faults, log, "log-unswallowed-class", oracle_applies=False)
            ctx.count("log_unswallowed_class_model_only")


class _FailingStream:
    """a stream whose operations consult one log call's environment"""

    def __init__(self, env, kind):
        self.env, self.kind = env, kind

    def _op(self):
        e = self.env
        i = e["i"]
        e["i"] += 1
        hit = (i == e["i0"]) if e["mode"] == "once" else (e["mode"] == "from" and i >= e["i0"] and (e["both"] or i > 0))
        if hit:
            raise make_exc(e["cls"])

    def write(self, s):
        self._op()
        return len(s)

    def flush(self):
        self._op()


def real_log_call(mode, i0, cls, both, nlines, fn="log", verbose=0):
    """one call of the real helpers.log (or debugN) with streams failing at operation i0 -> 'RETURN' | 'ESCAPE <class>'"""
    helpers = load_real()["helpers"]
    env = {"i": 0, "mode": mode, "i0": i0, "cls": cls, "both": both}
    old = (sys.stdout, sys.stderr, helpers.verbose)
    sys.stdout, sys.stderr, helpers.verbose = _FailingStream(env, "out"), _FailingStream(env, "err"), verbose
    try:
        try:
            getattr(helpers, fn)("\n".join("line %d" % x for x in range(nlines)))
            res = "RETURN"
        except BaseException as e:      # noqa
            res = "ESCAPE " + type(e).__name__
    finally:
        sys.stdout, sys.stderr, helpers.verbose = old
    return res, env["i"]


def log_correspondence(ctx):
    """ties the model's log / log_swallows / subclass / verbosity gate to sshuttle/helpers.py"""
    helpers = load_real()["helpers"]
    names = LOG_CLASS_NAMES
    # (1) the exception hierarchy of the running interpreter
    if IOError is not OSError:
        ctx.disagree("IOError is not OSError in this interpreter", "-", repr(IOError), "alias")
    pairs = [(a, b) for a in names for b in names]
    outs = ctx.run_driver(["SUBCLASS %s %s" % p for p in pairs])
    for (a, b), o in zip(pairs, outs):
        if (o == "1") != issubclass(log_class(a), log_class(b)):
            ctx.disagree("exception hierarchy", (a, b), issubclass(log_class(a), log_class(b)), o)
    ctx.count("log_subclass_pairs", len(pairs))
    # (2) the real log() on failing streams, every class, every operation position
    cases = []
    for cls in names:
        for nlines in (1, 2, 3):
            for i0 in range(nlines + 2):
                cases.append(("once", i0, cls, False, nlines))
                cases.append(("from", i0, cls, True, nlines))
                if i0:
                    cases.append(("from", i0, cls, False, nlines))
    cases.append(("ok", 0, "OSError", False, 2))
    outs = ctx.run_driver(["LOGCALL %s %d %s %d %d" % (m, i0, c, 1 if b else 0, n) for (m, i0, c, b, n) in cases])
    sw = dict(zip(names, ctx.run_driver(["SWALLOWS %s" % c for c in names])))
    for (m, i0, c, b, n), mo in zip(cases, outs):
        got, nops = real_log_call(m, i0, c, b, n)
        ctx.count("logcall_cases")
        ctx.count("logcall_escapes" if got != "RETURN" else "logcall_returns")
        if got != mo:
            ctx.disagree("helpers.log on a failing stream", {"mode": m, "op": i0, "class": c, "stdout_too": b, "lines": n}, got, mo)
        # oracle on the implementation alone (spec side: Python's own issubclass): what a dead stream can raise must not escape
        must_swallow = issubclass(log_class(c), (OSError, ValueError))
        if must_swallow != (sw[c] == "1"):
            ctx.disagree("log_swallows vs the spec (OSError / ValueError subclasses)", c, must_swallow, sw[c])
        if must_swallow and got != "RETURN":
            ctx.violation("helpers.log lets an exception of a failing stderr/stdout write escape (%s): the helper's clean-up "
                          "is abandoned at its next log call" % ("an OSError" if issubclass(log_class(c), OSError) else "a ValueError"),
                          {"log_call": {"mode": m, "i0": i0, "cls": c, "both": b, "nlines": n}, "got": got})
    ctx.case(("logcall", len(cases)), nontrivial=True)
    # (3) the verbosity gate (helpers.py:48-60) = the model's `dbg`: debugN touches the streams iff N <= verbose
    for v in range(0, 4):
        for lvl, fn in ((0, "log"), (1, "debug1"), (2, "debug2"), (3, "debug3")):
            got, nops = real_log_call("ok", 0, "OSError", False, 1, fn=fn, verbose=v)
            ctx.count("log_gate_cases")
            if (nops > 0) != (lvl <= v) or (nops not in (0, 3)) or got != "RETURN":
                ctx.disagree("verbosity gate", (fn, v), (got, nops), "active iff level <= verbose; 3 stream operations per one-line message")
    # (4) fail-closed look at the source of log(): [global] + two try blocks, each `except (IOError|OSError, ValueError): pass`
    try:
        tree = ast.parse(open(helpers.__file__).read())
        fn = [n for n in tree.body if isinstance(n, ast.FunctionDef) and n.name == "log"]
        problems = []
        if len(fn) != 1:
            problems.append("%d definitions of log" % len(fn))
        else:
            body = [n for n in fn[0].body if not isinstance(n, (ast.Global, ast.Expr))]
            if [type(n) for n in body] != [ast.Try, ast.Try]:
                problems.append("body is not two try statements: %r" % [type(n).__name__ for n in body])
            for t in [n for n in ast.walk(fn[0]) if isinstance(n, ast.Try)]:
                if t.orelse or t.finalbody or len(t.handlers) != 1:
                    problems.append("try at line %d: else/finally/handlers" % t.lineno)
                    continue
                h = t.handlers[0]
                elts = h.type.elts if isinstance(h.type, ast.Tuple) else [h.type] if h.type is not None else []
                named = sorted(ast.unparse(e) for e in elts)
                resolved = set()
                for nm in named:
                    import builtins
                    resolved.add(getattr(builtins, nm, None))
                if resolved != {OSError, ValueError} or h.name is not None:
                    problems.append("line %d: except %s" % (h.lineno, ", ".join(named) or "<bare>"))
                if [type(x) for x in h.body] != [ast.Pass]:
                    problems.append("line %d: handler body is not `pass`" % h.lineno)
        if problems:
            ctx.disagree("helpers.log except clauses (ast)", helpers.__file__, problems,
                         "two try blocks, each `except (IOError, ValueError): pass` = log_swallows")
    except (OSError, SyntaxError) as e:
        ctx.disagree("helpers.log source not readable", helpers.__file__, repr(e), "-")
    ctx.count("log_ast_checked")


# ---------------------------------------------------------------- foreign text with odd bytes; foreign changes mid-session
def state_with_event(kern, st_enc, event):
    kern.set(st_enc)
    kern.cmd([unhx(x) for x in event])
    return kern.get()


def odd_in_other_instance(rng, kern, method, q, st_enc, odd, port):
    """an administrator annotated the OTHER instance's chains: comment rules with odd bytes inside sshuttle-<q> etc."""
    if odd in ("none", "ascii"):
        return st_enc
    kinds = ["invalid", "utf8", "ctrl"] if odd == "any" else ["utf8", "ctrl"]
    kern.set(st_enc)
    table, chains = ("nat", [b"sshuttle-%d" % q]) if method == "nat" else ("mangle", [b"sshuttle-m-%d" % q, b"sshuttle-t-%d" % q])
    for prog in (b"iptables", b"ip6tables"):
        for ch in chains:
            if rng.random() < 0.7:
                kern.cmd([prog, b"-w", b"-t", table.encode(), b"-A", ch] + comment_rule(rng, rng.choice(kinds), port))
    return kern.get()


def event_dimension(ctx, rng, quick, kern, plan, bodies, st_enc, base, pendingE):
    """nat / tproxy: another tool appends a rule — whose comment carries odd bytes — to a chain the helper does not own,
    in the table the helper lists at tear-down or in another one, between STARTED and the end of the session."""
    nl, nh = len(plan.lines()), len(plan.header())
    N, fin_at = base["ncmds"], base["fin_at"]
    probed = "nat" if plan.method == "nat" else "mangle"
    s0 = dec_state(st_enc)
    cases = [("invalid", probed), ("invalid", probed), ("utf8", probed), ("ctrl", probed), ("ascii", probed),
             ("invalid", "mangle" if probed == "nat" else "nat")]
    if not quick:
        cases += [(rng.choice(["invalid", "utf8", "ctrl", "any"]), probed) for _ in range(6)]
    for kind, table in cases:
        fam = rng.choice([f for f, on in (("6", plan.on6()), ("4", plan.on4())) if on] or ["4"])
        key = "v%s%s" % (fam, table)
        foreign = [n for n, _ in s0[key] if n not in own_names(plan)[key] and not n.startswith(b"sshuttle-")]
        chain = rng.choice(foreign)
        prog = b"ip6tables" if fam == "6" else b"iptables"
        event = [hx(x) for x in [prog, b"-w", b"-t", table.encode(), rng.choice([b"-A", b"-A", b"-I"]), chain]]
        if unhx(event[4]) == b"-I":
            event.append(hx(b"1"))
        event += [hx(x) for x in comment_rule(rng, kind, plan.p6 or plan.p4)]
        cut = nl if rng.random() < 0.7 else rng.randint(nh, nl)
        faults = [rng.randrange(fin_at, N)] if N > fin_at and rng.random() < 0.25 else []
        real = run_real(kern, plan.method, st_enc, plan.data(cut), faults, event=event)
        note = ("while the session runs another tool issues: %s" % b" ".join(unhx(x) for x in event).decode("latin-1").encode("unicode_escape").decode())
        info = {"plan": plan.as_dict(), "cut": cut, "faults": sorted(faults), "state": st_enc, "kind": "foreign-event",
                "event": event, "event_note": note}
        if real["event_rc"] is not None:
            if real["event_rc"] != 0:
                ctx.disagree("the foreign command of the harness failed", note, real["event_rc"], 0)
            info["state_with_event"] = state_with_event(kern, st_enc, event)
            ctx.count("event_applied_after_STARTED")
        else:
            ctx.count("event_not_reached_session_never_started")
        pendingE.append((session_line(plan, bodies, cut, faults, st_enc, True), real, info))
        ctx.count("event_runs")
        ctx.count("event_text_%s" % kind)
        ctx.count("event_table_%s" % ("listed_at_tear_down" if table == probed else "other"))
        ctx.count("event_op_%s" % unhx(event[4]).decode())
        if faults:
            ctx.count("event_with_teardown_command_fault")


def real_chain_exists(kern, table_enc, name):
    """the real sshuttle.linux.ipt_chain_exists on the listing the kernel model prints for the table -> True | False | 'RAISES <cls>'"""
    L = load_real()
    st = empty_state()
    st["v4nat"] = dec_table(table_enc)
    kern.set(enc_state(st))
    w = World(kern, [])
    L["shim"].world = w
    try:
        return bool(L["linux"].ipt_chain_exists(AF_INET, "nat", name))
    except BaseException as e:      # noqa
        return "RAISES " + type(e).__name__


def listing_correspondence(ctx, rng, quick, kern):
    """ties the model's listing / decode / parse (chain_in_listing, chain_in_output) to sshuttle/linux.py ipt_chain_exists:
    the real function on tables whose rule text and foreign chain names carry arbitrary bytes; a fail-closed ast check of the
    decode mode; finding F90 (a line feed in a comment)."""
    L = load_real()
    linux = L["linux"]
    cases = []
    for i in range(150 if quick else 3000):
        port = rng.choice([1230, 12300, 1024, 8080])
        st = empty_state()
        mode = rng.choice(["any", "any", "valid", "ascii"])
        foreign_state(rng, st, mode, port)
        tbl = list(st["v4nat"])
        own = [b"sshuttle-%d" % port, b"sshuttle-m-%d" % port, b"sshuttle-t-%d" % port, b"sshuttle-d-%d" % port]
        present = [n for n in own if rng.random() < 0.35]
        for n in present:
            tbl.insert(rng.randint(4, len(tbl)), (n, [comment_rule(rng, "any", port)] if rng.random() < 0.3 else []))
        if rng.random() < 0.3:      # the neighbour port: sshuttle-12300 vs sshuttle-1230
            tbl.append((b"sshuttle-%d0" % port, []))
        lf = rng.random() < 0.12    # F90: a line feed inside a comment, followed by a forged header
        forged = None
        if lf:
            forged = rng.choice([n for n in own if n not in present] or own)
            tbl[rng.randint(0, 3)][1].append([b"-m", b"comment", b"--comment",
                                              odd_text(rng, "any") + b"\nChain " + forged + b" (0 references)", b"-j", b"RETURN"])
        probe = forged if forged and rng.random() < 0.7 else rng.choice(own + [b"Chain", b"DOCKER", b"sshuttle-%d0" % port])
        cases.append((enc_table(tbl), probe, lf))
    outs = ctx.run_driver(["CHAINEX %s %s" % (hx(n), t) for t, n, _ in cases])
    fooled = 0
    for (t, n, lf), o in zip(cases, outs):
        line_m, byte_m = [x == "1" for x in o.split(" ")]
        member = any(c == n for c, _ in dec_table(t))
        got = real_chain_exists(kern, t, n.decode())
        ctx.count("chain_probe_cases")
        ctx.count("chain_probe_%s" % ("with_line_feed_in_comment" if lf else "without_line_feed"))
        ctx.count("chain_probe_member" if member else "chain_probe_absent")
        if got != byte_m:
            ctx.disagree("ipt_chain_exists vs chain_in_output (decode, split, startswith on the raw listing)",
                         {"table": t[:600], "name": n.decode()}, got, byte_m)
        if not lf:
            if line_m != byte_m or byte_m != member:
                ctx.disagree("model: line-level test / byte-level test / membership differ on a listing without line feeds",
                             {"table": t[:600], "name": n.decode()}, (line_m, byte_m), member)
            # oracle on the implementation alone: the probe must be exact membership, whatever bytes the foreign text has
            if got != member:
                ctx.violation("ipt_chain_exists %s on an `iptables -nL` listing whose foreign rules / chain names carry bytes "
                              "outside ASCII (the helper then skips or mis-runs that family's tear-down: own chains are left behind)"
                              % ("raises %s" % got.split(" ")[1] if isinstance(got, str) else "gives the wrong answer"),
                              {"chain_probe": {"table": t, "name": n.decode(), "member": member}, "got": got,
                               "listing": kern.ask("LISTING " + t)[:1200]})
        elif got != member:
            fooled += 1
    if fooled:
        ctx.count("chain_probe_fooled_by_line_feed_F90", fooled)
        known_once(ctx, "F90", "a foreign rule whose comment contains a line feed followed by 'Chain sshuttle-<port> (' makes "
                   "ipt_chain_exists report a chain that does not exist (nat: the session cannot start; nothing is left behind)")
    # F90 on a whole session: nothing is created, nothing is left behind
    plan = Plan("nat", 0, 1230, [], [(8, 0, "10.0.0.0", 0, 0)], [], [])
    st = empty_state()
    st["v4nat"][2][1].append([b"-m", b"comment", b"--comment", b"x\nChain sshuttle-1230 (0 references)", b"-j", b"RETURN"])
    enc = enc_state(st)
    r = run_real(kern, "nat", enc, plan.data(len(plan.lines())), [])
    ctx.count("f90_session_%s" % ("cannot_start" if "M:started" not in r["trace"] else "starts"))
    if r["final"] != enc:
        ctx.violation("with a forged chain header in a foreign comment the nat session leaves the packet filter changed",
                      {"plan": plan.as_dict(), "cut": len(plan.lines()), "faults": [], "state": enc})
    # fail-closed look at the source of ipt_chain_exists: output.decode('ASCII', errors='replace').split('\n') ... startswith('Chain %s ' % name)
    problems = []
    try:
        tree = ast.parse(open(linux.__file__).read())
        fn = [x for x in tree.body if isinstance(x, ast.FunctionDef) and x.name == "ipt_chain_exists"]
        if len(fn) != 1:
            problems.append("%d definitions of ipt_chain_exists" % len(fn))
        else:
            calls = [x for x in ast.walk(fn[0]) if isinstance(x, ast.Call) and isinstance(x.func, ast.Attribute)]
            dec = [x for x in calls if x.func.attr == "decode"]
            if len(dec) != 1:
                problems.append("%d decode calls" % len(dec))
            else:
                d = dec[0]
                args = [a.value if isinstance(a, ast.Constant) else None for a in d.args]
                kw = {k.arg: (k.value.value if isinstance(k.value, ast.Constant) else None) for k in d.keywords}
                codec = args[0] if args else kw.get("encoding")
                errors = args[1] if len(args) > 1 else kw.get("errors")
                if not isinstance(codec, str) or codec.lower().replace("_", "-") not in ("ascii", "us-ascii"):
                    problems.append("decode codec %r (model: ASCII)" % (codec,))
                if errors != "replace":
                    problems.append("decode errors=%r (model: 'replace', a total decoder)" % (errors,))
                if set(kw) - {"encoding", "errors"} or len(args) > 2:
                    problems.append("unexpected decode arguments")
            sp = [x for x in calls if x.func.attr in ("split", "splitlines")]
            if len(sp) != 1 or sp[0].func.attr != "split" or len(sp[0].args) != 1 or sp[0].keywords or \
                    not isinstance(sp[0].args[0], ast.Constant) or sp[0].args[0].value != "\n":
                problems.append("lines are not obtained by exactly one .split('\\n')")
            sw = [x for x in calls if x.func.attr == "startswith"]
            if len(sw) != 1 or len(sw[0].args) != 1 or ast.unparse(sw[0].args[0]) != "'Chain %s ' % name":
                problems.append("test is not line.startswith('Chain %%s ' %% name): %s" % [ast.unparse(x) for x in sw])
    except (OSError, SyntaxError) as e:
        problems.append(repr(e))
    if problems:
        ctx.disagree("ipt_chain_exists decode / split / test (ast)", linux.__file__, problems,
                     "output.decode('ASCII', errors='replace').split('\\n'); line.startswith('Chain %s ' % name)")
    ctx.count("listing_ast_checked")


def check_bodies(ctx, plan, bodies):
    """assumption of the theorems: body rules jump only to built-in targets, or from the tproxy chain to the divert chain"""
    own = own_names(plan)
    for fam, b in zip((6, 4), bodies):
        if b == "-":
            continue
        p = str(plan.p6 if fam == 6 else plan.p4).encode()
        for item in b.split(","):
            c, _, r = item.partition(":")
            c, r = unhx(c), dec_rule(r)
            j = jump_target(r)
            allowed = {None, b"RETURN", b"REDIRECT", b"MARK", b"TPROXY", b"ACCEPT"}
            if plan.method == "tproxy" and c == b"sshuttle-t-" + p:
                allowed.add(b"sshuttle-d-" + p)
            if plan.method in ("nat", "tproxy") and j not in allowed:
                ctx.disagree("body rule jumps to an unexpected target", plan.desc(), repr(r), "body_ok assumption")


_UNKNOWN_REPORTED = set()


def report_unknown(ctx, plan, info, real):
    """a command the kernel model cannot parse: reported (once per method and command word) with the input that produced
    it, as a break of the correspondence -- the theorems of Props/C04.v speak about the command sequences of
    Model/FwLife.v only.  The run itself went on with the command answered as failing (Kernel.cmd)."""
    for av in real.get("unknown") or []:
        words = [unhx(x) for x in av]
        key = (plan.method, words[0], words[1] if len(words) > 1 else b"")
        if key in _UNKNOWN_REPORTED:
            continue
        _UNKNOWN_REPORTED.add(key)
        ctx.count("commands_unknown_to_the_kernel_model")
        ctx.disagree("the helper issued a command the kernel model (Model/FwLife.v parse_cmd) does not know; it was answered as a "
                     "failing command and the run went on",
                     {k: info.get(k) for k in ("plan", "cut", "faults", "kind", "state")},
                     {"argv": [w.decode("latin-1") for w in words], "outcome": real["outcome"], "crash": real.get("crash")},
                     "no such command in the model of %s" % plan.method)


def oracle(ctx, kern, plan, info, real):
    """the C04 oracles; a command killed by a timeout the code itself passed to subprocess (slow-command script, World.slow)
    is for the property what any other failing command is: 'any single firewall command failing during set-up or
    tear-down' still has every rule, chain, table or anchor content removed"""
    tmo = real.get("timeouts") or []
    if not tmo:
        return _oracle(ctx, kern, plan, info, real)
    before = len(ctx.violations)
    extra = dict(info.get("rep_extra") or {}, faults=info["faults"], commands_killed_by_the_timeout_the_code_passed=tmo)
    info2 = dict(info, faults=sorted(set(info["faults"]) | set(t[0] for t in tmo)), rep_extra=extra)
    _oracle(ctx, kern, plan, info2, real)
    own = own_names(plan)
    left = diverting(dec_state(real["final"]), own)
    for i in range(before, len(ctx.violations)):
        what, rp = ctx.violations[i]
        rp = dict(rp)
        rp.pop("finding_id", None)        # not the recorded finding: the command did not fail, the code gave up on it
        k, cmd, t = tmo[0]
        phase = "tear-down" if k >= real["fin_at"] else "set-up"
        what = ("slow command: %s command #%d `%s` took longer than the timeout=%r the code passed to subprocess; it was killed and "
                "subprocess.TimeoutExpired was raised (not Fatal: nonfatal() and the Fatal handlers let it through; helper outcome %s%s), "
                "%d further command(s) ran; result: %s%s"
                % (phase, k, cmd, t, real["outcome"], (" " + real["crash"]) if real.get("crash") else "",
                   real["ncmds"] - k - 1, what, ("; left over and still diverting: " + left) if left else ""))
        ctx.violations[i] = (what, rp)


def _oracle(ctx, kern, plan, info, real):
    report_unknown(ctx, plan, info, real)
    own = own_names(plan)
    # a foreign change while the session ran is part of "what the helper does not own": the reference state includes it
    s0 = dec_state(info.get("state_with_event") or info["state"])
    fin = dec_state(real["final"])
    want = erase(s0, own)
    pf = plan.method.startswith("pf")
    rep = {"plan": info["plan"], "cut": info["cut"], "faults": info["faults"], "state": info["state"]}
    if info.get("event"):
        rep["event"] = info["event"]
        rep["event_note"] = info.get("event_note", "") + "; outcome=%s crash=%s commands=%d of which tear-down=%d" % (
            real["outcome"], real.get("crash"), real["ncmds"], real["ncmds"] - real["fin_at"])
    if info.get("env"):
        rep["env"] = info["env"]
        rep["env_note"] = env_note(info["env"]) + "; outcome=%s crash=%s commands=%d of which tear-down=%d" % (
            real["outcome"], real.get("crash"), real["ncmds"], real["ncmds"] - real["fin_at"])
    if info.get("invoke"):
        rep["invoke"] = info["invoke"]
    if info.get("rep_extra"):
        rep.update(info["rep_extra"])
    if info.get("log"):
        rep["log"] = info["log"]
        lg = info["log"]
        rep["log_note"] = ("helpers.verbose=%s; " % lg.get("v", 0)
                           + ("no failing stream operation" if lg.get("k") is None else
                              "operation #%s on the helper's %s raises %s (%s)"
                              % (lg["k"], "stdout+stderr" if lg.get("both") else "stderr", lg["cls"],
                                 "once" if lg.get("mode") == "once" else "from then on"))
                           + "; outcome=%s crash=%s commands=%d of which tear-down=%d"
                           % (real["outcome"], real.get("crash"), real["ncmds"], real["ncmds"] - real["fin_at"]))
    fin_at = real["fin_at"]
    teardown_fault = any(k >= fin_at for k in info["faults"]) and real["ncmds"] > fin_at
    if info.get("kind") == "udp-refused":
        # the method refuses the plan before doing anything: whatever is there (even objects named for these ports) stays
        if real["final"] != info["state"]:
            ctx.violation("UDP asked of a method without UDP support: the helper changed the packet filter and did not undo it (%s)" % plan.method,
                          dict(rep, final=real["final"][:600]))
        return
    if info["cut"] < len(plan.header()):
        if real["ncmds"] != 0 or real["final"] != info["state"]:
            ctx.violation("commands issued although the dialogue was cut before GO", rep)
        return
    # foreign objects untouched at every intermediate state
    if real.get("snaps"):
        for i, s in enumerate(real["snaps"]):
            es = erase(dec_state(s), own)
            if (es["pf"]["anchors"] != want["pf"]["anchors"]) if pf else not same_modulo(es, want):
                v = dict(rep, at_command=i, trace=real["trace"][max(0, i - 2): i + 3])
                if plan.method == "pf-freebsd":
                    v["defect"] = "F17"
                ctx.violation("a foreign rule or another instance's object changed during the session (%s)" % plan.method, v)
                break
    if not teardown_fault:
        ok = same_modulo(fin, want)
        if pf:
            ok = pf_identity(plan, s0, fin, rep, ctx) and ok
        if not ok and not pf:
            v = dict(rep, final=real["final"][:600])
            if plan.method == "tproxy":
                v["defect"] = "F9"
            ctx.violation("set-up + tear-down is not the identity on the packet-filter state (%s)" % plan.method, v)
        elif not ok:
            ctx.count("pf_identity_deviations")
            # F43: OpenBSD/Darwin with `set skip on lo` in force: add_anchors loads a ruleset consisting of
            # 'match on lo' / 'pass on lo' only over the main ruleset, and nothing ever restores it
            a, b = pf_view(s0), pf_view(fin)
            rest_equal = all(a[k] == b[k] for k in a if k not in ("main", "skip"))
            w2, f2 = copy.deepcopy(want), copy.deepcopy(fin)
            w2["pf"], f2["pf"] = {}, {}
            if (plan.method in ("pf-openbsd", "pf-darwin") and s0["pf"]["skip"] and rest_equal and w2 == f2
                    and (a["main"], a["skip"]) != (b["main"], b["skip"])):
                ctx.known("F43", "pf on OpenBSD/Darwin with 'set skip on lo': the main ruleset is replaced by 'match/pass on lo' during set-up and never restored")
                ctx.violation("pf: the main ruleset was replaced during set-up and is not restored (set skip on lo)",
                              dict(rep, finding_id="F43", main_before=[hx(t) for t in a["main"]][:6], main_after=[hx(t) for t in b["main"]][:6]))
            else:
                nv = len(ctx.violations)
                pf_identity(plan, s0, fin, rep, ctx)            # reports the F17 shape under its own name
                if len(ctx.violations) == nv:
                    pa, pb = s0["pf"], fin["pf"]
                    ctx.violation("set-up + tear-down is not the identity on the packet-filter state (%s)" % plan.method,
                                  dict(rep, final=real["final"][:600],
                                       pf_enabled_before=pa["on"], pf_enabled_after=pb["on"],
                                       pf_loaded_before=pa["loaded"], pf_loaded_after=pb["loaded"]))
        return
    # ---- a tear-down command failed
    tr = real["trace"]
    if plan.on6() and plan.on4() and not ("M:restore6" in tr and "M:restore4" in tr):
        ctx.violation("a failing tear-down command kept the other family's restore from running", rep)
    hosts_seen = hosts_reached(plan, info["cut"], info.get("env"))
    if hosts_seen and "M:started" in tr and "M:hosts" not in tr:
        ctx.violation("a failing tear-down command kept the hosts file from being restored", rep)
    # which command failed?
    failed = []
    idx = -1
    for t in tr:
        if t.startswith("M:") or t.split(":")[1].startswith(hx(b"ioctl-add-anchor")):
            continue
        idx += 1
        if idx in info["faults"] and idx >= fin_at:
            failed.append([unhx(x) for x in t.split(":")[1].split(".")])
    listing_fault = any(a[-1] == b"-nL" for a in failed)
    if pf:
        pf_teardown_oracle(ctx, kern, plan, info, real, rep, s0, fin, want, own, failed)
    single_cmd_teardown = plan.method == "nft" or pf
    dv = diverting(fin, own)
    single = len(info["faults"]) == 1
    if dv and single and not listing_fault and not single_cmd_teardown:
        v = dict(rep, still_diverting=dv, final=real["final"][:600])
        if plan.method == "tproxy":
            v["defect"] = "F9"
        ctx.violation("after one failing tear-down command traffic is still diverted (%s)" % plan.method, v)
    if dv and single and listing_fault:
        ctx.count("listing_fault_leaves_rules_until_next_session")
        known_once(ctx, "F42", "a failing `iptables -nL` (ipt_chain_exists) at tear-down skips that family's whole restore: the rules keep diverting until a later session cleans up")
        ctx.violation("after a failing chain listing at tear-down traffic is still diverted (%s)" % plan.method,
                      dict(rep, still_diverting=dv, finding_id="F42"))
    # (iii) a later fault-free session on the same port starts and reaches the clean state
    if len(info["faults"]) == 1 and not pf:
        nl = len(plan.lines())
        r2 = run_real(kern, plan.method, real["final"], plan.data(nl), [])
        ctx.count("restart_runs")
        clean = same_modulo(dec_state(r2["final"]), want)
        started = "M:started" in r2["trace"]
        if not (clean and started):
            mark_residue = plan.method == "nat" and plan.owner() != "none" and any(b"mangle" in a and b"-D" in a for a in failed)
            v = dict(rep, second_session_started=started, second_final=r2["final"][:600])
            if plan.method == "tproxy":
                v["defect"] = "F9"
            if mark_residue:
                ctx.count("nat_mark_rule_residue")
                v["finding_id"] = "F41"
                known_once(ctx, "F41", "nat with --user/--group: a failing `-t mangle -D OUTPUT ... MARK` at tear-down leaves the MARK rule for good")
            # the failing script, spelled out: which tear-down command of the first session failed, and which command of the
            # later (fault-free) session then failed
            v["first_session_failed_teardown_command"] = [b" ".join(a).decode("latin-1") for a in failed]
            bad2 = [b" ".join(unhx(x) for x in t.split(":")[1].split(".")).decode("latin-1")
                    for t in r2["trace"] if not t.startswith("M:") and not t.startswith("0:")]
            v["second_session_failing_commands"] = bad2[:4]
            v["second_session_outcome"] = r2["outcome"]
            detail = ""
            if not started and bad2:
                detail = ": its set-up command `%s` fails over what the first session's failed `%s` left behind" % (
                    bad2[0], v["first_session_failed_teardown_command"][0] if failed else "?")
            ctx.violation("after one failing tear-down command a later session on the same port %s (%s)%s"
                          % ("cannot start" if not started else "does not reach the clean state", plan.method, detail), v)


F150_TEXT = ("pf: a failing tear-down `pfctl -d` / `pfctl -X <token>` leaves pf enabled for good: the command is never retried (Darwin pops "
             "the token before pfctl runs), a pf that was disabled before the session stays enabled (Darwin: the session's reference stays), "
             "and no later session repairs it: it finds pf enabled and does not count it as its own")


def report_f150(ctx, what, rep):
    ctx.count("F150_confirmed_on_real_code")
    known_once(ctx, "F150", F150_TEXT)
    ctx.violation(what, dict(rep, finding_id="F150"))


def pf_teardown_oracle(ctx, kern, plan, info, real, rep, s0, fin, want, own, failed):
    """pf, a command of the finally block was scripted to fail (theorems c04_pf_every_exit, c04_pf_flush_ok_clean,
    c04_pf_restartable).  Looks only at the real run: what may differ from the state before the session is
    (a) the anchor whose own `pfctl -a A -F all` failed (the failed command's own effect, as with nft's `delete table`),
    (b) pf left enabled / the session's Darwin reference left behind when `pfctl -d` or `pfctl -X` itself failed = F150
        (after a failing FLUSH alone the enable state must be the one before the session: the try/finally of the F150 fix),
    (c) F43.  Everything else is a violation."""
    a, b = s0["pf"], fin["pf"]
    darwin = plan.method == "pf-darwin"
    ctx.count("pf_teardown_fault_runs")
    flushes = [x[2] for x in failed if len(x) == 5 and x[0] == b"pfctl" and x[1] == b"-a" and x[3:] == [b"-F", b"all"]]
    enable_cmd_failed = any(x[0] == b"pfctl" and (x[1:] == [b"-d"] or (len(x) == 3 and x[1] == b"-X")) for x in failed)
    w2, f2 = copy.deepcopy(want), copy.deepcopy(fin)
    w2["pf"], f2["pf"] = {}, {}
    if w2 != f2:
        ctx.violation("pf: a session with a failing tear-down command changed the iptables/nft state", dict(rep, final=real["final"][:600]))
    if a["loaded"] != b["loaded"]:
        if not (plan.method == "pf-freebsd" and a["loaded"] and not b["loaded"]):
            ctx.violation("pf: the kernel module state changed over a session with a failing tear-down command",
                          dict(rep, pf_loaded_before=a["loaded"], pf_loaded_after=b["loaded"]))
        else:
            pf_identity(plan, s0, fin, rep, ctx)
        return
    foreign_after = [(n, t) for n, t in b["anchors"] if n not in own["anchors"]]
    if foreign_after != want["pf"]["anchors"]:
        ctx.violation("pf: an anchor the session does not own changed (failing tear-down command)", dict(rep, final=real["final"][:600]))
    left = [n for n, t in b["anchors"] if n in own["anchors"]]
    if any(n not in flushes for n in left):
        ctx.violation("pf: an anchor of the session keeps its rules although its own `pfctl -a <anchor> -F all` did not fail",
                      dict(rep, anchors_left=[n.decode("latin-1") for n in left], failed=[b" ".join(x).decode("latin-1") for x in failed]))
    elif left:
        ctx.count("pf_failing_flush_leaves_anchor_until_next_session")
    if (a["main"], a["skip"]) != (b["main"], b["skip"]):
        if plan.method in ("pf-openbsd", "pf-darwin") and a["skip"] and not b["skip"] and b["main"][:len(a["main"])] == a["main"]:
            ctx.known("F43", "pf on OpenBSD/Darwin with 'set skip on lo': the main ruleset is replaced by 'match/pass on lo' during set-up and never restored")
            ctx.violation("pf: the main ruleset was replaced during set-up and is not restored (set skip on lo)",
                          dict(rep, finding_id="F43", main_before=[hx(t) for t in a["main"]][:6], main_after=[hx(t) for t in b["main"]][:6]))
        else:
            ctx.violation("pf: the main ruleset changed over a session with a failing tear-down command", dict(rep, final=real["final"][:600]))
    en_dev = (a["on"], a["refs"]) != (b["on"], b["refs"])
    left_enabled = False
    if en_dev:
        if darwin:
            left_enabled = a["on"] == b["on"] and len(b["refs"]) > len(a["refs"]) and b["refs"][:len(a["refs"])] == a["refs"]
        else:
            left_enabled = (not a["on"]) and (not a["refs"]) and b["on"] and b["refs"] == a["refs"]
        if left_enabled and enable_cmd_failed:
            report_f150(ctx, "pf: after a failing tear-down command pf stays enabled although it was %s before the session (%s)"
                        % ("not referenced by sshuttle" if darwin else "disabled", plan.method),
                        dict(rep, failed=[b" ".join(x).decode("latin-1") for x in failed],
                             pf_on_before=a["on"], pf_on_after=b["on"], refs_before=len(a["refs"]), refs_after=len(b["refs"])))
        elif left_enabled and flushes:
            ctx.violation("pf: a failing `pfctl -a <anchor> -F all` at tear-down kept the helper from disabling pf / releasing its "
                          "reference: pf stays enabled with the session's rules still loaded (%s)" % plan.method,
                          dict(rep, defect="F150", failed=[b" ".join(x).decode("latin-1") for x in failed],
                               pf_on_before=a["on"], pf_on_after=b["on"], refs_before=len(a["refs"]), refs_after=len(b["refs"])))
        else:
            ctx.violation("pf: the enable state after a session with a failing tear-down command is neither the one before the session "
                          "nor explained by the failing command (%s)" % plan.method,
                          dict(rep, failed=[b" ".join(x).decode("latin-1") for x in failed],
                               pf_on_before=a["on"], pf_on_after=b["on"], refs_before=len(a["refs"]), refs_after=len(b["refs"])))
    # (iii) a later fault-free session on the same ports: starts, removes what a failing flush left; does it repair the enable state?
    if len(info["faults"]) == 1 and not info.get("event") and not info.get("env") and not info.get("log") and not info.get("invoke"):
        nl = len(plan.lines())
        r2 = run_real(kern, plan.method, real["final"], plan.data(nl), [])
        ctx.count("pf_restart_runs")
        fin2 = dec_state(r2["final"])
        c = fin2["pf"]
        started = "M:started" in r2["trace"] or not a["loaded"]     # without the module no pfctl command can succeed (c04_pf_restartable: pf_loaded)
        if not started or c["anchors"] != want["pf"]["anchors"]:
            ctx.violation("pf: after one failing tear-down command a later session on the same ports %s"
                          % ("cannot start" if not started else "does not remove the anchor content that was left"),
                          dict(rep, second_session_started=started, second_final=r2["final"][:600]))
        elif (c["on"], c["refs"]) != (a["on"], a["refs"]):
            if en_dev and left_enabled and (c["on"], c["refs"]) == (b["on"], b["refs"]):
                ctx.count("F150_not_repaired_by_later_session")
            else:
                ctx.violation("pf: a later fault-free session changed the enable state it found (%s)" % plan.method,
                              dict(rep, second_final=r2["final"][:600]))


def known_once(ctx, fid, text):
    if not any(k[0] == fid for k in ctx.known_hits):
        ctx.known(fid, text)


def pf_identity(plan, s0, fin, rep, ctx):
    """pf: enable state, module and tokens as before; reports F17"""
    a, b = s0["pf"], fin["pf"]
    if plan.method == "pf-freebsd" and a["loaded"] and not b["loaded"]:
        ctx.violation("pf/FreeBSD: the pf kernel module was unloaded although the session did not load it",
                      dict(rep, defect="F17"))
        return False
    return (a["on"], a["refs"], a["loaded"]) == (b["on"], b["refs"], b["loaded"])


def replay(ctx, rp):
    r = rp.get("replay", {})
    if "log_call" in r:
        got, _ = real_log_call(**r["log_call"])
        print("helpers.log on the failing stream:", got)
        return got != "RETURN"
    if "chain_probe" in r:
        kern = Kernel(ctx.driver)
        try:
            got = real_chain_exists(kern, r["chain_probe"]["table"], r["chain_probe"]["name"])
        finally:
            kern.close()
        print("ipt_chain_exists:", got, "chain really present:", r["chain_probe"]["member"])
        return got != r["chain_probe"]["member"]
    if "plan" not in r:
        print("nothing replayable in", rp.get("kind"))
        return False
    plan = plan_from_dict(r["plan"])
    kern = Kernel(ctx.driver)
    try:
        if "bytes" in r:
            real = run_real(kern, plan.method, r["state"], plan.data(len(plan.header()))[: r["bytes"]], [])
            print("commands issued:", real["ncmds"])
            return bool(real["ncmds"])
        if "signals" in r:
            return c04_sig.replay(ctx, sys.modules[__name__], kern, plan, r)
        real = run_real(kern, plan.method, r["state"], plan.data(r["cut"]), r["faults"], snapshots=not r.get("event"),
                        log=r.get("log"), event=r.get("event"), env=r.get("env"), invoke=r.get("invoke"))
        info = {"plan": r["plan"], "cut": r["cut"], "faults": r["faults"], "state": r["state"],
                "kind": "udp-refused" if (plan.udp and plan.method != "tproxy") else "replay",
                "log": r.get("log"), "event": r.get("event"), "env": r.get("env"), "invoke": r.get("invoke")}
        if r.get("event") and real["event_rc"] is not None:
            info["state_with_event"] = state_with_event(kern, r["state"], r["event"])
        before = len(ctx.violations)
        oracle(ctx, kern, plan, info, real)
        for what, _ in ctx.violations[before:]:
            print("still fails:", what)
        print("outcome:", real["outcome"], "trace tail:", real["trace"][-6:])
        return len(ctx.violations) > before
    finally:
        kern.close()


if __name__ == "__main__":
    sys.path.insert(0, os.path.join(os.path.dirname(os.path.abspath(__file__)), ".."))
    import framework
    sys.exit(framework.main(sys.modules[__name__]))
